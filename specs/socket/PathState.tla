----------------------------- MODULE PathState -----------------------------
(* C22 — address resolution for a connect is answered exactly once and correctly.

   Models `RemotePathState` (iroh/src/socket/remote_map/remote_state/path_state.rs) together
   with the three methods of `State` that drive it for resolve requests
   (iroh/src/socket/remote_map/remote_state.rs: handle_msg_resolve_remote,
   trigger_address_lookup, handle_address_lookup_item).  Pruning is PathPrune!Prune (C23).

   State
     st[a]      "absent" | "unknown" | "open" | "inactive" | "unusable"   RemotePathState::paths
     closedAt   close time of inactive paths (logical clock)              PathStatus::Inactive(t)
     pending    queued request ids                                        pending_resolve_requests
     lookup     "idle" | "run0" (running, no item yet) | "run1" (item seen)   address_lookup_stream
     selected   the actor has a selected path                             State::selected_path.is_some()
     answer[i]  "unasked" | "pending" | "ok" | "noresults" | "noservice"  the oneshot reply of request i

   Actions (one per handler / public method)
     Resolve(A)     handle_msg_resolve_remote: insert_multiple(A) [wakes pending only on the
                    empty -> non-empty transition], prune, resolve_remote(tx) [Ok at once if a path
                    is known, else queued], trigger_address_lookup [unless selected or running]
     LookupItem(A)  handle_address_lookup_item(Some(Ok(item))): insert_multiple(A), prune
     LookupEnd(e)   handle_address_lookup_item(None | Some(Err)): address_lookup_finished; the
                    queued requests get Ok if a path is known, else the error (NoResults when the
                    stream just ended); e = "noservice" only as the first and only event of a run
                    without services, "noresults" only if no item was yielded, "ok" only after one
     OpenPath(a)    insert_open_path (a connection's path got established): wakes pending, prune
     Abandon(a)     abandoned_path: open/inactive -> inactive(now), unknown/unusable -> unusable
     Select / Deselect   the actor selects a path (only an open one) / its last connection closed

   `hist` records, per step, the operation and the replies it produced plus whether the path
   set is empty afterwards; the harness (vh_remote c22) replays histories on the real
   RemotePathState (each model address = a block of ScaleB real addresses, so that the real
   thresholds 30/10 = ScaleB x MAXP/MAXI are reached) and on a real RemoteStateActor with a
   scripted address lookup service, and compares replies and emptiness step by step. *)
EXTENDS Naturals, Sequences, FiniteSets, TLC, Json

CONSTANTS NAddr,        \* addresses are 1..NAddr; the last NRelayAddr of them are relay addresses
          NRelayAddr,
          ArgSets,      \* the address sets that Resolve / LookupItem may carry (set of subsets of 1..NAddr)
          MaxReq, MaxSteps, MaxClock,
          Services,     \* TRUE: lookup services are configured; FALSE: none (lookup yields NoServiceConfigured)
          TrackHist,    \* TRUE: record `hist` and stop after MaxSteps steps (generator); FALSE: full state space
          ActorOnly,    \* TRUE: only the steps a harness can cause on a real actor without connections
          MAXP, MAXI, CodeRule      \* pruning thresholds and rule (see PathPrune)

VARIABLES st, closedAt, clock, pending, lookup, selected, answer, nreq, hist
vars == <<st, closedAt, clock, pending, lookup, selected, answer, nreq, hist>>
\* for witness search: states are identified without their history (the history kept is the first one found)
view == <<st, closedAt, clock, pending, lookup, selected, answer, nreq>>

Addrs == 1..NAddr
IsRelay(a) == a > NAddr - NRelayAddr
Known(s) == {a \in Addrs : s[a] # "absent"}

PP == INSTANCE PathPrune WITH S <- {}, NLive <- 0, NFail <- 0, NInact <- 0, NRelay <- 0
AsSet(s, c) == {[id |-> a, relay |-> IsRelay(a), st |-> s[a], t |-> c[a]] : a \in Known(s)}
\* prune_paths(): the statuses after pruning
Pruned(s, c) == LET keep == {p.id : p \in PP!Prune(AsSet(s, c))} IN
                [a \in Addrs |-> IF a \in keep THEN s[a] ELSE "absent"]

\* insert_multiple: new addresses become unknown, known ones keep their status
Inserted(s, A) == [a \in Addrs |-> IF a \in A /\ s[a] = "absent" THEN "unknown" ELSE s[a]]

Init == /\ st = [a \in Addrs |-> "absent"] /\ closedAt = [a \in Addrs |-> 0] /\ clock = 1
        /\ pending = <<>> /\ lookup = "idle" /\ selected = FALSE
        /\ answer = [i \in 1..MaxReq |-> "unasked"] /\ nreq = 0 /\ hist = <<>>

Bound == ~TrackHist \/ Len(hist) < MaxSteps
Answers(old, new) == {[id |-> i, res |-> new[i]] : i \in {j \in 1..MaxReq : old[j] # new[j] /\ new[j] # "pending"}}
\* one record shape for every step: A = address set, a = single address, e = how the lookup ended
Log(op, A, a, e) ==
  IF TrackHist /\ Len(hist) < MaxSteps
  THEN hist' = Append(hist, [op |-> op, addrs |-> A, addr |-> a, how |-> e, answers |-> Answers(answer, answer'),
                             empty |-> (Known(st') = {}), npending |-> Len(pending'), lookup |-> lookup'])
  ELSE UNCHANGED hist
\* every queued request gets `res`
Drain(res) == [i \in 1..MaxReq |-> IF \E k \in 1..Len(pending) : pending[k] = i THEN res ELSE answer[i]]

\* On a real actor without lookup services the lookup stream yields NoServiceConfigured by itself,
\* before the harness can do anything else: in ActorOnly mode that end preempts the next request.
Prompt == ActorOnly /\ ~Services
Resolve(A) ==
  /\ Bound /\ nreq < MaxReq /\ nreq' = nreq + 1 /\ (Prompt => lookup = "idle")
  /\ LET id == nreq + 1
         s1 == Inserted(st, A)
         woke == Known(st) = {} /\ Known(s1) # {} /\ pending # <<>>     \* insert_multiple's wake-up
         a1 == IF woke THEN Drain("ok") ELSE answer
         p1 == IF woke THEN <<>> ELSE pending
         s2 == Pruned(s1, closedAt)
     IN /\ st' = s2
        /\ IF Known(s2) # {}
              THEN answer' = [a1 EXCEPT ![id] = "ok"] /\ pending' = p1
              ELSE answer' = [a1 EXCEPT ![id] = "pending"] /\ pending' = Append(p1, id)
  /\ lookup' = IF ~selected /\ lookup = "idle" THEN "run0" ELSE lookup
  /\ UNCHANGED <<closedAt, clock, selected>> /\ Log("resolve", A, 0, "")

LookupItem(A) ==
  /\ Bound /\ Services /\ lookup \in {"run0", "run1"} /\ lookup' = "run1"
  /\ LET s1 == Inserted(st, A)
         woke == Known(st) = {} /\ Known(s1) # {} /\ pending # <<>>
     IN /\ answer' = IF woke THEN Drain("ok") ELSE answer
        /\ pending' = IF woke THEN <<>> ELSE pending
        /\ st' = Pruned(s1, closedAt)
  /\ UNCHANGED <<closedAt, clock, selected, nreq>> /\ Log("item", A, 0, "")

LookupEnd(e) ==      \* not step-bounded: a lookup that runs can always finish
  /\ lookup \in {"run0", "run1"} /\ lookup' = "idle"
  /\ \/ e = "noservice" /\ ~Services /\ lookup = "run0"
     \/ e = "noresults" /\ Services /\ lookup = "run0"
     \/ e = "ok" /\ Services /\ lookup = "run1"
  /\ answer' = IF pending = <<>> THEN answer
               ELSE IF Known(st) # {} THEN Drain("ok")
               ELSE Drain(IF e = "ok" THEN "noresults" ELSE e)
  /\ pending' = <<>>
  /\ UNCHANGED <<st, closedAt, clock, selected, nreq>> /\ Log("end", {}, 0, e)

OpenPath(a) ==
  /\ Bound /\ ~ActorOnly
  /\ LET s1 == [st EXCEPT ![a] = "open"] IN st' = Pruned(s1, closedAt)
  /\ answer' = (IF pending = <<>> THEN answer ELSE Drain("ok"))
  /\ pending' = <<>>
  /\ UNCHANGED <<closedAt, clock, lookup, selected, nreq>> /\ Log("open", {}, a, "")

Abandon(a) ==
  /\ Bound /\ ~ActorOnly /\ clock < MaxClock /\ st[a] # "absent"
  /\ IF st[a] \in {"open", "inactive"}
        THEN st' = [st EXCEPT ![a] = "inactive"] /\ closedAt' = [closedAt EXCEPT ![a] = clock]
        ELSE st' = [st EXCEPT ![a] = "unusable"] /\ UNCHANGED closedAt
  /\ clock' = clock + 1
  /\ UNCHANGED <<pending, lookup, selected, answer, nreq>> /\ Log("abandon", {}, a, "")

Select == /\ Bound /\ ~ActorOnly /\ ~selected /\ (\E a \in Addrs : st[a] = "open") /\ selected' = TRUE
          /\ UNCHANGED <<st, closedAt, clock, pending, lookup, answer, nreq>> /\ Log("select", {}, 0, "")
Deselect == /\ Bound /\ ~ActorOnly /\ selected /\ selected' = FALSE
            /\ UNCHANGED <<st, closedAt, clock, pending, lookup, answer, nreq>> /\ Log("deselect", {}, 0, "")

Next == \/ (\E A \in ArgSets : Resolve(A)) \/ (\E A \in ArgSets : LookupItem(A))
        \/ (\E e \in {"ok", "noresults", "noservice"} : LookupEnd(e))
        \/ (\E a \in Addrs : OpenPath(a)) \/ (\E a \in Addrs : Abandon(a))
        \/ Select \/ Deselect
Spec == Init /\ [][Next]_vars
\* the lookup services eventually finish (the statement's proviso)
FairSpec == Spec /\ WF_vars(\E e \in {"ok", "noresults", "noservice"} : LookupEnd(e))

---------------------------------------------------------------------------
(* C22 *)
Final == {"ok", "noresults", "noservice"}
\* answered exactly once: a final answer never changes, and an answer is only given to a request that was made
AnsweredOnce == [][\A i \in 1..MaxReq : (answer[i] \in Final => answer'[i] = answer[i])
                                     /\ (answer'[i] # "unasked" => i <= nreq')]_vars
\* success exactly when a path is known at answer time; failure only at the end of a lookup with no path known
OkMeansKnown == [][\A i \in 1..MaxReq : (answer[i] # "ok" /\ answer'[i] = "ok") => Known(st') # {}]_vars
ErrOnlyAtLookupEnd == [][\A i \in 1..MaxReq :
                           (answer[i] \notin {"noresults", "noservice"} /\ answer'[i] \in {"noresults", "noservice"})
                              => (lookup # "idle" /\ lookup' = "idle" /\ Known(st) = {} /\ Known(st') = {})]_vars
\* ... immediately if a path is already known when the request is made; never left waiting while a path is known
Immediate == [][\A i \in 1..MaxReq : (answer[i] = "unasked" /\ answer'[i] # "unasked" /\ Known(st') # {}) => answer'[i] = "ok"]_vars
NoWaitingWhileKnown == Known(st) # {} => (pending = <<>> /\ \A i \in 1..MaxReq : answer[i] # "pending")
\* a waiting request is in the queue, exactly once
PendingConsistent == \A i \in 1..MaxReq : (answer[i] = "pending") <=> (Cardinality({k \in 1..Len(pending) : pending[k] = i}) = 1)
\* a waiting request has a lookup running that will answer it (the actor never selects a path while none is known)
WaitingHasLookup == (pending # <<>> /\ ~selected) => lookup # "idle"
SelectedHasPath == selected => Known(st) # {}
\* once a remote has a known path it never loses all of them
NonEmptyStable == [][Known(st) # {} => Known(st') # {}]_vars
\* given lookups that finish, every request is eventually answered
EventuallyAnswered == \A i \in 1..MaxReq : (answer[i] = "pending") ~> (answer[i] \in Final)

\* witness generator (used with CodeRule = TRUE): histories after which a remote that had a path has none
EmptiedWitness == (Known(st) = {} /\ \E i \in 1..MaxReq : answer[i] = "ok")
                     => PrintT(<<"REPLAY", ToJson([steps |-> hist, services |-> Services])>>)
\* behaviour generator: full-length histories
Emit == (Len(hist) = MaxSteps) => PrintT(<<"REPLAY", ToJson([steps |-> hist, services |-> Services])>>)
=============================================================================
