------------------------ MODULE DirectAddrUpdate ------------------------
(* C25 -- scheduling of direct-address updates (net report runs) in iroh/src/socket.rs:
   the socket Actor, DirectAddrUpdateState and the task spawned by DirectAddrUpdateState::run.

   State of the code                         model
     net_reporter: Arc<AsyncMutex<Client>>   lock  ("free" | "held"; held by an OwnedMutexGuard
                                                    that lives in the spawned task)
     want_update: Option<UpdateReason>       want  (BOOLEAN)
     the spawned run task                    task  ("none" | "probing" | "stored" | "signalled")
     run_done mpsc channel                   doneq (number of queued done signals)
     tasks that released the lock but have   tail  (only in the UnlockFirst design)
     not sent their done signal yet

   Actions (one per critical section / message handler of the code):
     ScheduleRun   Actor: re_stun(why) -> schedule_run: try_lock_owned; Ok -> run(): spawn the
                   task; Err -> want_update = Some(why)
     OnDone        Actor: direct_addr_done_rx.recv() -> try_run: try_lock_owned; Ok and
                   want_update.take() is Some -> run(); otherwise nothing
     Probe         task: net_reporter.get_report(..) finished, sock.net_report.set(report)
     the end of the task, as written (UnlockFirst = FALSE):
       SendDoneA   run_done.send(()).await
       UnlockA     the future ends, the guard is dropped              <- done BEFORE unlock
     the end of the task as C25 requires it (UnlockFirst = TRUE):
       UnlockF     drop(net_reporter)
       SendDoneF   run_done.send(()).await
   Growth beyond C25 (WithMap = TRUE; spec only, no hook events yet):
     RemoveRelay / InsertRelay   Socket::remove_relay / insert_relay: the relay map changes and the Actor
                   schedules a run (handle_relay_map_change -> re_stun(RelayMapChange))
     a run started while the relay map is empty, or after Close, returns from
     DirectAddrUpdateState::run before spawning a task: the guard is dropped at once, no done
     signal is sent (SkipRun below); Close = the shutdown token is cancelled (a probe in flight
     ends early, the task still sends its done signal).
   A second deviation switch, ClearOnHeld = TRUE: try_run *clears* want_update when it finds the
   lock held ("the done signal is stale, the newer run covers the queued request").  It is wrong:
   run N's done signal may still be pending in the channel (doneq > 0) when a later request
   starts run N+1 directly and a further request is queued behind N+1; handling N's stale signal
   then wipes that request, N+1 finishes and nothing starts -- named deviation
   "C25_stale_done_clears_want"; refuted through the ghost `owed` (OwedIsQueued, NoLostRequest,
   OwedLeadsToRun).
   The pinned code's order lets the Actor react to the done signal while the lock is still
   held: try_run misses, and a queued update stays queued with nothing left to trigger it --
   named deviation "C25_done_before_unlock".

   `hist` is the word of steps (generator); harness/src/bin/vh_netrep.rs (c25) drives a real
   Endpoint along each word using pause points, and Trace_DirectAddrUpdate.tla validates what
   really happened. *)
EXTENDS Naturals, Sequences, TLC, Json
CONSTANTS MaxReq,       \* bound on update requests
          WithMap,      \* include relay-map changes and shutdown (growth)
          ClearOnHeld,  \* TRUE: try_run clears want_update on a held lock (wrong); FALSE: leaves it alone
          EmitAllUpTo,  \* generator: print every complete word with at most this many requests, and of the
                        \* longer ones only those in which a stale done signal met a queued update
          UnlockFirst,  \* TRUE: guard dropped before the done signal (required); FALSE: code as written
          KeepHist
VARIABLES lock, want, task, doneq, tail, nreq, runs,
          active,       \* ghost: runs that started and have not released the lock
          mapEmpty,     \* the relay map is empty
          closing,      \* the shutdown token is cancelled
          skipped,      \* ghost: runs that returned before spawning a task
          owed,         \* ghost: an update was requested during a run and no run has started since
          stale,        \* ghost: a done signal was handled while a newer run held the lock and an update was queued
          hist
vars == <<lock, want, task, doneq, tail, nreq, runs, active, mapEmpty, closing, skipped, owed, stale, hist>>
env == <<mapEmpty, closing>>

Log(op) == hist' = IF KeepHist THEN Append(hist, op) ELSE hist

Init == /\ lock = "free" /\ want = FALSE /\ task = "none" /\ doneq = 0 /\ tail = 0
        /\ nreq = 0 /\ runs = 0 /\ active = 0 /\ hist = <<>>
        /\ mapEmpty = FALSE /\ closing = FALSE /\ skipped = 0 /\ owed = FALSE /\ stale = FALSE

\* DirectAddrUpdateState::run with the guard just obtained
\* (with an empty relay map or while shutting down it returns before spawning: guard dropped at once)
StartRunIn(empty) ==
  /\ owed' = FALSE          \* whatever was requested before is covered by this run (or by its early return)
  /\ IF empty \/ closing
       THEN skipped' = skipped + 1 /\ UNCHANGED <<lock, task, runs, active>>
       ELSE lock' = "held" /\ task' = "probing" /\ runs' = runs + 1 /\ active' = active + 1 /\ UNCHANGED skipped
StartRun == StartRunIn(mapEmpty)
NoRun == UNCHANGED <<lock, task, runs, active, skipped>>

ScheduleRun == /\ nreq < MaxReq /\ nreq' = nreq + 1
               /\ IF lock = "free" THEN StartRun /\ UNCHANGED want
                                   ELSE want' = TRUE /\ owed' = TRUE /\ NoRun
               /\ UNCHANGED <<doneq, tail, env, stale>> /\ Log("req")

\* Socket::remove_relay / insert_relay followed by the Actor's handle_relay_map_change
MapChange(empty) ==
  /\ WithMap /\ nreq < MaxReq /\ nreq' = nreq + 1 /\ mapEmpty' = empty
  /\ IF lock = "free" THEN StartRunIn(empty) /\ UNCHANGED want
                      ELSE want' = TRUE /\ owed' = TRUE /\ NoRun
  /\ UNCHANGED <<doneq, tail, closing, stale>> /\ Log(IF empty THEN "remove_relay" ELSE "insert_relay")
RemoveRelay == MapChange(TRUE)
InsertRelay == MapChange(FALSE)
\* the socket starts closing: shutdown token cancelled
Close == /\ WithMap /\ ~closing /\ closing' = TRUE
         /\ UNCHANGED <<lock, want, task, doneq, tail, nreq, runs, active, mapEmpty, skipped, owed, stale>> /\ Log("close")

OnDone == /\ doneq > 0 /\ doneq' = doneq - 1
          /\ IF lock = "free" /\ want THEN StartRun /\ want' = FALSE
             ELSE /\ want' = IF lock = "held" /\ ClearOnHeld THEN FALSE ELSE want
                  /\ NoRun /\ UNCHANGED owed
          /\ stale' = (stale \/ (lock = "held" /\ want))
          /\ UNCHANGED <<tail, nreq, env>> /\ Log("on_done")

Probe == /\ task = "probing" /\ task' = "stored"
         /\ UNCHANGED <<lock, want, doneq, tail, nreq, runs, active, env, skipped, owed, stale>> /\ Log("probe")

SendDoneA == /\ task = "stored" /\ task' = "signalled" /\ doneq' = doneq + 1
             /\ UNCHANGED <<lock, want, tail, nreq, runs, active, env, skipped, owed, stale>> /\ Log("send_done")
UnlockA   == /\ task = "signalled" /\ task' = "none" /\ lock' = "free" /\ active' = active - 1
             /\ UNCHANGED <<want, doneq, tail, nreq, runs, env, skipped, owed, stale>> /\ Log("unlock")

UnlockF   == /\ task = "stored" /\ task' = "none" /\ lock' = "free" /\ active' = active - 1 /\ tail' = tail + 1
             /\ UNCHANGED <<want, doneq, nreq, runs, env, skipped, owed, stale>> /\ Log("unlock")
SendDoneF == /\ tail > 0 /\ tail' = tail - 1 /\ doneq' = doneq + 1
             /\ UNCHANGED <<lock, want, task, nreq, runs, active, env, skipped, owed, stale>> /\ Log("send_done")

NextCode  == ScheduleRun \/ OnDone \/ Probe \/ SendDoneA \/ UnlockA
NextFixed == ScheduleRun \/ OnDone \/ Probe \/ UnlockF \/ SendDoneF
FairCode  == WF_vars(OnDone) /\ WF_vars(Probe) /\ WF_vars(SendDoneA) /\ WF_vars(UnlockA)
FairFixed == WF_vars(OnDone) /\ WF_vars(Probe) /\ WF_vars(SendDoneF) /\ WF_vars(UnlockF)
SpecCode  == Init /\ [][NextCode]_vars /\ FairCode        \* use with UnlockFirst = FALSE
SpecFixed == Init /\ [][NextFixed]_vars /\ FairFixed      \* use with UnlockFirst = TRUE
\* growth: relay-map changes and shutdown on top of the required design
NextFixedMap == NextFixed \/ RemoveRelay \/ InsertRelay \/ Close
SpecFixedMap == Init /\ [][NextFixedMap]_vars /\ FairFixed

---------------------------------------------------------------------------
(* C25 *)
\* at most one network report runs at a time
AtMostOneRun == active <= 1 /\ (task # "none" => lock = "held") /\ (lock = "held" <=> active = 1)
\* an update requested while a run is in flight is not silently dropped: there is no state in
\* which an update is wanted but nothing is running and nothing is left that would start it
Quiescent == lock = "free" /\ doneq = 0 /\ task = "none" /\ tail = 0
NoStuckWant == ~(want /\ Quiescent)
\* ... and it is started as soon as the run in flight has finished (under weak fairness of the
\* task and of the Actor's reaction to the done signal, without further requests)
WantLeadsToRun == want ~> ~want
\* the same, stated on the requests rather than on the code's want_update: a request made during a
\* run stays queued until a run starts (refuted for ClearOnHeld = TRUE) ...
OwedIsQueued == owed => want
\* ... is never left over when nothing is in flight any more ...
NoLostRequest == ~(owed /\ Quiescent)
\* ... and leads to a run
OwedLeadsToRun == owed ~> ~owed
TypeOK == /\ lock \in {"free", "held"} /\ want \in BOOLEAN /\ doneq \in Nat /\ tail \in Nat
          /\ task \in {"none", "probing", "stored", "signalled"}
          /\ mapEmpty \in BOOLEAN /\ closing \in BOOLEAN /\ skipped \in Nat /\ owed \in BOOLEAN /\ stale \in BOOLEAN
\* a run that returns before spawning never leaves the lock held or a signal pending
SkipLeavesNothing == [][skipped' # skipped => (lock' = lock /\ doneq' <= doneq /\ task' = task)]_vars

\* word generator: complete words (nothing in flight any more)
Emit == (KeepHist /\ hist # <<>> /\ Quiescent /\ (nreq <= EmitAllUpTo \/ stale)) =>
          PrintT(<<"REPLAY", ToJson([word |-> hist, runs |-> runs, want |-> want])>>)
=============================================================================
