\* anti-vacuity: an ascending prefix sort is refuted
SPECIFICATION Spec
INVARIANT RouteAllowed
CHECK_DEADLOCK FALSE
CONSTANTS
  NBits = 4
  Descending = FALSE
  NRelay = 1
