\* strict: one word, HomeIsChosen is a TLC invariant
SPECIFICATION TSpec
INVARIANT HomeIsChosen
POSTCONDITION Accepted
CHECK_DEADLOCK FALSE
CONSTANTS
  Urls = {"a", "b", "c"}
  NoUrl = "none"
  PromotedSetsUrl = FALSE
  StartHome = "none"
  StartOthers = {}
  LateOnly = FALSE
  MaxChanges = 100000
  MaxSteps = 100000
  KeepHist = FALSE
