\* growth: the required design with relay-map changes (empty map: runs return early) and shutdown
SPECIFICATION SpecFixedMap
INVARIANT TypeOK AtMostOneRun NoStuckWant OwedIsQueued NoLostRequest
PROPERTY WantLeadsToRun OwedLeadsToRun SkipLeavesNothing
CHECK_DEADLOCK FALSE
CONSTANTS
  UnlockFirst = TRUE
  WithMap = TRUE
  ClearOnHeld = FALSE
  EmitAllUpTo = 100
  KeepHist = FALSE
