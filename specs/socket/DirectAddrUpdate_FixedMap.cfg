\* growth: the required design with relay-map changes (empty map: runs return early) and shutdown
SPECIFICATION SpecFixedMap
INVARIANT TypeOK AtMostOneRun NoStuckWant
PROPERTY WantLeadsToRun SkipLeavesNothing
CHECK_DEADLOCK FALSE
CONSTANTS
  UnlockFirst = TRUE
  WithMap = TRUE
  KeepHist = FALSE
