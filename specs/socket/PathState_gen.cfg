SPECIFICATION Spec
INVARIANT NoWaitingWhileKnown PendingConsistent WaitingHasLookup SelectedHasPath Emit
CHECK_DEADLOCK FALSE
