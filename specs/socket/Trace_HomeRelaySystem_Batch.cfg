\* batch: many words separated by reset events; violations are printed per word
SPECIFICATION TSpec
INVARIANT ReportViolations
POSTCONDITION Accepted
CHECK_DEADLOCK FALSE
CONSTANTS
  Urls = {"a", "b", "c"}
  NoUrl = "none"
  PromotedSetsUrl = FALSE
  StartHome = "none"
  StartOthers = {}
  LateOnly = FALSE
  MaxChanges = 100000
  MaxSteps = 100000
  KeepHist = FALSE
