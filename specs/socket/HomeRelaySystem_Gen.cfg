\* word generator: a (home) and b connected; home relay changes and SetHomeRelay deliveries in every order
SPECIFICATION SpecMsgs
INVARIANT HomeIsChosen Emit
CHECK_DEADLOCK FALSE
CONSTANTS
  Urls = {"a", "b", "c"}
  NoUrl = "none"
  PromotedSetsUrl = FALSE
  StartHome = "a"
  StartOthers = {"b"}
  MaxSteps = 0
  LateOnly = TRUE
  KeepHist = TRUE
