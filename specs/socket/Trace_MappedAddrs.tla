------------------------ MODULE Trace_MappedAddrs ------------------------
(* Trace validation for C18 (mode B): the harness (vh_socktx c18) hammers the real AddrMaps
   from several threads and logs, with a global sequence number, one `call` record when a
   thread is about to call get/lookup and one `ret` record after the call returned.  The
   critical section of a call lies somewhere between its two records; it is replayed by the
   design actions Acquire .. Release of MappedAddrs as hidden steps (they do not consume a
   record), so TLC searches for a linearization.  The generated address is bound to the value
   the real call returned (`hint`).  Several traces are concatenated, separated by `reset`.

   Record fields: ev ("call" | "ret" | "reset"), t, name ("get" | "lookup"), kind, key, host,
   rhost, rkey  (call: rhost = the address the get will return; ret: the returned values).

   Acceptance: register 7 holds the number of records consumed on the longest explained
   prefix; once the whole trace is explained no further step is enabled. *)
EXTENDS MappedAddrs, IOUtils, TLCExt
Rec == ndJsonDeserialize(IOEnv.TRACE)
NotReset == {i \in 1..Len(Rec) : Rec[i].ev # "reset"}
TraceThreads == {Rec[i].t : i \in NotReset}
TraceKinds == {Rec[i].kind : i \in NotReset}
TraceKeys == {Rec[i].key : i \in NotReset} \ {NoKey}
TraceHosts == ({Rec[i].host : i \in NotReset} \cup {Rec[i].rhost : i \in NotReset}) \ {NoHost}

VARIABLES l, hint
tvars == <<vars, l, hint>>
Max(a, b) == IF a > b THEN a ELSE b
Live == TLCGet(7) < Len(Rec)                 \* stop exploring once some path explained everything
TInit == Init /\ l = 1 /\ hint = [t \in Threads |-> NoHost] /\ TLCSet(7, 0)
IsEvent(e) == Live /\ l <= Len(Rec) /\ Rec[l].ev = e /\ l' = l + 1
\* last conjunct of every visible action: record l was explained
Consumed == TLCSet(7, Max(TLCGet(7), l))
Hidden == Live /\ UNCHANGED <<l, hint>>

TCallGet    == IsEvent("call") /\ Rec[l].name = "get" /\ CallGet(Rec[l].t, Rec[l].kind, Rec[l].key)
               /\ hint' = [hint EXCEPT ![Rec[l].t] = Rec[l].rhost] /\ Consumed
TCallLookup == IsEvent("call") /\ Rec[l].name = "lookup" /\ CallLookup(Rec[l].t, Rec[l].kind, Rec[l].host)
               /\ UNCHANGED hint /\ Consumed
TReturn     == IsEvent("ret") /\ Return(Rec[l].t) /\ ret[Rec[l].t].host = Rec[l].rhost /\ ret[Rec[l].t].key = Rec[l].rkey
               /\ (Rec[l].name = "get" => Rec[l].cls = KindOfMap(Rec[l].kind))   \* recognised as its own kind
               /\ UNCHANGED hint /\ Consumed
TReset      == /\ IsEvent("reset") /\ \A t \in Threads : pc[t] = "idle"
               /\ fwd' = [k \in Kinds |-> [key \in Keys |-> NoHost]]
               /\ rev' = [k \in Kinds |-> [h \in Hosts |-> NoKey]]
               /\ rets' = {} /\ ncalls' = [t \in Threads |-> 0]
               /\ UNCHANGED <<lock, pc, op, cand, ret, hint>> /\ Consumed
HAcquire     == Hidden /\ \E t \in Threads : Acquire(t)
HGetLookup   == Hidden /\ \E t \in Threads : GetLookup(t)
HGetGenerate == Hidden /\ \E t \in Threads : hint[t] # NoHost /\ GetGenerate(t, hint[t]) /\ pc'[t] = "insfwd"
HInsertFwd   == Hidden /\ \E t \in Threads : GetInsertFwd(t)
HInsertRev   == Hidden /\ \E t \in Threads : GetInsertRev(t)
HLookupRev   == Hidden /\ \E t \in Threads : LookupRev(t)
HRelease     == Hidden /\ \E t \in Threads : Release(t)

TNext == TCallGet \/ TCallLookup \/ TReturn \/ TReset
         \/ HAcquire \/ HGetLookup \/ HGetGenerate \/ HInsertFwd \/ HInsertRev \/ HLookupRev \/ HRelease
TSpec == TInit /\ [][TNext]_tvars

Accepted == LET m == TLCGet(7) IN
            IF m >= Len(Rec) THEN TRUE
            ELSE Print(<<"TRACE-REJECTED at event", m + 1, Rec[m + 1]>>, FALSE)
=============================================================================
