------------------------- MODULE Trace_HomeRelay -------------------------
(* Trace validation for C26: the events recorded on a real HomeRelayWatch
   (hooks c26.* in iroh/src/socket/transports/relay/actor.rs; every event carries the value
   of the watchable right after the step) must be a behaviour of HomeRelay's get-then-set
   structure, the advertised value must equal the model's after every event, and the C26
   invariants are evaluated on the reconstructed states.

   Event                              action
     reset                            back to Init (a new word on a fresh HomeRelayWatch)
     set(url)                         SetHome(url)
     clear                            ClearHome
     read(url, want)                  Read(url, want)      (the comparison in set_status succeeded)
                                      TBadRead             (... although another URL is advertised: deviation)
     write(url)                       Write(url)
     done(url, want, kind = "skip")   Skip(url, want)      (set_status returned without writing)
     done(url, kind = "write")        --                   (set_status returned after its write)
     final                            --                   (value seen by a fresh watcher at the end) *)
EXTENDS HomeRelay, IOUtils, TLCExt
Rec == ndJsonDeserialize(IOEnv.TRACE)
VARIABLES l, word
tvars == <<vars, l, word>>
TInit == Init /\ l = 1 /\ word = 0
IsEvent(e) == l <= Len(Rec) /\ Rec[l].ev = e /\ l' = l + 1
Same == UNCHANGED vars

TReset     == IsEvent("reset") /\ word' = word + 1
              /\ home' = None /\ chosen' = NoUrl /\ src' = "relay_actor" /\ nchanges' = 0
              /\ pc' = [u \in Urls |-> "idle"] /\ want' = [u \in Urls |-> "Connecting"]
              /\ ncalls' = [u \in Urls |-> 0] /\ hist' = <<>>
TSetHome   == IsEvent("set") /\ SetHome(Rec[l].url) /\ UNCHANGED word
TClear     == IsEvent("clear") /\ ClearHome /\ UNCHANGED word
TRead      == IsEvent("read") /\ Read(Rec[l].url, Rec[l].want) /\ UNCHANGED word
\* deviation: the comparison of set_status succeeded although another URL is advertised;
\* explained so that the invariants judge the write that follows
TBadRead   == IsEvent("read") /\ ~Atomic /\ HomeUrl # Rec[l].url /\ pc[Rec[l].url] = "idle"
              /\ pc' = [pc EXCEPT ![Rec[l].url] = "read"] /\ want' = [want EXCEPT ![Rec[l].url] = Rec[l].want]
              /\ ncalls' = [ncalls EXCEPT ![Rec[l].url] = @ + 1]
              /\ UNCHANGED <<home, chosen, src, nchanges, hist, word>>
TWrite     == IsEvent("write") /\ Write(Rec[l].url) /\ UNCHANGED word
TDoneSkip  == IsEvent("done") /\ Rec[l].kind = "skip" /\ Skip(Rec[l].url, Rec[l].want) /\ UNCHANGED word
TDoneWrite == IsEvent("done") /\ Rec[l].kind = "write" /\ pc[Rec[l].url] = "idle" /\ Same /\ UNCHANGED word
TFinal     == IsEvent("final") /\ Quiescent /\ Same /\ UNCHANGED word
\* every event but reset carries the advertised value after the step
Obs == Rec[l].ev # "reset" => (home'.url = Rec[l].home /\ home'.state = Rec[l].state)
TNext == (TReset \/ TSetHome \/ TClear \/ TRead \/ TBadRead \/ TWrite \/ TDoneSkip \/ TDoneWrite \/ TFinal) /\ Obs
TSpec == TInit /\ [][TNext]_tvars

\* batch mode: report every state on which a C26 invariant is false, and go on
ReportViolations ==
  /\ (~HomeIsChosen)    => PrintT(<<"C26-VIOLATED", "HomeIsChosen", word, l - 1>>)
  /\ (~WrittenByChosen) => PrintT(<<"C26-VIOLATED", "WrittenByChosen", word, l - 1>>)

Accepted == LET d == TLCGet("stats").diameter - 1 IN
            IF d = Len(Rec) THEN TRUE
            ELSE Print(<<"TRACE-REJECTED at event", d + 1, IF d + 1 <= Len(Rec) THEN Rec[d+1] ELSE "eof">>, FALSE)
=============================================================================
