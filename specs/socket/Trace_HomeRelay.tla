------------------------- MODULE Trace_HomeRelay -------------------------
EXTENDS HomeRelay, Json, IOUtils, TLCExt
Rec == ndJsonDeserialize(IOEnv.TRACE)
VARIABLE l
tvars == <<vars, l>>
TInit == Init /\ l = 1
IsEvent(e) == l <= Len(Rec) /\ Rec[l].ev = e /\ l' = l + 1
U(x) == IF x = "none" THEN NoUrl ELSE x
TSetHome   == IsEvent("set_home") /\ SetHome(Rec[l].url)
TClear     == IsEvent("clear") /\ ClearHome
TRead      == IsEvent("read") /\ Read(Rec[l].url, Rec[l].state) /\ seen'[Rec[l].url] = U(Rec[l].seen)
TWrite     == IsEvent("write") /\ Write(Rec[l].url)
TAtomic    == IsEvent("set_status") /\ SetStatusAtomic(Rec[l].url, Rec[l].state)
\* every event logs the value of the watchable after the step
Obs == l' - 1 <= Len(Rec) => home'.url = U(Rec[l].home)
TNext == (TSetHome \/ TClear \/ TRead \/ TWrite \/ TAtomic) /\ Obs
TSpec == TInit /\ [][TNext]_tvars
Accepted == LET d == TLCGet("stats").diameter - 1 IN
            IF d = Len(Rec) THEN TRUE
            ELSE Print(<<"TRACE-REJECTED at event", d + 1, IF d + 1 <= Len(Rec) THEN Rec[d+1] ELSE "eof">>, FALSE)
=============================================================================
