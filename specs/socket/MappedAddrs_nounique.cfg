\* anti-vacuity: without the generate-until-unique loop two keys can share one address
SPECIFICATION Spec
INVARIANT ReturnedInjective
CHECK_DEADLOCK FALSE
CONSTANTS
  NoHost = "none"
  NoKey = "nokey"
  NoThread = "nobody"
  Threads = {"t1", "t2"}
  Kinds = {"relay"}
  Keys = {"k1", "k2"}
  Hosts = {"h1", "h2", "h3"}
  MaxCalls = 2
  Locked = TRUE
  SplitGet = FALSE
  Unique = FALSE
