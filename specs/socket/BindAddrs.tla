----------------------------- MODULE BindAddrs -----------------------------
(* C20 — Endpoint builder accepts bind addresses independent of order.

   Models `iroh::endpoint::Builder::bind_addr_with_opts` (iroh/src/endpoint.rs) together
   with `BindOpts::is_default_route` (iroh/src/endpoint/bind.rs) and the part of
   `Builder.transports` the call reads and writes.

   A bind request is [fam, pfx, def]:
     fam  "v4" | "v6"                       family of the socket address
     pfx  "zero" | "mid" | "max" | "over"   prefix length class: 0, 0 < p < max, max
                                            (32 / 128), max + 1 (invalid for the family)
     def  "unset" | "true" | "false"        BindOpts::set_is_default_route not called / called

   State mirrors the builder:
     transports   the user-defined IP transport configs pushed so far, as [fam, isDefault]
                  (the two pre-configured wildcard sockets are `is_user_defined = false`,
                  `is_default = false`; the duplicate test ignores them, so they are omitted)
     status       "ok" while the builder value is alive; after a call returned Err the
                  builder is consumed and `status` is the error ("dup" = DuplicateDefaultAddr,
                  "prefix" = InvalidPrefixLength); no further call is possible.
     reqs, res    history: the requests issued and the result of each call.

   One action per public call:
     BindAddr(r)  bind_addr_with_opts(addr, opts):
                    1. duplicate-default test over `transports` of the same family
                    2. Ipv4Net::new / Ipv6Net::new prefix validation
                    3. push the config
                  `bind_addr(addr)` is BindAddr([fam, "zero", "unset"]).

   Fixed = TRUE   the design the property requires: the duplicate test also looks at whether
                  the NEW entry is a default route.
   Fixed = FALSE  the code as written at the pinned commit: the call is rejected as soon as
                  ANY earlier user-defined entry of the family is a default route, whatever
                  the new entry is  ==> [default, non-default] rejected, [non-default, default]
                  accepted.  TLC refutes OrderIndependent / AcceptIffValid for this variant.

   The behaviours (terminal states) are printed as REPLAY lines and executed call by call
   on the real Builder by harness/src/bin/vh_socktx.rs (c20). *)
EXTENDS Naturals, Sequences, FiniteSets, TLC, Json
CONSTANTS Families, PrefixClasses, DefaultFlags, MaxLen, Fixed
VARIABLES transports, status, reqs, res
vars == <<transports, status, reqs, res>>

Requests == [fam : Families, pfx : PrefixClasses, def : DefaultFlags]

\* BindOpts::is_default_route
EffDefault(r) == IF r.def = "unset" THEN r.pfx = "zero" ELSE r.def = "true"
PrefixOk(r) == r.pfx # "over"

\* the duplicate-default test of one call, given the configs already pushed
HasUserDefault(ts, f) == \E i \in 1..Len(ts) : ts[i].fam = f /\ ts[i].isDefault
DupTest(ts, r) == IF Fixed THEN EffDefault(r) /\ HasUserDefault(ts, r.fam)
                           ELSE HasUserDefault(ts, r.fam)

\* result of one call
CallResult(ts, r) == IF DupTest(ts, r) THEN "dup" ELSE IF ~PrefixOk(r) THEN "prefix" ELSE "ok"

Init == transports = <<>> /\ status = "ok" /\ reqs = <<>> /\ res = <<>>

BindAddr(r) ==
  /\ status = "ok" /\ Len(reqs) < MaxLen
  /\ LET c == CallResult(transports, r) IN
       /\ status' = c
       /\ res' = Append(res, c)
       /\ transports' = IF c = "ok" THEN Append(transports, [fam |-> r.fam, isDefault |-> EffDefault(r)])
                                    ELSE transports
  /\ reqs' = Append(reqs, r)

Next == \E r \in Requests : BindAddr(r)
Spec == Init /\ [][Next]_vars

---------------------------------------------------------------------------
(* The builder as a function of the whole request sequence (what a caller observes from a
   chain of `?`-ed calls): TRUE iff every call returns Ok. *)
RECURSIVE Run(_, _)
Run(ts, s) == IF s = <<>> THEN TRUE
              ELSE LET c == CallResult(ts, Head(s)) IN
                   IF c # "ok" THEN FALSE
                   ELSE Run(Append(ts, [fam |-> Head(s).fam, isDefault |-> EffDefault(Head(s))]), Tail(s))
Accepts(s) == Run(<<>>, s)

Permute(s, p) == [i \in 1..Len(s) |-> s[p[i]]]
Perms(n) == Permutations(1..n)      \* TLC module: all bijections of 1..n

\* what the statement allows to be rejected: a set (multiset) property, no order in it
NDefaults(s, f) == Cardinality({i \in 1..Len(s) : s[i].fam = f /\ EffDefault(s[i])})
Valid(s) == /\ \A i \in 1..Len(s) : PrefixOk(s[i])
            /\ \A f \in Families : NDefaults(s, f) <= 1

(* C20 *)
\* the action system and the function agree (ties `status` to Accepts)
StatusIsAccepts == (status = "ok") = Accepts(reqs)
\* acceptance does not depend on the order of the calls
OrderIndependent == \A p \in Perms(Len(reqs)) : Accepts(Permute(reqs, p)) = Accepts(reqs)
\* rejected exactly when > 1 default route per family or an invalid prefix length
AcceptIffValid == Accepts(reqs) = Valid(reqs)
\* a rejected call leaves no trace in the builder; an accepted one adds exactly one config
OnePerAccepted == Len(transports) = Cardinality({i \in 1..Len(res) : res[i] = "ok"})

\* behaviour generator: one REPLAY line per maximal behaviour
Terminal == status # "ok" \/ Len(reqs) = MaxLen
Emit == Terminal => PrintT(<<"REPLAY", ToJson([reqs |-> reqs, res |-> res, valid |-> Valid(reqs)])>>)
=============================================================================
