---------------------- MODULE Trace_DirectAddrUpdate ----------------------
(* Trace validation for C25: the events recorded on a real Endpoint
   (hooks c25.* in iroh/src/socket.rs, plus `unlocked`/`quiescent` observed by the harness
   through the strong count of the net reporter lock) must be a behaviour of
   DirectAddrUpdate -- with either order of the task's last two steps, so that the pinned
   code and a repaired one are both explainable -- and the C25 invariants are evaluated on
   the reconstructed states.

   Event                       action
     reset                     back to Init (a new word on the cleaned-up endpoint)
     schedule(lock)            ScheduleRun, the code's try_lock result must equal the model's lock
     run_start(n)              -- (part of ScheduleRun / OnDone), checks runs = n
     report_done               Probe
     done_sent                 SendDoneA or SendDoneF
     unlocked                  UnlockA or UnlockF
     try_run(lock, want)       OnDone, the code's view of lock and want_update must equal the model's
     run_finish                -- (the task is about to end)
     quiescent(lock, runs)     nothing happened for the settle time; lock and number of runs as observed *)
EXTENDS DirectAddrUpdate, IOUtils, TLCExt
Rec == ndJsonDeserialize(IOEnv.TRACE)
VARIABLES l, word,
          lost      \* ghost: the code reported an empty want_update although a requested update was never started
tvars == <<vars, l, word, lost>>
TInit == Init /\ l = 1 /\ word = 0 /\ lost = FALSE
IsEvent(e) == l <= Len(Rec) /\ Rec[l].ev = e /\ l' = l + 1
Same == UNCHANGED vars

TReset     == IsEvent("reset") /\ word' = word + 1 /\ lost' = FALSE
              /\ lock' = "free" /\ want' = FALSE /\ task' = "none" /\ doneq' = 0 /\ tail' = 0
              /\ nreq' = 0 /\ runs' = 0 /\ active' = 0 /\ hist' = <<>>
              /\ mapEmpty' = FALSE /\ closing' = FALSE /\ skipped' = 0 /\ owed' = FALSE /\ stale' = FALSE
TSchedule  == IsEvent("schedule") /\ Rec[l].lock = lock /\ ScheduleRun /\ UNCHANGED <<word, lost>>
TRunStart  == IsEvent("run_start") /\ task = "probing" /\ Rec[l].n = runs /\ Same /\ UNCHANGED <<word, lost>>
TReport    == IsEvent("report_done") /\ Probe /\ UNCHANGED <<word, lost>>
TDoneSent  == IsEvent("done_sent") /\ (SendDoneA \/ SendDoneF) /\ UNCHANGED <<word, lost>>
TUnlocked  == IsEvent("unlocked") /\ (UnlockA \/ UnlockF) /\ UNCHANGED <<word, lost>>
TTryRun    == IsEvent("try_run") /\ Rec[l].lock = lock /\ Rec[l].want = want /\ OnDone /\ UNCHANGED <<word, lost>>
\* deviation: try_run sees no queued update although one was requested and never started
TLostWant  == IsEvent("try_run") /\ Rec[l].lock = lock /\ Rec[l].want = FALSE /\ want = TRUE
              /\ doneq > 0 /\ doneq' = doneq - 1 /\ want' = FALSE /\ lost' = TRUE
              /\ UNCHANGED <<lock, task, tail, nreq, runs, active, mapEmpty, closing, skipped, owed, stale, hist, word>>
TRunFinish == IsEvent("run_finish") /\ Same /\ UNCHANGED <<word, lost>>
TQuiescent == IsEvent("quiescent") /\ Rec[l].lock = lock /\ Rec[l].runs = runs /\ doneq = 0 /\ Same /\ UNCHANGED <<word, lost>>

TNext == TReset \/ TSchedule \/ TRunStart \/ TReport \/ TDoneSent \/ TUnlocked \/ TTryRun \/ TLostWant \/ TRunFinish \/ TQuiescent
TSpec == TInit /\ [][TNext]_tvars

\* batch mode: report every state on which a C25 invariant is false, and go on
ReportViolations ==
  /\ (~NoStuckWant)  => PrintT(<<"C25-VIOLATED", "NoStuckWant", word, l - 1>>)
  /\ (~AtMostOneRun) => PrintT(<<"C25-VIOLATED", "AtMostOneRun", word, l - 1>>)
  /\ lost            => PrintT(<<"C25-VIOLATED", "NoLostWant", word, l - 1>>)
NoLostWant == ~lost

Accepted == LET d == TLCGet("stats").diameter - 1 IN
            IF d = Len(Rec) THEN TRUE
            ELSE Print(<<"TRACE-REJECTED at event", d + 1, IF d + 1 <= Len(Rec) THEN Rec[d+1] ELSE "eof">>, FALSE)
=============================================================================
