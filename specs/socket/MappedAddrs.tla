---------------------------- MODULE MappedAddrs ----------------------------
(* C18 — Mapped addresses form a stable bijection.

   Models `AddrMap<K, V>` (iroh/src/socket/mapped_addrs.rs) as used three times by
   `socket::remote_map::MappedAddrs` (endpoint ids, (relay url, endpoint id) pairs, custom
   addresses), called concurrently from the socket, the remote-state actors and the QUIC
   send path.  Each map is `Arc<Mutex<{addrs: K -> V, lookup: V -> K}>>`.

     fwd[kind][key]    AddrMapInner.addrs    (NoHost when absent)
     rev[kind][host]   AddrMapInner.lookup   (NoKey when absent)
     lock[kind]        the mutex: NoThread or the holder
     pc[t], op[t]      one in-flight call per thread: op = [name, kind, key, host]
     cand[t], ret[t]   the generated candidate / the value the call returns

   A synthetic address is (kind prefix, host); `host` stands for the 64 random bits of
   `V::generate()`.  `Hosts` is deliberately tiny in the model-checking configuration so that
   the generate-until-unique loop is exercised.

   Actions, one per step of the code (the steps between Acquire and Release are one critical
   section in the code; they are separate actions so that the what-if `Locked = FALSE` and the
   trace spec can reuse them):
     CallGet(t,kind,key) / CallLookup(t,kind,host)   the call starts
     Acquire(t)        inner.lock()
     GetLookup(t)      inner.addrs.get(key): hit -> return it; miss -> generate
     GetGenerate(t,h)  candidate = V::generate(); taken (in lookup) -> loop, else keep
     GetInsertFwd(t)   inner.addrs.insert(key, addr)
     GetInsertRev(t)   inner.lookup.insert(addr, key)
     LookupRev(t)      inner.lookup.get(addr).cloned()
     Release(t)        guard dropped
     Return(t)         the call returns `ret[t]`; the result is recorded in `rets` / checked

   Locked = TRUE is the code (and what the property needs); Locked = FALSE drops the mutex and
   is refuted by TLC (anti-vacuity).  Unique = FALSE drops the uniqueness loop (refuted too).
   SplitGet = TRUE is the read-then-write-lock variant of get(): the key is looked up in one
   critical section (shared lock) and, on a miss, the lock is released and re-acquired
   (exclusive) for generate + insert WITHOUT looking the key up again; two callers racing on
   one fresh key then get two addresses, the key's address changes after it was handed out and
   the stale address stays in the reverse map.  Refuted by TLC (ReturnedInjective, Stable).

   The second half (`Classify`) is `MultipathMappedAddr::from(SocketAddr)` as a decision table
   over abstract addresses; see the CLASSIFY section. *)
EXTENDS Naturals, Sequences, FiniteSets, TLC, Json
CONSTANTS Threads, Kinds, Keys, Hosts, NoHost, NoKey, NoThread,
          MaxCalls,       \* calls per thread (model checking bound)
          Locked, Unique,
          SplitGet        \* FALSE: the code; TRUE: what-if "miss check and insert in two critical sections"
VARIABLES fwd, rev, lock, pc, op, cand, ret, ncalls,
          rets            \* ghost: every <<kind, key, host>> some get() has returned
vars == <<fwd, rev, lock, pc, op, cand, ret, ncalls, rets>>

NoOp == [name |-> "none", kind |-> "none", key |-> NoKey, host |-> NoHost, known |-> FALSE]

Init == /\ fwd = [k \in Kinds |-> [key \in Keys |-> NoHost]]
        /\ rev = [k \in Kinds |-> [h \in Hosts |-> NoKey]]
        /\ lock = [k \in Kinds |-> NoThread]
        /\ pc = [t \in Threads |-> "idle"] /\ op = [t \in Threads |-> NoOp]
        /\ cand = [t \in Threads |-> NoHost] /\ ret = [t \in Threads |-> [host |-> NoHost, key |-> NoKey]]
        /\ ncalls = [t \in Threads |-> 0] /\ rets = {}

CallGet(t, kind, key) ==
  /\ pc[t] = "idle" /\ ncalls[t] < MaxCalls
  /\ op' = [op EXCEPT ![t] = [name |-> "get", kind |-> kind, key |-> key, host |-> NoHost, known |-> FALSE]]
  /\ pc' = [pc EXCEPT ![t] = "acquire"] /\ ncalls' = [ncalls EXCEPT ![t] = @ + 1]
  /\ UNCHANGED <<fwd, rev, lock, cand, ret, rets>>

\* `known`: some get() had already RETURNED this address when the lookup was called
CallLookup(t, kind, host) ==
  /\ pc[t] = "idle" /\ ncalls[t] < MaxCalls
  /\ op' = [op EXCEPT ![t] = [name |-> "lookup", kind |-> kind, key |-> NoKey, host |-> host,
                              known |-> \E r \in rets : r[1] = kind /\ r[3] = host]]
  /\ pc' = [pc EXCEPT ![t] = "acquire"] /\ ncalls' = [ncalls EXCEPT ![t] = @ + 1]
  /\ UNCHANGED <<fwd, rev, lock, cand, ret, rets>>

\* pc "acquire2" (SplitGet only): the exclusive lock of the second critical section, straight into
\* generate - `addrs` is not consulted again
Acquire(t) ==
  /\ pc[t] \in {"acquire", "acquire2"}
  /\ IF Locked THEN lock[op[t].kind] = NoThread /\ lock' = [lock EXCEPT ![op[t].kind] = t]
               ELSE UNCHANGED lock
  /\ pc' = [pc EXCEPT ![t] = IF pc[t] = "acquire2" THEN "generate"
                             ELSE IF op[t].name = "get" THEN "getlookup" ELSE "revlookup"]
  /\ UNCHANGED <<fwd, rev, op, cand, ret, ncalls, rets>>

GetLookup(t) ==
  /\ pc[t] = "getlookup"
  /\ LET h == fwd[op[t].kind][op[t].key] IN
       IF h # NoHost THEN /\ ret' = [ret EXCEPT ![t] = [host |-> h, key |-> NoKey]]
                          /\ pc' = [pc EXCEPT ![t] = "release"]
                     ELSE /\ pc' = [pc EXCEPT ![t] = IF SplitGet THEN "acquire2" ELSE "generate"] /\ UNCHANGED ret
  \* SplitGet: the miss ends the first (shared) critical section
  /\ lock' = IF SplitGet /\ Locked /\ fwd[op[t].kind][op[t].key] = NoHost THEN [lock EXCEPT ![op[t].kind] = NoThread] ELSE lock
  /\ UNCHANGED <<fwd, rev, op, cand, ncalls, rets>>

\* one iteration of `loop { candidate = V::generate(); if !lookup.contains_key(&candidate) { break } }`
GetGenerate(t, h) ==
  /\ pc[t] = "generate"
  /\ IF Unique /\ rev[op[t].kind][h] # NoKey
        THEN UNCHANGED <<cand, pc>>                       \* collision: loop again
        ELSE cand' = [cand EXCEPT ![t] = h] /\ pc' = [pc EXCEPT ![t] = "insfwd"]
  /\ UNCHANGED <<fwd, rev, lock, op, ret, ncalls, rets>>

GetInsertFwd(t) ==
  /\ pc[t] = "insfwd"
  /\ fwd' = [fwd EXCEPT ![op[t].kind][op[t].key] = cand[t]]
  /\ pc' = [pc EXCEPT ![t] = "insrev"]
  /\ UNCHANGED <<rev, lock, op, cand, ret, ncalls, rets>>

GetInsertRev(t) ==
  /\ pc[t] = "insrev"
  /\ rev' = [rev EXCEPT ![op[t].kind][cand[t]] = op[t].key]
  /\ ret' = [ret EXCEPT ![t] = [host |-> cand[t], key |-> NoKey]]
  /\ pc' = [pc EXCEPT ![t] = "release"]
  /\ UNCHANGED <<fwd, lock, op, cand, ncalls, rets>>

LookupRev(t) ==
  /\ pc[t] = "revlookup"
  /\ ret' = [ret EXCEPT ![t] = [host |-> NoHost, key |-> rev[op[t].kind][op[t].host]]]
  /\ pc' = [pc EXCEPT ![t] = "release"]
  /\ UNCHANGED <<fwd, rev, lock, op, cand, ncalls, rets>>

Release(t) ==
  /\ pc[t] = "release"
  /\ lock' = IF Locked THEN [lock EXCEPT ![op[t].kind] = NoThread] ELSE lock
  /\ pc' = [pc EXCEPT ![t] = "return"]
  /\ UNCHANGED <<fwd, rev, op, cand, ret, ncalls, rets>>

Return(t) ==
  /\ pc[t] = "return"
  /\ rets' = IF op[t].name = "get" THEN rets \cup {<<op[t].kind, op[t].key, ret[t].host>>} ELSE rets
  /\ pc' = [pc EXCEPT ![t] = "idle"]
  /\ UNCHANGED <<fwd, rev, lock, op, cand, ret, ncalls>>

Next == \/ \E t \in Threads, k \in Kinds, key \in Keys : CallGet(t, k, key)
        \/ \E t \in Threads, k \in Kinds, h \in Hosts : CallLookup(t, k, h)
        \/ \E t \in Threads : Acquire(t)
        \/ \E t \in Threads : GetLookup(t)
        \/ \E t \in Threads, h \in Hosts : GetGenerate(t, h)
        \/ \E t \in Threads : GetInsertFwd(t)
        \/ \E t \in Threads : GetInsertRev(t)
        \/ \E t \in Threads : LookupRev(t)
        \/ \E t \in Threads : Release(t)
        \/ \E t \in Threads : Return(t)
Spec == Init /\ [][Next]_vars

---------------------------------------------------------------------------
(* C18, concurrency half *)
\* whenever nobody is inside a map, addrs and lookup are mutually inverse
Bijection == \A k \in Kinds : lock[k] = NoThread /\ (\A t \in Threads : op[t].kind = k => pc[t] \in {"idle", "acquire", "acquire2", "return"}) =>
               /\ \A key \in Keys : fwd[k][key] # NoHost => rev[k][fwd[k][key]] = key
               /\ \A h \in Hosts : rev[k][h] # NoKey => fwd[k][rev[k][h]] = h
\* an entry is never overwritten (the synthetic address of a key never changes, is never re-assigned)
Stable == [][ \A k \in Kinds : /\ \A key \in Keys : fwd[k][key] # NoHost => fwd'[k][key] = fwd[k][key]
                               /\ \A h \in Hosts : rev[k][h] # NoKey => rev'[k][h] = rev[k][h] ]_vars
\* what callers saw: one address per key, one key per address
ReturnedInjective == \A r1, r2 \in rets : r1[1] = r2[1] => ((r1[2] = r2[2]) <=> (r1[3] = r2[3]))
ReturnedReal == \A r \in rets : r[3] # NoHost
\* translating back: a lookup answers with the key that owns the address, and finds every
\* address that a get() had already returned when the lookup started
LookupCorrect == \A t \in Threads : (pc[t] = "return" /\ op[t].name = "lookup") =>
                   /\ ret[t].key # NoKey => <<op[t].kind, ret[t].key, op[t].host>> \in
                                              {<<k, key, fwd[k][key]>> : k \in Kinds, key \in Keys}
                   /\ op[t].known => ret[t].key # NoKey
                   /\ \A r \in rets : (r[1] = op[t].kind /\ r[3] = op[t].host /\ ret[t].key # NoKey) => r[2] = ret[t].key

---------------------------------------------------------------------------
(* CLASSIFY — MultipathMappedAddr::from(SocketAddr) as a table over abstract addresses.
   An abstract address is [fam, dev, subnet]:
     fam     "v4" | "v6" | "v4mapped"  (::ffff:a.b.c.d is an IPv6 address for this function)
     dev     0: the first six bytes are fd 15 07 0a 51 0b (iroh's ULA prefix);
             i in 1..6: byte i deviates from it (by +1 or -1), all others match
     subnet  the 16-bit subnet id (bytes 6..7): 0, 1, 2, 3, 4, 256, 257, 259, 65535
   The synthetic ranges are: subnet 0 = per-endpoint ("mixed"), 1 = relay, 3 = custom. *)
SubnetIds == {0, 1, 2, 3, 4, 256, 257, 259, 65535}
AbstractAddrs == [fam : {"v4", "v6", "v4mapped"}, dev : 0..6, subnet : SubnetIds]
Classify(a) == IF a.fam # "v6" \/ a.dev # 0 THEN "ip"
               ELSE CASE a.subnet = 0 -> "mixed" [] a.subnet = 1 -> "relay" [] a.subnet = 3 -> "custom" [] OTHER -> "ip"
KindOfMap(k) == CASE k = "endpoint" -> "mixed" [] k = "relay" -> "relay" [] k = "custom" -> "custom"
SubnetOfMap(k) == CASE k = "endpoint" -> 0 [] k = "relay" -> 1 [] k = "custom" -> 3
\* every generated address is recognised as its own kind; nothing outside the reserved range is
ClassifyTotalAndExact ==
  /\ \A a \in AbstractAddrs : Classify(a) \in {"mixed", "relay", "custom", "ip"}
  /\ \A k \in {"endpoint", "relay", "custom"} : Classify([fam |-> "v6", dev |-> 0, subnet |-> SubnetOfMap(k)]) = KindOfMap(k)
  /\ \A a \in AbstractAddrs : Classify(a) # "ip" => (a.fam = "v6" /\ a.dev = 0 /\ a.subnet \in {0, 1, 3})
=============================================================================
