\* the pinned code: set_status is get-then-set; HomeIsChosen is refuted (checks/c26.py expects it)
SPECIFICATION SpecCode
INVARIANT TypeOK HomeIsChosen WrittenByChosen
PROPERTY DemotedNeverVisible
CHECK_DEADLOCK FALSE
CONSTANTS
  Urls = {"a", "b"}
  States = {"Connecting", "Connected", "Disconnected"}
  NoUrl = "none"
  Atomic = FALSE
  KeepHist = FALSE
