-------------------------- MODULE Trace_RemoteMap --------------------------
(* C21 trace validation: the event log of a real RemoteMap + RemoteStateActors, driven by
   harness/src/bin/vh_remote.rs (c21) under tokio's paused clock, must be a behaviour of
   RemoteMap.tla; every property invariant is evaluated on every reconstructed state.

   Events (one ndjson record each; `reset` separates independent runs)
     from the hooks in /repo (iroh_dns::verif::event at the linearization point)
       start(inst, r, n)      RemoteStateActor::start, n = number of initial messages
                              n = 0: get_or_insert_with started a fresh actor   -> SaStart
                              n > 0: remove_or_restart_actor restarted r        -> SaJoinOther / SaJoinOwn / Cleanup
       remove(r)              remove_or_restart_actor removed r's sender        -> SaJoinOther / Cleanup
       handle(inst, kind, tag) handle_message                                   -> Handle
       idle_break(inst)       idle timeout fired and is_idle() held             -> IdleDecide
       closed(inst, n)        after inbox.close() + recv_many, n leftover       -> Close
     from the harness
       sa_begin(r, m, kind, tag) / sa_end(m)   around RemoteMap::resolve_remote -> SaLookup / SaSend
       ts_lookup(r, m, found) / ts_send(m, res)  sender clone from the read-only map, try_send -> TsLookup / TsSend
       reply(m, res)          a oneshot reply became visible ("dropped": the sender was dropped unanswered)
       cancel                 the shutdown token was cancelled                  -> Cancel
       net_change             RemoteMap::on_network_change                      -> NetChange
       end                    the harness let everything finish (lookups ended, tasks joined)

   The hidden step LookupFinish (the actor handling the end of a lookup has no event) is taken
   together with the first reply it explains. *)
EXTENDS RemoteMap, Json, IOUtils, TLCExt

Rec == ndJsonDeserialize(IOEnv.TRACE)
VARIABLES l,        \* next record
          replied,  \* requests whose reply the harness saw
          lost,     \* requests whose reply channel was dropped unanswered
          ended
tvars == <<vars, l, replied, lost, ended>>

TInit == Init /\ l = 1 /\ replied = {} /\ lost = {} /\ ended = FALSE
IsEvent(e) == l <= Len(Rec) /\ Rec[l].ev = e /\ l' = l + 1
Same == UNCHANGED <<replied, lost, ended>>

TReset == /\ IsEvent("reset")
          /\ sender' = [r \in Remotes |-> 0] /\ inst' = [i \in 1..MaxInst |-> NoInst] /\ ninst' = 0
          /\ joinable' = {} /\ sapc' = SaIdle /\ tspc' = TsIdle
          /\ req' = [m \in 1..MaxReq |-> NoReq] /\ nreq' = 0
          /\ handled' = [r \in Remotes |-> <<>>] /\ accepted' = {} /\ answered' = {}
          /\ cancelled' = FALSE /\ dropped' = {}
          /\ replied' = {} /\ lost' = {} /\ ended' = FALSE

TSaBegin == /\ IsEvent("sa_begin") /\ SaLookup(Rec[l].r, Rec[l].kind, Rec[l].tag) /\ nreq' = Rec[l].m /\ Same
TStart == /\ IsEvent("start") /\ Rec[l].inst = ninst + 1 /\ Same
          /\ IF Rec[l].n = 0
                THEN sapc.r = Rec[l].r /\ SaStart
                ELSE \E i \in joinable :
                        /\ inst[i].r = Rec[l].r
                        /\ SaJoinOther(i) \/ SaJoinOwn(i) \/ Cleanup(i)
                        /\ sender'[Rec[l].r] = ninst + 1
                        /\ Len(inst'[ninst + 1].inbox) = Rec[l].n
TRemove == /\ IsEvent("remove") /\ Same
           /\ \E i \in joinable : inst[i].r = Rec[l].r /\ (SaJoinOther(i) \/ Cleanup(i)) /\ sender'[Rec[l].r] = 0
\* send_to_actor returned: either the message went into the open inbox now, or the restart already took it
TSaEnd == /\ IsEvent("sa_end") /\ Same
          /\ IF sapc.op = "send" THEN sapc.m = Rec[l].m /\ SaSend
             ELSE sapc.op = "idle" /\ Rec[l].m \in accepted /\ UNCHANGED vars
THandle == /\ IsEvent("handle") /\ Same
           /\ LET i == Rec[l].inst IN
                /\ i <= ninst /\ inst[i].inbox # <<>>
                /\ req[Head(inst[i].inbox)].kind = Rec[l].kind /\ req[Head(inst[i].inbox)].tag = Rec[l].tag
                /\ Handle(i)
\* The actor answers waiting requests when its lookup yields or ends; that step has no event of its own, so
\* it may have happened just before the idle decision (if the requests were in fact dropped, their replies
\* show up as "dropped" and NothingLost fails).
FinishThenIdle(i) ==
  /\ inst[i].phase = "running" /\ inst[i].inbox = <<>> /\ inst[i].waiting # {} /\ ~cancelled
  /\ answered' = answered \cup inst[i].waiting
  /\ inst' = [inst EXCEPT ![i].waiting = {}, ![i].phase = "deciding"]
  /\ UNCHANGED <<sender, ninst, joinable, sapc, tspc, req, nreq, handled, accepted, cancelled, dropped>>
TIdle == /\ IsEvent("idle_break") /\ Rec[l].inst <= ninst /\ Same
         /\ IdleDecide(Rec[l].inst) \/ FinishThenIdle(Rec[l].inst)
TClosed == /\ IsEvent("closed") /\ Rec[l].inst <= ninst /\ Len(inst[Rec[l].inst].inbox) = Rec[l].n /\ Same
           /\ IF inst[Rec[l].inst].phase = "deciding" THEN Close(Rec[l].inst) ELSE CloseOnShutdown(Rec[l].inst)
TCancel == IsEvent("cancel") /\ Cancel /\ Same
TNetChange == IsEvent("net_change") /\ NetChange /\ Same
TTsLookup == /\ IsEvent("ts_lookup") /\ Same
             /\ IF Rec[l].found = 1 THEN TsLookup(Rec[l].r, "info") /\ nreq' = Rec[l].m
                ELSE sender[Rec[l].r] = 0 /\ UNCHANGED vars
TTsSend == /\ IsEvent("ts_send") /\ tspc.m = Rec[l].m /\ TsSend /\ Same
           /\ (Rec[l].res = "ok") <=> (Rec[l].m \in accepted')
\* a reply: already explained by the model, or explained by the lookup finishing at the instance where it waits
TReply == /\ IsEvent("reply") /\ Rec[l].res # "dropped"
          /\ replied' = replied \cup {Rec[l].m} /\ UNCHANGED <<lost, ended>>
          /\ IF Rec[l].m \in answered THEN UNCHANGED vars
             ELSE \E i \in 1..MaxInst : Rec[l].m \in inst[i].waiting /\ LookupFinish(i)
TDropped == /\ IsEvent("reply") /\ Rec[l].res = "dropped"
            /\ lost' = lost \cup {Rec[l].m} /\ UNCHANGED <<vars, replied, ended>>
TEnd == IsEvent("end") /\ ended' = TRUE /\ UNCHANGED <<vars, replied, lost>>

TNext == TReset \/ TSaBegin \/ TStart \/ TRemove \/ TSaEnd \/ THandle \/ TIdle \/ TClosed
         \/ TTsLookup \/ TTsSend \/ TReply \/ TDropped \/ TEnd \/ TCancel \/ TNetChange
TSpec == TInit /\ [][TNext]_tvars

\* no reply channel is ever dropped unanswered, and when the run has finished every request made
\* through send_to_actor and every accepted try_send has been answered
\* (an endpoint shutdown may drop the reply channels of requests that were waiting for a lookup: `dropped`)
NothingLost == lost \subseteq dropped
AllAnsweredAtEnd == ended => \A m \in Made : m \in replied \/ m \in dropped

Accepted == LET d == TLCGet("stats").diameter - 1 IN
            IF d = Len(Rec) THEN TRUE
            ELSE Print(<<"TRACE-REJECTED at event", d + 1, IF d + 1 <= Len(Rec) THEN Rec[d + 1] ELSE "eof">>, FALSE)
=============================================================================
