\* strict: one word, the C25 invariants are TLC invariants
SPECIFICATION TSpec
INVARIANT AtMostOneRun NoStuckWant NoLostWant
POSTCONDITION Accepted
CHECK_DEADLOCK FALSE
CONSTANTS
  MaxReq = 1000
  UnlockFirst = FALSE
  WithMap = FALSE
  ClearOnHeld = FALSE
  EmitAllUpTo = 100
  KeepHist = FALSE
