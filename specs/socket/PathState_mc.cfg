SPECIFICATION FairSpec
INVARIANT NoWaitingWhileKnown PendingConsistent WaitingHasLookup SelectedHasPath
PROPERTY AnsweredOnce OkMeansKnown ErrOnlyAtLookupEnd Immediate NonEmptyStable EventuallyAnswered
CHECK_DEADLOCK FALSE
