SPECIFICATION TSpec
INVARIANT Bijection ReturnedInjective ReturnedReal LookupCorrect
POSTCONDITION Accepted
CHECK_DEADLOCK FALSE
CONSTANTS
  NoHost = "none"
  NoKey = "nokey"
  NoThread = "nobody"
  MaxCalls = 1000000
  Locked = TRUE
  SplitGet = FALSE
  Unique = TRUE
