SPECIFICATION Spec
INVARIANT C23
CHECK_DEADLOCK FALSE
CONSTANTS
  MAXP = 6
  MAXI = 2
  CodeRule = TRUE
