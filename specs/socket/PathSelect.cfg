SPECIFICATION Spec
INVARIANT RuleWithinProperty OnlyLivePaths EmptyKeeps PrimaryPreferred NeverStayOnBackup Sticky NoFlap Emit
CHECK_DEADLOCK FALSE
CONSTANTS
  NoStats = 2000000000
