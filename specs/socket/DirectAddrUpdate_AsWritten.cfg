\* the pinned code: done signal first, guard dropped at the end of the task; NoStuckWant is refuted
SPECIFICATION SpecCode
INVARIANT TypeOK AtMostOneRun NoStuckWant
CHECK_DEADLOCK FALSE
CONSTANTS
  UnlockFirst = FALSE
  WithMap = FALSE
  ClearOnHeld = FALSE
  EmitAllUpTo = 100
  KeepHist = FALSE
