\* exhaustive check of the three-map design (mutex held across lookup / generate / both inserts)
SPECIFICATION Spec
INVARIANT Bijection ReturnedInjective ReturnedReal LookupCorrect ClassifyTotalAndExact
PROPERTY Stable
CHECK_DEADLOCK FALSE
CONSTANTS
  NoHost = "none"
  NoKey = "nokey"
  NoThread = "nobody"
