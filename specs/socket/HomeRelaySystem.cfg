\* model checking from the empty system: the code's design holds
SPECIFICATION Spec
INVARIANT HomeIsChosen StatusFresh OneHomeBelief BeliefMatchesChoice
CHECK_DEADLOCK FALSE
CONSTANTS
  Urls = {"a", "b"}
  NoUrl = "none"
  PromotedSetsUrl = FALSE
  StartHome = "none"
  StartOthers = {}
  LateOnly = FALSE
  KeepHist = FALSE
