SPECIFICATION Spec
INVARIANT HomeIsChosen StatusFresh OneHomeBelief BeliefMatchesChoice
CHECK_DEADLOCK FALSE
CONSTANTS
  Urls = {"a", "b"}
  NoUrl = "none"
