INIT SInit
NEXT SNext
INVARIANT NoWaitingWhileKnown PendingConsistent SEmit
CHECK_DEADLOCK FALSE
