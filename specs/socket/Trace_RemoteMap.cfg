SPECIFICATION TSpec
INVARIANT AtMostOneLive SenderIsNewest InOrderOnce NeverDropped WaitingIsServed AnsweredWasHandled NothingDroppedWithoutShutdown NothingLost AllAnsweredAtEnd
POSTCONDITION Accepted
CHECK_DEADLOCK FALSE
CONSTANTS
  Remotes = {"r1", "r2"}
  Tags = {0, 1}
  MaxReq = 64
  MaxInst = 48
  InboxCap = 16
  RestartBeforeJoin = FALSE
  DropLeftover = FALSE
