\* batch: many words separated by reset events; violated invariants are printed per word
SPECIFICATION TSpec
INVARIANT ReportViolations
POSTCONDITION Accepted
CHECK_DEADLOCK FALSE
CONSTANTS
  Urls = {"a", "b"}
  States = {"Connecting", "Connected", "Disconnected"}
  NoUrl = "none"
  Atomic = FALSE
  MaxChanges = 100000
  MaxStatus = 100000
  KeepHist = FALSE
