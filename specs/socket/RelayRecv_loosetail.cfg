\* anti-vacuity: a remainder rule that merges "one full segment + shorter tail" is refuted
SPECIFICATION Spec
INVARIANT BoundariesKept
CHECK_DEADLOCK FALSE
CONSTANTS
  ExactTail = FALSE
  Fixed = TRUE
  ArriveDuringPoll = FALSE
  MayClose = FALSE
  Record = FALSE
  MaxSteps = 0
