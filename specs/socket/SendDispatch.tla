---------------------------- MODULE SendDispatch ----------------------------
(* C19 — Outgoing datagrams go out the transport their address designates.

   Models
     IpTransports::bind               iroh/src/socket/transports/ip.rs  (sort by descending prefix
                                      length, stable; default index = first default in that order;
                                      a second default of one family is refused)
     ip::Config::is_valid_send_addr   (source match / subnet containment / link-local scope)
     ip::Config::is_valid_default_addr
     TransportsSender::poll_send      iroh/src/socket/transports.rs  (dispatch on the FourTuple:
                                      IP -> first valid sender in table order, else the family's
                                      default sender, else black-holed with Ok(()); Relay -> the
                                      relay senders; Custom -> the custom senders that accept the
                                      address id)
   Addresses of one family are NBits-bit strings (numbers 0 .. 2^NBits - 1).  A bind request is
     [fam, wild, addr, plen, dflt, scope]
       wild  the bind address is the unspecified address (0.0.0.0 / ::); then the subnet
             contains a destination only when plen = 0 (bind addresses are never link-local,
             so the same holds for link-local destinations)
       addr  the bind address (ignored when wild)
       plen  0 .. NBits
       dflt  default-route flag (explicit in ip::Config)
       scope IPv6 scope id (0 for IPv4)
   A route request is [fam, hasSrc, src, dst, ll, dscope]: destination `dst`, optional source
   address, `ll` = the destination is IPv6 unicast link-local with scope id `dscope`;
   fam "relay" / "custom" are the non-IP path kinds (dst = the custom address id).

   State: `binds` (the requests, in configuration order), `table` (indices into binds in
   routing-table order), `closed`, and `last` = outcome of the last dispatch.
   Actions: Send(r) one TransportsSender::poll_send on an IP path; SendRelay / SendCustom(id)
   for the other path kinds; Close.
   Descending = TRUE is the code (longest prefix first); FALSE (ascending) is refuted by TLC. *)
EXTENDS Naturals, Sequences, FiniteSets, TLC, Json
CONSTANTS NBits, Fams, Addrs, PLens, Scopes, MaxSocks, Descending,
          NRelay               \* number of relay senders
VARIABLES binds, table, closed, last
vars == <<binds, table, closed, last>>

\* the address id each custom sender accepts, in sender order (two senders share id 2)
CustomIds == <<2, 1, 2>>
Pow2(n) == IF n = 0 THEN 1 ELSE IF n = 1 THEN 2 ELSE IF n = 2 THEN 4 ELSE IF n = 3 THEN 8 ELSE 16
\* the subnet (addr/plen) contains d: the leading plen bits agree
Contains(addr, plen, d) == (addr \div Pow2(NBits - plen)) = (d \div Pow2(NBits - plen))

BindReqs == [fam : Fams, wild : BOOLEAN, addr : Addrs, plen : PLens, dflt : BOOLEAN, scope : Scopes]
\* canonical forms only (keeps the configuration space small): wild sockets carry addr 0, IPv4 has scope 0
Canon(b) == (b.wild => b.addr = 0) /\ (b.fam = "v4" => b.scope = 0)
NoRoute == [kind |-> "none", idx |-> 0]
NoReq == [fam |-> "none", hasSrc |-> FALSE, src |-> 0, dst |-> 0, ll |-> FALSE, dscope |-> 0]

\* ---- IpTransports::bind
NDefaults(bs, f) == Cardinality({i \in 1..Len(bs) : bs[i].fam = f /\ bs[i].dflt})
BindOk(bs) == \A f \in Fams : NDefaults(bs, f) <= 1
\* stable sort of the indices by prefix length (descending in the code)
Before(bs, i, j) == IF bs[i].plen = bs[j].plen THEN i < j
                    ELSE IF Descending THEN bs[i].plen > bs[j].plen ELSE bs[i].plen < bs[j].plen
RECURSIVE SortIdx(_, _)
SortIdx(bs, S) == IF S = {} THEN <<>>
                  ELSE LET m == CHOOSE i \in S : \A j \in S \ {i} : Before(bs, i, j)
                       IN <<m>> \o SortIdx(bs, S \ {m})
Table(bs) == SortIdx(bs, 1..Len(bs))

\* ---- ip::Config decision functions
NetContains(b, r) == IF b.wild \/ r.ll THEN b.plen = 0 ELSE Contains(b.addr, b.plen, r.dst)
ValidSend(b, r) ==
  /\ b.fam = r.fam
  /\ IF r.hasSrc THEN b.wild \/ b.addr = r.src
     ELSE NetContains(b, r) \/ (b.fam = "v6" /\ r.ll /\ b.scope = r.dscope)
ValidDefault(b, r) == b.fam = r.fam /\ b.dflt

\* ---- TransportsSender::poll_send on an IP path: first valid sender in table order, else default
FirstValid(bs, tb, r) == LET C == {k \in 1..Len(tb) : ValidSend(bs[tb[k]], r)} IN
                         IF C = {} THEN 0 ELSE tb[CHOOSE k \in C : \A k2 \in C : k <= k2]
DefaultOf(bs, tb, f) == LET C == {k \in 1..Len(tb) : bs[tb[k]].fam = f /\ bs[tb[k]].dflt} IN
                        IF C = {} THEN 0 ELSE tb[CHOOSE k \in C : \A k2 \in C : k <= k2]
RouteImpl(bs, tb, r) ==
  LET v == FirstValid(bs, tb, r) d == DefaultOf(bs, tb, r.fam) IN
  IF v # 0 THEN [kind |-> "ip", idx |-> v]
  ELSE IF d # 0 /\ ValidDefault(bs[d], r) THEN [kind |-> "ip", idx |-> d]
  ELSE [kind |-> "drop", idx |-> 0]

Routes == {r \in [fam : Fams, hasSrc : BOOLEAN, src : Addrs, dst : Addrs, ll : BOOLEAN, dscope : Scopes] :
             /\ (~r.hasSrc => r.src = 0)
             /\ (r.fam = "v4" => ~r.ll /\ r.dscope = 0)
             /\ (~r.ll => r.dscope = 0)}

Init == /\ binds \in {bs \in UNION {[1..n -> {b \in BindReqs : Canon(b)}] : n \in 0..MaxSocks} : BindOk(bs)}
        /\ table = Table(binds) /\ closed = FALSE /\ last = [valid |-> FALSE, req |-> NoReq, out |-> NoRoute]

\* (`last` only records the outcome; binds / table never change, so one dispatch per behaviour
\*  loses nothing: Fresh keeps the state graph a star instead of a clique)
Fresh == ~closed /\ ~last.valid
Send(r) == /\ Fresh
           /\ last' = [valid |-> TRUE, req |-> r, out |-> RouteImpl(binds, table, r)]
           /\ UNCHANGED <<binds, table, closed>>
\* FourTuple::Relay: every relay sender is asked in turn, the first that is ready takes the datagram
SendRelay == /\ Fresh
             /\ last' = [valid |-> TRUE, req |-> [NoReq EXCEPT !.fam = "relay"],
                         out |-> IF NRelay > 0 THEN [kind |-> "relay", idx |-> 1] ELSE [kind |-> "drop", idx |-> 0]]
             /\ UNCHANGED <<binds, table, closed>>
\* FourTuple::Custom: the first custom sender whose is_valid_send_addr accepts the address
SendCustom(id) ==
  /\ Fresh
  /\ LET C == {i \in 1..Len(CustomIds) : CustomIds[i] = id} IN
     last' = [valid |-> TRUE, req |-> [NoReq EXCEPT !.fam = "custom", !.dst = id],
              out |-> IF C = {} THEN [kind |-> "drop", idx |-> 0]
                                ELSE [kind |-> "custom", idx |-> CHOOSE i \in C : \A j \in C : i <= j]]
  /\ UNCHANGED <<binds, table, closed>>
Close == /\ ~closed /\ closed' = TRUE /\ UNCHANGED <<binds, table, last>>
Next == (\E r \in Routes : Send(r)) \/ SendRelay \/ (\E id \in 0..3 : SendCustom(id)) \/ Close
Spec == Init /\ [][Next]_vars

---------------------------------------------------------------------------
(* C19 — what the statement allows for an IP datagram (sets of bind indices; ties are not
   decided by the statement, so every member is acceptable) *)
SameFam(bs, r) == {i \in 1..Len(bs) : bs[i].fam = r.fam}
SrcSocks(bs, r) == {i \in SameFam(bs, r) : bs[i].wild \/ bs[i].addr = r.src}
Holds(bs, r) == {i \in SameFam(bs, r) : NetContains(bs[i], r) \/ (r.fam = "v6" /\ r.ll /\ bs[i].scope = r.dscope)}
Longest(bs, S) == {i \in S : \A j \in S : bs[i].plen >= bs[j].plen}
Defaults(bs, r) == {i \in SameFam(bs, r) : bs[i].dflt}
Allowed(bs, r) ==
  IF r.hasSrc THEN (IF SrcSocks(bs, r) # {} THEN SrcSocks(bs, r) ELSE Defaults(bs, r))
  ELSE IF Holds(bs, r) # {} THEN Longest(bs, Holds(bs, r)) ELSE Defaults(bs, r)

\* the dispatch result is one of the sockets the statement allows; dropped only when it allows none
RouteAllowed == (last.valid /\ last.req.fam \in Fams) =>
                  LET A == Allowed(binds, last.req) IN
                  IF A = {} THEN last.out.kind = "drop" ELSE last.out.kind = "ip" /\ last.out.idx \in A
\* a relay / custom datagram is handed only to a relay / matching custom sender, or dropped
KindRespected == last.valid =>
                   /\ last.req.fam = "relay" => last.out.kind \in {"relay", "drop"}
                   /\ last.req.fam = "custom" => (last.out.kind = "drop" \/ (last.out.kind = "custom" /\ CustomIds[last.out.idx] = last.req.dst))
                   /\ last.req.fam \in Fams => last.out.kind \in {"ip", "drop"}
\* the routing table is a permutation of the binds, longest prefix first, one default per family
TableSorted == /\ Len(table) = Len(binds) /\ {table[k] : k \in 1..Len(table)} = 1..Len(binds)
               /\ \A k \in 1..(Len(table) - 1) : binds[table[k]].plen >= binds[table[k + 1]].plen
\* never a fatal error for a single datagram: the outcome is a socket or a silent drop
SendNeverFails == last.out.kind \in {"none", "ip", "relay", "custom", "drop"}

\* generator: one REPLAY line per (configuration, route): the sockets the statement allows
\* (1-based bind indices), the model's outcome, and the two per-bind decision functions
Emit == last.valid =>
          PrintT(<<"REPLAY", ToJson([binds |-> binds, route |-> last.req,
                                     allowed |-> IF last.req.fam \in Fams THEN Allowed(binds, last.req) ELSE {},
                                     model |-> last.out,
                                     vs |-> [i \in 1..Len(binds) |-> ValidSend(binds[i], last.req)],
                                     vd |-> [i \in 1..Len(binds) |-> ValidDefault(binds[i], last.req)]])>>)
=============================================================================
