\* anti-vacuity: without the mutex two concurrent get() of one key return different addresses
SPECIFICATION Spec
INVARIANT ReturnedInjective
CHECK_DEADLOCK FALSE
CONSTANTS
  NoHost = "none"
  NoKey = "nokey"
  NoThread = "nobody"
  Threads = {"t1", "t2"}
  Kinds = {"relay"}
  Keys = {"k1", "k2"}
  Hosts = {"h1", "h2", "h3"}
  MaxCalls = 1
  Locked = FALSE
  Unique = TRUE
