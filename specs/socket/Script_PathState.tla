-------------------------- MODULE Script_PathState --------------------------
(* Directed scenarios for C22: the operation sequences in the ndjson file IOEnv.SCRIPT (one record
   [ops |-> <<[op, addrs, addr, how], ...>>] per scenario) are executed on the PathState model, which
   supplies the expected replies / emptiness per step (same `hist` records as the generator).
   Sources of scenarios: the repository's two regression tests, and the operation sequences of the
   witnesses TLC finds for the as-written pruning rule (PathState!EmptiedWitness, CodeRule = TRUE) -
   re-run here under the required rule, so that the replay on the real code is judged against the
   design the property requires. *)
EXTENDS PathState, IOUtils

Scripts == ndJsonDeserialize(IOEnv.SCRIPT)
VARIABLE sidx
SInit == Init /\ sidx \in 1..Len(Scripts)
Ops == Scripts[sidx].ops
Want == Ops[Len(hist) + 1]
AsSetOf(s) == {s[k] : k \in 1..Len(s)}
SNext == /\ Len(hist) < Len(Ops) /\ UNCHANGED sidx
         /\ \/ Want.op = "resolve" /\ Resolve(AsSetOf(Want.addrs))
            \/ Want.op = "item" /\ LookupItem(AsSetOf(Want.addrs))
            \/ Want.op = "end" /\ LookupEnd(Want.how)
            \/ Want.op = "open" /\ OpenPath(Want.addr)
            \/ Want.op = "abandon" /\ Abandon(Want.addr)
            \/ Want.op = "select" /\ Select
            \/ Want.op = "deselect" /\ Deselect
SEmit == (Len(hist) = Len(Ops)) => PrintT(<<"REPLAY", ToJson([script |-> sidx, steps |-> hist, services |-> Services])>>)
=============================================================================
