\* the design C25 requires: the guard is dropped before the done signal is sent
SPECIFICATION SpecFixed
INVARIANT TypeOK AtMostOneRun NoStuckWant
PROPERTY WantLeadsToRun
CHECK_DEADLOCK FALSE
CONSTANTS
  UnlockFirst = TRUE
  WithMap = FALSE
  KeepHist = FALSE
