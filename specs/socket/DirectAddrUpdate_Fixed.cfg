\* the design C25 requires: the guard is dropped before the done signal is sent
SPECIFICATION SpecFixed
INVARIANT TypeOK AtMostOneRun NoStuckWant OwedIsQueued NoLostRequest
PROPERTY WantLeadsToRun OwedLeadsToRun
CHECK_DEADLOCK FALSE
CONSTANTS
  UnlockFirst = TRUE
  WithMap = FALSE
  ClearOnHeld = FALSE
  EmitAllUpTo = 100
  KeepHist = FALSE
