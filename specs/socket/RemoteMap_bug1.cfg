SPECIFICATION SpecRestartBeforeJoin
INVARIANT AtMostOneLive SenderIsNewest InOrderOnce NeverDropped WaitingIsServed AnsweredWasHandled NoLoss NothingDroppedWithoutShutdown ShutdownDrains
CHECK_DEADLOCK FALSE
CONSTANTS
  Remotes = {"r1", "r2"}
  Tags = {0, 1}
