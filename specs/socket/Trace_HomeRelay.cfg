SPECIFICATION TSpec
INVARIANT HomeIsChosen
POSTCONDITION Accepted
CHECK_DEADLOCK FALSE
CONSTANTS
  Urls = {"a", "b"}
  States = {"Connecting", "Connected", "Disconnected"}
  NoUrl = "NoUrl"
  Atomic = FALSE
  MaxChanges = 100
