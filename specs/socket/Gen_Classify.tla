--------------------------- MODULE Gen_Classify ---------------------------
(* Decision-table generator for the CLASSIFY half of MappedAddrs (C18): one initial state per
   abstract address, no transitions; every state prints the kind the spec assigns. *)
EXTENDS MappedAddrs
VARIABLE a
GInit == Init /\ a \in AbstractAddrs
GNext == UNCHANGED <<vars, a>>
GSpec == GInit /\ [][GNext]_<<vars, a>>
EmitC == PrintT(<<"REPLAY", ToJson([fam |-> a.fam, dev |-> a.dev, subnet |-> a.subnet, kind |-> Classify(a)])>>)
=============================================================================
