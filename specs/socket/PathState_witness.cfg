SPECIFICATION Spec
INVARIANT EmptiedWitness
VIEW view
CHECK_DEADLOCK FALSE
