--------------------------- MODULE PathSelectDyn ---------------------------
(* C24 growth — "resists flapping" as a property of runs, not of single decisions.

   The decision rule PathSelect!Select is applied repeatedly (RemoteStateActor::select_path runs on
   every path event) while the measured round-trip time of every path jitters within +-Jit of a
   base value.  If 2 * Jit < SwitchMin the selection never returns to a path it has moved away from
   (NoReturn) and changes at most once per candidate (BoundedChanges); with 2 * Jit >= SwitchMin TLC
   finds a run that flaps - the stickiness threshold is exactly what prevents it.
   The binding of C24 shows that the real selector equals Select on every single input; this module
   adds what that implies over time. *)
EXTENDS PathSelect

CONSTANTS Cands,      \* the addresses that have a path (each once; all with stats)
          Bases,      \* base rtts to choose from
          Jit         \* jitter amplitude
VARIABLES base,       \* [Cands -> Bases]
          left,       \* addresses the selection has moved away from
          changes     \* number of selection changes so far
dvars == <<cs, cur, base, left, changes>>

Order == CHOOSE f \in [1..Cardinality(Cands) -> Cands] : \A i, j \in 1..Cardinality(Cands) : i # j => f[i] # f[j]
DInit == /\ base \in [Cands -> Bases]
         /\ cs = [i \in 1..Cardinality(Cands) |-> [addr |-> Order[i], rtt |-> base[Order[i]]]]
         /\ cur = "none" /\ left = {} /\ changes = 0
\* a new measurement for one path, within the band around its base
Measure == \E i \in 1..Len(cs) : \E d \in 0..(2 * Jit) :
             /\ base[cs[i].addr] + d >= Jit
             /\ cs' = [cs EXCEPT ![i].rtt = base[cs[i].addr] + d - Jit]
             /\ UNCHANGED <<cur, base, left, changes>>
\* select_path: apply the rule's decision
Reselect == \E out \in Select(cs, cur) :
              /\ cur' = Apply(cur, out)
              /\ left' = IF out # "keep" /\ cur # "none" THEN left \cup {cur} ELSE left
              /\ changes' = IF out # "keep" /\ out # cur THEN changes + 1 ELSE changes
              /\ UNCHANGED <<cs, base>>
DNext == Measure \/ Reselect
DSpec == DInit /\ [][DNext]_dvars

NoReturn == cur \notin left
BoundedChanges == changes <= Cardinality(Cands)
SelectedIsCandidate == cur # "none" => cur \in Cands
=============================================================================
