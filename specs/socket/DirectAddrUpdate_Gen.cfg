\* word generator over the unlock-first structure (the harness drives a real Endpoint along each word)
SPECIFICATION SpecFixed
INVARIANT TypeOK AtMostOneRun Emit
CHECK_DEADLOCK FALSE
CONSTANTS
  UnlockFirst = TRUE
  WithMap = FALSE
  ClearOnHeld = FALSE
  KeepHist = TRUE
