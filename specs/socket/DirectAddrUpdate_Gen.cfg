\* word generator over the structure of the pinned code (the harness drives a real Endpoint along each word)
SPECIFICATION SpecCode
INVARIANT TypeOK AtMostOneRun Emit
CHECK_DEADLOCK FALSE
CONSTANTS
  UnlockFirst = FALSE
  WithMap = FALSE
  KeepHist = TRUE
