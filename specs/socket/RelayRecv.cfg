\* exhaustive check of the required loop (Fixed = TRUE), arrivals interleaved with the slots of a poll
SPECIFICATION Spec
INVARIANT OutIsPrefixOfExpected QuiescentMeansDrained SleepingHasWaker DrainedMeansAllDelivered BoundariesKept WakerOnlyWhenEmpty SlotsBounded ClosedLosesOnlyLastPoll
CHECK_DEADLOCK FALSE
CONSTANTS
  ExactTail = TRUE
  Fixed = TRUE
  ArriveDuringPoll = TRUE
  MayClose = TRUE
  Record = FALSE
  MaxSteps = 0
