----------------------------- MODULE PathSelect -----------------------------
(* C24 — path selection prefers primary paths and resists flapping.

   Models `BiasedRttPathSelector::select` (iroh/src/socket/biased_rtt_path_selector.rs)
   as a decision function, and the glue in `RemoteStateActor::select_path`
   (iroh/src/socket/remote_map/remote_state.rs) that applies its result.

   Input  cs    sequence of candidates [addr, rtt]: one entry per (connection, path), so the
                same address may occur several times; rtt = NoStats when `psd.stats()` is None
          cur   the currently selected address, "none", or an address that is not (or no
                longer) among the candidates
   Output "keep" (PathSelection::none(): the caller changes nothing) or an address.

   Code structure -> operators
     per-kind bias table (IpV4 primary, IpV6 primary -3 ms, Relay backup, custom primary)   Tier, Bias
     `sort_key` = (transport_type, rtt + bias)                                             Key
     single pass: `best` = least key, `current_key` = least key among entries of `cur`     BestKey, CurKey
     no stats at all -> none()                                                             W = {} -> keep
     no current_key -> set(best); tiers differ -> set(best);
     `best + RTT_SWITCHING_MIN <= current` -> set(best); else none()                       Select
     `select_path`: Some(addr) # selected_path -> replace, else keep                       Apply

   `Select` is the documented rule (a set of admissible outputs: entries with equal best
   keys may be picked either way).  `Allowed` is what the statement of C24 alone permits
   (read weakly): only live paths with readable stats; never a backup while a primary has
   stats, never staying on a live backup then; within a tier away from a live current
   path only to one whose biased rtt is at least SwitchMin better; nothing live -> keep.
   TLC checks Select \subseteq Allowed and the clause invariants for every input up to the
   bound, and prints every case with both sets for the replay on the real selector:
   an output outside Allowed violates C24; an output inside Allowed but outside Select
   deviates from the documented rule without breaking the property (non-conformance).

   Time is in integer units; the configuration fixes the unit (ms: SwitchMin = 5,
   V6Adv = 3; ns: 5000000 / 3000000 with rtts one unit around the thresholds). *)
EXTENDS Integers, Sequences, FiniteSets, TLC, Json

CONSTANTS V4, V6, Relay, Custom,     \* address names by kind (disjoint sets of strings)
          Rtts, NoStats,             \* rtt values; NoStats marks unreadable stats
          SwitchMin, V6Adv,          \* RTT_SWITCHING_MIN, IPV6_RTT_ADVANTAGE in the unit of Rtts
          MaxLen                     \* longest candidate list

Addrs == V4 \cup V6 \cup Relay \cup Custom
Tier(a) == IF a \in Relay THEN 1 ELSE 0            \* 0 = primary, 1 = backup
Bias(a) == IF a \in V6 THEN 0 - V6Adv ELSE 0
Biased(c) == c.rtt + Bias(c.addr)
Key(c) == <<Tier(c.addr), Biased(c)>>
Less(x, y) == x[1] < y[1] \/ (x[1] = y[1] /\ x[2] < y[2])
MinKey(I, cs) == CHOOSE k \in {Key(cs[i]) : i \in I} : \A j \in I : ~Less(Key(cs[j]), k)

W(cs) == {i \in 1..Len(cs) : cs[i].rtt # NoStats}          \* entries with readable stats
CurIdx(cs, cur) == {i \in W(cs) : cs[i].addr = cur}

\* ---- the documented rule
Select(cs, cur) ==
  IF W(cs) = {} THEN {"keep"}
  ELSE LET best == MinKey(W(cs), cs)
           bestAddrs == {cs[i].addr : i \in {j \in W(cs) : Key(cs[j]) = best}}
       IN IF CurIdx(cs, cur) = {} THEN bestAddrs
          ELSE LET ck == MinKey(CurIdx(cs, cur), cs) IN
               IF ck[1] # best[1] THEN bestAddrs
               ELSE IF best[2] + SwitchMin <= ck[2] THEN bestAddrs
               ELSE {"keep"}

\* ---- what the statement alone permits
LiveAddrs(cs) == {cs[i].addr : i \in W(cs)}
HasPrimary(cs) == \E a \in LiveAddrs(cs) : Tier(a) = 0
AddrBiased(cs, a) == MinKey({i \in W(cs) : cs[i].addr = a}, cs)[2]
KeepAllowed(cs, cur) == ~(CurIdx(cs, cur) # {} /\ Tier(cur) = 1 /\ HasPrimary(cs))
SwitchAllowed(cs, cur, a) ==
  /\ a \in LiveAddrs(cs) /\ a # cur
  /\ HasPrimary(cs) => Tier(a) = 0
  /\ (CurIdx(cs, cur) # {} /\ Tier(cur) = Tier(a)) => AddrBiased(cs, a) + SwitchMin <= AddrBiased(cs, cur)
Allowed(cs, cur) ==
  {a \in Addrs : SwitchAllowed(cs, cur, a)}
  \cup (IF KeepAllowed(cs, cur) THEN {"keep"} \cup (IF CurIdx(cs, cur) # {} THEN {cur} ELSE {}) ELSE {})
  \* re-selecting the live current path is the same as keeping it

\* ---- select_path's glue
Apply(cur, out) == IF out = "keep" THEN cur ELSE out

---------------------------------------------------------------------------
VARIABLES cs, cur
vars == <<cs, cur>>
Init == /\ cs \in UNION {[1..n -> [addr : Addrs, rtt : Rtts \cup {NoStats}]] : n \in 0..MaxLen}
        /\ cur \in Addrs \cup {"none"}
Next == UNCHANGED vars
Spec == Init /\ [][Next]_vars

R == Select(cs, cur)
\* the rule stays within the property
RuleWithinProperty == R \subseteq Allowed(cs, cur) /\ R # {}
\* the clauses, spelled out on the rule's outputs
OnlyLivePaths    == \A o \in R : o # "keep" => o \in LiveAddrs(cs)
EmptyKeeps       == W(cs) = {} => R = {"keep"}
PrimaryPreferred == HasPrimary(cs) => \A o \in R : o # "keep" => Tier(o) = 0
NeverStayOnBackup == (CurIdx(cs, cur) # {} /\ Tier(cur) = 1 /\ HasPrimary(cs)) => "keep" \notin R /\ cur \notin R
Sticky == \A o \in R : (o # "keep" /\ CurIdx(cs, cur) # {} /\ Tier(o) = Tier(cur))
                         => AddrBiased(cs, o) + SwitchMin <= AddrBiased(cs, cur)
\* resists flapping: applying the rule twice changes nothing the second time
NoFlap == \A o \in R : LET c2 == Apply(cur, o) IN
             (o # "keep") => Select(cs, c2) = {"keep"}

Emit == PrintT(<<"REPLAY", ToJson([cs |-> cs, cur |-> cur, expect |-> R, allowed |-> Allowed(cs, cur)])>>)
=============================================================================
