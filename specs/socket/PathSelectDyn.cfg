SPECIFICATION DSpec
INVARIANT NoReturn BoundedChanges SelectedIsCandidate
CHECK_DEADLOCK FALSE
CONSTANTS
  V4 = {"v4a", "v4b"}
  V6 = {"v6a"}
  Relay = {"rla"}
  Custom = {}
  Rtts = {}
  NoStats = 2000000000
  SwitchMin = 5
  V6Adv = 3
  MaxLen = 0
