----------------------------- MODULE RelayRecv -----------------------------
(* C17 — Relay receive path delivers datagrams in order and never wedges.

   Models `RelayTransport::poll_recv` / `poll_recv_queue` (iroh/src/socket/transports/relay.rs),
   `Datagrams::take_segments` (iroh-relay/src/protos/relay.rs) and the tokio mpsc receive
   queue `relay_datagram_recv_queue` with its single receiver waker.

   A batch is [len, seg]: `contents.len()` and `segment_size` (seg = 0 is None: one datagram).
   The datagrams of a batch are seg, seg, ..., rest (Dgrams).  Every byte is identified by
   <<batch index, offset>>, so a delivered piece is [idx, off, len].

   State (mirrors the struct and the channel):
     chan      relay_datagram_recv_queue content, batches as [len, seg, idx, off]
     pending   self.pending_item (NoneB when None); `off` = bytes of the batch already taken
     waker     TRUE iff the receiver's waker is registered with the channel (set only when the
               channel poll returns Pending; consumed by the next send)
     woken     TRUE iff wake() has been called since the driver last started a poll
     out       every piece handed to QUIC so far (through bufs/metas: a slot of `len` bytes with
               `stride` s is the pieces s, s, ..., rest)
     expect    what the property requires to be delivered for the arrivals so far: the datagrams
               with length <= buflen, in arrival order
     pc, slot, nmsgs   the loop of one poll_recv call: "idle" | "loop" | "done"
     lastPoll  result of the last finished poll: "none" | "ready" | "pending" | "closed"

   Actions (one per step of the code):
     Arrive(b)        ActiveRelayActor sends a batch into the queue (wakes a registered waker);
                      may happen between the slots of a running poll when ArriveDuringPoll
     CloseChan        all senders dropped
     PollBegin(nb)    noq calls poll_recv with nb buffers of buflen bytes
     SlotQueueEmpty   poll_recv_queue -> channel Pending: waker registered, `break`
     SlotQueueClosed  poll_recv_queue -> Ready(None): Err(NotConnected) returned at once; what
                      earlier slots of this same poll had already copied is discarded with it
                      (`lostAtClose`; only at shutdown, outside the quantifier of C17, modelled as is)
     SlotDeliver      an item is available, take_segments(num_segments), it fits: copied, slot used
     SlotDrop         ... it does not fit: dropped with a warning
                        Fixed:       continue with the same slot
                        as written:  `break`
     PollEnd          returns Ready(nmsgs) if nmsgs > 0 else Pending

   Fixed = TRUE  is the loop the property requires (`num_segments.max(1)`, drop-and-continue).
   Fixed = FALSE is the loop as written at the pinned commit:
       num_segments = buf_len / segment_size may be 0  ==> take_segments(0) yields an empty
       Datagrams, which "fits": a zero-length piece is delivered and the batch stays pending
       for ever (every poll returns nb zero-length datagrams, later batches are starved);
       `break` after a drop ==> poll returns Pending with input queued and no waker.
   TLC refutes OutIsPrefixOfExpected and QuiescentMeansDrained for Fixed = FALSE.
   ExactTail = FALSE is a what-if on take_segments' remainder rule (see RestIsSingle); TLC refutes
   BoundariesKept for it: the expectation is per datagram (identity, offset and length of each).

   Driver discipline (noq's endpoint driver): it polls again after Ready and after a wake-up,
   and otherwise sleeps.  `Quiescent` is the state in which it sleeps. *)
EXTENDS Naturals, Sequences, FiniteSets, TLC, Json
CONSTANTS Lens, Segs,       \* a batch that may arrive is [len \in Lens, seg \in Segs] (len >= 1; seg 0 = None)
          MaxArrive,        \* bound on the number of arrivals
          BufLens, NBufs,   \* buffer length (fixed per behaviour) and buffer counts per poll
          Fixed,            \* TRUE: required loop; FALSE: loop as written
          ExactTail,        \* TRUE: take_segments clears the remainder's segment size iff the remainder is ONE
                            \* datagram (rest <= seg, the code); FALSE: iff rest \div seg <= 1 (what-if, refuted)
          ArriveDuringPoll, \* TRUE: arrivals interleave with the slots of a running poll
          MayClose,         \* TRUE: the channel may be closed
          Record, MaxSteps  \* behaviour generator: record `hist`, bound its length
VARIABLES chan, pending, waker, woken, out, expect, narr, buflen, closed,
          pc, slot, nmsgs, lastPoll, hist,
          outAtBegin,   \* Len(out) when the running poll started
          lostAtClose   \* ghost: datagrams copied by the poll that then returned the closed error
vars == <<chan, pending, waker, woken, out, expect, narr, buflen, closed, pc, slot, nmsgs, lastPoll, hist,
          outAtBegin, lostAtClose>>

Batches == [len : Lens, seg : Segs]
MaxNB == CHOOSE n \in NBufs : \A m \in NBufs : m <= n
NoneB == [len |-> 0, seg |-> 0, idx |-> 0, off |-> 0]
Min(a, b) == IF a < b THEN a ELSE b

\* datagram lengths of a batch
RECURSIVE Dgrams(_, _)
Dgrams(len, seg) == IF len = 0 THEN <<>>
                    ELSE IF seg = 0 \/ len <= seg THEN <<len>>
                    ELSE <<seg>> \o Dgrams(len - seg, seg)
\* the pieces [idx, off, len] of `len` bytes starting at `off` of batch `idx`, cut every `seg` bytes
RECURSIVE Pieces(_, _, _, _)
Pieces(idx, off, len, seg) ==
  IF len = 0 THEN <<>>
  ELSE IF seg = 0 \/ len <= seg THEN << [idx |-> idx, off |-> off, len |-> len] >>
  ELSE << [idx |-> idx, off |-> off, len |-> seg] >> \o Pieces(idx, off + seg, len - seg, seg)

Fits(n) == n <= buflen

\* "If this left our batch with only one more datagram, then remove the segment size": the remainder
\* keeps its segment size exactly when it still holds more than one datagram.  With the loose rule a
\* remainder of one full segment plus a shorter tail (seg < rest < 2 seg) loses it and the two
\* datagrams are later handed out merged (stride = len) or dropped together.
RestIsSingle(restLen, seg) == IF ExactTail THEN restLen <= seg ELSE restLen \div seg <= 1
\* Datagrams::take_segments(n) on the pending item p: <<taken, rest>>
Take(p, n) ==
  IF p.seg = 0
    THEN << [len |-> p.len, seg |-> 0, idx |-> p.idx, off |-> p.off],
            [len |-> 0, seg |-> 0, idx |-> p.idx, off |-> p.off + p.len] >>
    ELSE LET t == Min(n * p.seg, p.len)
             restLen == p.len - t
             isBatch == n > 1 /\ p.seg < t
         IN << [len |-> t, seg |-> IF isBatch THEN p.seg ELSE 0, idx |-> p.idx, off |-> p.off],
               [len |-> restLen, seg |-> IF RestIsSingle(restLen, p.seg) THEN 0 ELSE p.seg, idx |-> p.idx, off |-> p.off + t] >>

\* num_segments computed by poll_recv for item p
NumSegments(p) == LET n0 == IF p.seg = 0 THEN 1 ELSE buflen \div p.seg
                  IN IF Fixed /\ n0 = 0 THEN 1 ELSE n0

Log(rec) == hist' = IF Record THEN Append(hist, rec) ELSE hist
Bound == ~Record \/ Len(hist) < MaxSteps

Init == /\ chan = <<>> /\ pending = NoneB /\ waker = FALSE /\ woken = FALSE
        /\ out = <<>> /\ expect = <<>> /\ narr = 0 /\ buflen \in BufLens /\ closed = FALSE
        /\ pc = "idle" /\ slot = 0 /\ nmsgs = 0 /\ lastPoll = "none" /\ hist = <<>>
        /\ outAtBegin = 0 /\ lostAtClose = 0

Arrive(b) ==
  /\ Bound /\ ~closed /\ narr < MaxArrive /\ (pc = "idle" \/ ArriveDuringPoll)
  /\ narr' = narr + 1
  /\ chan' = Append(chan, [len |-> b.len, seg |-> b.seg, idx |-> narr + 1, off |-> 0])
  /\ expect' = expect \o SelectSeq(Pieces(narr + 1, 0, b.len, b.seg), LAMBDA d : Fits(d.len))
  /\ waker' = FALSE /\ woken' = (woken \/ waker)
  /\ UNCHANGED <<pending, out, buflen, closed, pc, slot, nmsgs, lastPoll, outAtBegin, lostAtClose>>
  /\ Log([op |-> "arrive", len |-> b.len, seg |-> b.seg, nb |-> 0, woke |-> waker, nout |-> Len(out), ret |-> "-"])

CloseChan ==
  /\ Bound /\ MayClose /\ ~closed /\ pc = "idle"
  /\ closed' = TRUE /\ waker' = FALSE /\ woken' = (woken \/ waker)
  /\ UNCHANGED <<chan, pending, out, expect, narr, buflen, pc, slot, nmsgs, lastPoll, outAtBegin, lostAtClose>>
  /\ Log([op |-> "close", len |-> 0, seg |-> 0, nb |-> 0, woke |-> waker, nout |-> Len(out), ret |-> "-"])

PollBegin(nb) ==
  /\ Bound /\ pc = "idle" /\ lastPoll # "closed"
  /\ pc' = "loop" /\ slot' = nb /\ nmsgs' = 0 /\ woken' = FALSE /\ outAtBegin' = Len(out)
  /\ UNCHANGED <<chan, pending, waker, out, expect, narr, buflen, closed, lastPoll, lostAtClose>>
  /\ Log([op |-> "poll", len |-> 0, seg |-> 0, nb |-> nb, woke |-> FALSE, nout |-> Len(out), ret |-> "-"])

HaveItem == pending.len > 0 \/ chan # <<>>
Item == IF pending.len > 0 THEN pending ELSE Head(chan)
ChanAfter == IF pending.len > 0 THEN chan ELSE Tail(chan)

SlotQueueEmpty ==
  /\ pc = "loop" /\ slot > 0 /\ ~HaveItem /\ ~closed
  /\ waker' = TRUE /\ pc' = "done"
  /\ UNCHANGED <<chan, pending, woken, out, expect, narr, buflen, closed, slot, nmsgs, lastPoll, hist, outAtBegin, lostAtClose>>

SlotQueueClosed ==
  /\ pc = "loop" /\ slot > 0 /\ ~HaveItem /\ closed
  /\ pc' = "idle" /\ lastPoll' = "closed"
  /\ out' = SubSeq(out, 1, outAtBegin) /\ lostAtClose' = Len(out) - outAtBegin
  /\ UNCHANGED <<chan, pending, waker, woken, expect, narr, buflen, closed, slot, nmsgs, outAtBegin>>
  /\ Log([op |-> "end", len |-> 0, seg |-> 0, nb |-> 0, woke |-> FALSE, nout |-> outAtBegin, ret |-> "closed"])

SlotDeliver ==
  /\ pc = "loop" /\ slot > 0 /\ HaveItem
  /\ LET tr == Take(Item, NumSegments(Item)) taken == tr[1] rest == tr[2] IN
       /\ Fits(taken.len)
       /\ chan' = ChanAfter
       /\ pending' = IF rest.len = 0 THEN NoneB ELSE rest
       /\ out' = out \o (IF taken.len = 0 THEN << [idx |-> taken.idx, off |-> taken.off, len |-> 0] >>
                                           ELSE Pieces(taken.idx, taken.off, taken.len, taken.seg))
  /\ nmsgs' = nmsgs + 1 /\ slot' = slot - 1
  /\ UNCHANGED <<waker, woken, expect, narr, buflen, closed, pc, lastPoll, hist, outAtBegin, lostAtClose>>

SlotDrop ==
  /\ pc = "loop" /\ slot > 0 /\ HaveItem
  /\ LET tr == Take(Item, NumSegments(Item)) taken == tr[1] rest == tr[2] IN
       /\ ~Fits(taken.len)
       /\ chan' = ChanAfter
       /\ pending' = IF rest.len = 0 THEN NoneB ELSE rest
  /\ pc' = IF Fixed THEN "loop" ELSE "done"
  /\ UNCHANGED <<waker, woken, out, expect, narr, buflen, closed, slot, nmsgs, lastPoll, hist, outAtBegin, lostAtClose>>

PollEnd ==
  /\ (pc = "done" \/ (pc = "loop" /\ slot = 0))
  /\ pc' = "idle" /\ lastPoll' = IF nmsgs > 0 THEN "ready" ELSE "pending"
  /\ UNCHANGED <<chan, pending, waker, woken, out, expect, narr, buflen, closed, slot, nmsgs, outAtBegin, lostAtClose>>
  /\ Log([op |-> "end", len |-> 0, seg |-> 0, nb |-> nmsgs, woke |-> FALSE, nout |-> Len(out),
          ret |-> IF nmsgs > 0 THEN "ready" ELSE "pending"])

Next == \/ \E b \in Batches : Arrive(b)
        \/ CloseChan
        \/ \E nb \in NBufs : PollBegin(nb)
        \/ SlotQueueEmpty \/ SlotQueueClosed \/ SlotDeliver \/ SlotDrop \/ PollEnd
Spec == Init /\ [][Next]_vars

---------------------------------------------------------------------------
IsPrefix(s, t) == Len(s) <= Len(t) /\ \A i \in 1..Len(s) : s[i] = t[i]
Queued == chan # <<>> \/ pending.len > 0
\* the driver sleeps: the last poll returned Pending and nothing woke it since
Quiescent == pc = "idle" /\ lastPoll = "pending" /\ ~woken

(* C17 *)
\* everything handed to QUIC is, in order and once, what the property requires (no reordering,
\* duplication, oversize or zero-length delivery)
OutIsPrefixOfExpected == IsPrefix(out, expect)
\* a poll never returns Pending leaving input queued while no wake-up will come: a sleeping
\* driver has nothing queued (no lost wake-up, no wedge)
QuiescentMeansDrained == Quiescent => ~Queued
\* ... and with no further arrival a wake-up can only come from a registered waker
SleepingHasWaker == (Quiescent /\ ~closed) => waker
\* once the input is drained exactly the fitting datagrams were delivered (only non-fitting dropped)
DrainedMeansAllDelivered == (pc = "idle" /\ ~Queued /\ lastPoll # "closed") => out = expect
\* at shutdown only what the erroring poll itself had copied is lost (at most nb - 1 slots)
ClosedLosesOnlyLastPoll == lastPoll = "closed" =>
                             /\ IsPrefix(out, expect) /\ ~Queued
                             /\ Len(out) + lostAtClose = Len(expect)
\* datagram boundaries survive re-batching: every piece handed to QUIC (a slot cut at its stride) is one
\* whole datagram of its batch - same start offset, same length - never two merged, never a fragment
BoundariesKept == \A i \in 1..Len(out) : \E j \in 1..Len(expect) : out[i] = expect[j]
\* the channel never holds a registered waker together with queued batches (tokio mpsc contract)
WakerOnlyWhenEmpty == waker => chan = <<>>
\* a poll uses at most nb slots and every used slot carries at least one byte
SlotsBounded == nmsgs + slot <= MaxNB /\ \A i \in 1..Len(out) : Fixed => out[i].len > 0

\* behaviour generator: one REPLAY line per reachable idle state, with what must have been
\* delivered once the driver has drained it
Emit == (Record /\ pc = "idle" /\ hist # <<>>) =>
          PrintT(<<"REPLAY", ToJson([buflen |-> buflen, steps |-> hist, expect |-> expect, out |-> out,
                                     queued |-> Queued, waker |-> waker])>>)
=============================================================================
