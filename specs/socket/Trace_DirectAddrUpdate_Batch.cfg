\* batch: many words separated by reset events; violated invariants are printed per word
SPECIFICATION TSpec
INVARIANT ReportViolations
POSTCONDITION Accepted
CHECK_DEADLOCK FALSE
CONSTANTS
  MaxReq = 1000
  UnlockFirst = FALSE
  WithMap = FALSE
  ClearOnHeld = FALSE
  EmitAllUpTo = 100
  KeepHist = FALSE
