----------------------------- MODULE RemoteMap -----------------------------
(* C21 — per-remote state never loses requests across idle shutdown and restart.

   Models `RemoteMap` (iroh/src/socket/remote_map.rs: senders, Tasks::tasks JoinSet,
   send_to_actor, cleanup / poll_join_next, remove_or_restart_actor) and the lifecycle of
   `RemoteStateActor::run` (iroh/src/socket/remote_map/remote_state.rs: initial messages,
   inbox, is_idle, idle break, inbox.close() + recv_many leftover, task return).

   Processes
     socket actor (one task; `sapc` is its program counter inside send_to_actor):
       SaLookup(r,k,t) `senders.get_or_insert_with`: request nreq+1 of kind k / tag t for remote r;
                       a sender exists -> go on to send, else a fresh actor must be started
       SaStart         `start_remote_state_actor(r, [])` + insert into senders
       SaSend          `sender.send(m).await` completes: the inbox was open and had room
       SaJoinOther(i)  SendError path, `poll_join_next` returned the task of another remote:
                       remove_or_restart_actor(r', leftover)
       SaJoinOwn(i)    ... returned the closed actor of r: restart it with leftover ++ [m]
       Cleanup(i)      `cleanup()` polled between messages: join one task, remove-or-restart
     other threads (`Socket::try_send_remote_state_msg` through the read-only senders map):
       TsLookup(r,k)   look the sender up (the clone may go stale afterwards)
       TsSend          `try_send` on that clone: accepted iff open and not full
     actor instance i:
       Handle(i)       `handle_message` of the next message (initial messages first, then inbox)
       LookupFinish(i) the address lookup ends / yields: all waiting resolve requests are answered
       IdleDecide(i)   idle timeout fired and `is_idle()` held (no connection, inbox empty, no waiting
                       resolve request); nothing is awaited between this and Close on one thread,
                       but another thread can still enqueue in between
       Close(i)        `inbox.close()`, `recv_many` leftover, task returns (joinable)
       CloseOnShutdown(i)  the loop's first (biased) branch: the shutdown token is cancelled -> break with whatever
                       is queued; initial messages were handled before the loop was entered
     environment:
       Cancel          the endpoint's shutdown token is cancelled (endpoint closing)
       NetChange       `on_network_change`: try_send a NetworkChange message to every sender in the map

   Requests: `req[m] = [r, kind, tag, via]`; kind "resolve" with tag > 0 carries addresses (answered at
   once), tag = 0 carries none (waits for the lookup unless the instance already knows a path);
   kind "info" is a `RemoteInfo` query sent with try_send; kind "netchange" is fire-and-forget.

   Shutdown (growth beyond C21's statement): after Cancel an instance still handles its *initial* messages, so
   the leftover of a cancelled actor is handled by its successor - accepted messages are handled even then
   (NeverDropped, ShutdownDrains) - but resolve requests that were waiting for a lookup lose their reply
   channel (`dropped`); C21 itself is about idle shutdown, where nothing may be dropped.

   Switches for known-bad designs (model checking runs with both FALSE; each TRUE is refuted):
     RestartBeforeJoin   the historical bug: on SendError start a new actor without joining the old task
     DropLeftover        leftover messages are dropped when the actor is restarted *)
EXTENDS Naturals, Sequences, FiniteSets, TLC

CONSTANTS Remotes, MaxReq, MaxInst, InboxCap, Tags, RestartBeforeJoin, DropLeftover

VARIABLES sender,    \* [Remotes -> 0..MaxInst]: instance whose inbox sender is in the map (0 = no entry)
          inst,      \* [1..MaxInst -> [r, phase, inbox, left, waiting, known]]
          ninst,     \* instances started so far
          joinable,  \* instances whose task returned and has not been joined
          sapc,      \* socket actor: [op, r, m]
          tspc,      \* other thread: [op, r, m, i]
          req, nreq, \* issued requests
          handled,   \* [Remotes -> Seq(request id)] in handling order
          accepted,  \* requests that entered an inbox or an initial-message list
          answered,  \* requests whose reply was sent
          cancelled, \* the shutdown token
          dropped    \* waiting requests whose instance stopped because of shutdown
vars == <<sender, inst, ninst, joinable, sapc, tspc, req, nreq, handled, accepted, answered, cancelled, dropped>>

NoRemote == "-"
NoInst == [r |-> NoRemote, phase |-> "unused", inbox |-> <<>>, left |-> <<>>, waiting |-> {}, known |-> FALSE, ninit |-> 0]
NoReq  == [r |-> NoRemote, kind |-> "-", tag |-> 0, via |-> "-"]
SaIdle == [op |-> "idle", r |-> NoRemote, m |-> 0]
TsIdle == [op |-> "idle", r |-> NoRemote, m |-> 0, i |-> 0]

Init == /\ sender = [r \in Remotes |-> 0] /\ inst = [i \in 1..MaxInst |-> NoInst] /\ ninst = 0
        /\ joinable = {} /\ sapc = SaIdle /\ tspc = TsIdle
        /\ req = [m \in 1..MaxReq |-> NoReq] /\ nreq = 0
        /\ handled = [r \in Remotes |-> <<>>] /\ accepted = {} /\ answered = {}
        /\ cancelled = FALSE /\ dropped = {}

Live(i) == inst[i].phase \in {"running", "deciding"}        \* the inbox is open
SetOf(s) == {s[k] : k \in 1..Len(s)}

\* start_remote_state_actor(r, msgs) + senders.insert
Start(r, msgs) ==
  /\ ninst < MaxInst /\ ninst' = ninst + 1
  /\ inst' = [inst EXCEPT ![ninst + 1] = [r |-> r, phase |-> "running", inbox |-> msgs, left |-> <<>>,
                                           waiting |-> {}, known |-> FALSE, ninit |-> Len(msgs)]]
  /\ sender' = [sender EXCEPT ![r] = ninst + 1]
  /\ accepted' = accepted \cup SetOf(msgs)

\* ---------------------------------------------------------------- socket actor
SaLookup(r, k, t) ==
  /\ sapc.op = "idle" /\ nreq < MaxReq /\ nreq' = nreq + 1
  /\ req' = [req EXCEPT ![nreq + 1] = [r |-> r, kind |-> k, tag |-> t, via |-> "sa"]]
  /\ sapc' = [op |-> IF sender[r] = 0 THEN "starting" ELSE "send", r |-> r, m |-> nreq + 1]
  /\ UNCHANGED <<sender, inst, ninst, joinable, tspc, handled, accepted, answered, cancelled, dropped>>

SaStart ==
  /\ sapc.op = "starting" /\ Start(sapc.r, <<>>) /\ sapc' = [sapc EXCEPT !.op = "send"]
  /\ UNCHANGED <<joinable, tspc, req, nreq, handled, answered, cancelled, dropped>>

SaSend ==
  /\ sapc.op = "send"
  /\ LET i == sender[sapc.r] IN
       /\ Live(i) /\ Len(inst[i].inbox) < InboxCap          \* closed: SendError (SaJoin*); full: wait
       /\ inst' = [inst EXCEPT ![i].inbox = Append(@, sapc.m)]
  /\ accepted' = accepted \cup {sapc.m} /\ sapc' = SaIdle
  /\ UNCHANGED <<sender, ninst, joinable, tspc, req, nreq, handled, answered, cancelled, dropped>>

SendFailed == sapc.op = "send" /\ ~Live(sender[sapc.r])

\* remove_or_restart_actor(r, msgs) for the joined instance i
RemoveOrRestart(i, msgs) ==
  IF msgs = <<>>
    THEN /\ sender' = [sender EXCEPT ![inst[i].r] = 0]
         /\ inst' = [inst EXCEPT ![i].phase = "joined"] /\ UNCHANGED <<ninst, accepted>>
    ELSE /\ ninst < MaxInst /\ ninst' = ninst + 1
         /\ LET ms == IF DropLeftover THEN <<msgs[Len(msgs)]>> ELSE msgs IN
            /\ inst' = [inst EXCEPT ![i].phase = "joined",
                                    ![ninst + 1] = [r |-> inst[i].r, phase |-> "running", inbox |-> ms, left |-> <<>>,
                                                    waiting |-> {}, known |-> FALSE, ninit |-> Len(ms)]]
            /\ accepted' = accepted \cup SetOf(ms)
         /\ sender' = [sender EXCEPT ![inst[i].r] = ninst + 1]

SaJoinOther(i) ==
  /\ SendFailed /\ i \in joinable /\ inst[i].r # sapc.r
  /\ joinable' = joinable \ {i} /\ RemoveOrRestart(i, inst[i].left)
  /\ UNCHANGED <<sapc, tspc, req, nreq, handled, answered, cancelled, dropped>>

SaJoinOwn(i) ==
  /\ SendFailed /\ i \in joinable /\ inst[i].r = sapc.r
  /\ joinable' = joinable \ {i} /\ RemoveOrRestart(i, Append(inst[i].left, sapc.m)) /\ sapc' = SaIdle
  /\ UNCHANGED <<tspc, req, nreq, handled, answered, cancelled, dropped>>

Cleanup(i) ==
  /\ sapc.op = "idle" /\ i \in joinable
  /\ joinable' = joinable \ {i} /\ RemoveOrRestart(i, inst[i].left)
  /\ UNCHANGED <<sapc, tspc, req, nreq, handled, answered, cancelled, dropped>>

\* the historical bug: a fresh actor for a closed sender before the old task is joined
SaRestartBeforeJoin ==
  /\ RestartBeforeJoin /\ SendFailed
  /\ Start(sapc.r, <<sapc.m>>) /\ sapc' = SaIdle
  /\ UNCHANGED <<joinable, tspc, req, nreq, handled, answered, cancelled, dropped>>

\* ---------------------------------------------------------------- other threads
TsLookup(r, k) ==
  /\ tspc.op = "idle" /\ nreq < MaxReq /\ sender[r] # 0 /\ nreq' = nreq + 1
  /\ req' = [req EXCEPT ![nreq + 1] = [r |-> r, kind |-> k, tag |-> 0, via |-> "ts"]]
  /\ tspc' = [op |-> "holding", r |-> r, m |-> nreq + 1, i |-> sender[r]]
  /\ UNCHANGED <<sender, inst, ninst, joinable, sapc, handled, accepted, answered, cancelled, dropped>>

TsSend ==
  /\ tspc.op = "holding" /\ tspc' = TsIdle
  /\ IF Live(tspc.i) /\ Len(inst[tspc.i].inbox) < InboxCap
        THEN inst' = [inst EXCEPT ![tspc.i].inbox = Append(@, tspc.m)] /\ accepted' = accepted \cup {tspc.m}
        ELSE UNCHANGED <<inst, accepted>>                   \* Closed / Full: the caller is told, nothing is lost
  /\ UNCHANGED <<sender, ninst, joinable, sapc, req, nreq, handled, answered, cancelled, dropped>>

\* ---------------------------------------------------------------- actor instance i
Handle(i) ==
  /\ inst[i].phase = "running" /\ inst[i].inbox # <<>>
  /\ ~cancelled \/ inst[i].ninit > 0            \* after Cancel only the initial messages are still handled
  /\ LET m == Head(inst[i].inbox)
         immediate == req[m].kind = "info" \/ req[m].tag > 0 \/ inst[i].known
         wakes == req[m].kind = "resolve" /\ req[m].tag > 0          \* insert_multiple: empty -> non-empty
     IN /\ handled' = [handled EXCEPT ![inst[i].r] = Append(@, m)]
        /\ inst' = [inst EXCEPT ![i].inbox = Tail(@),
                                ![i].ninit = IF @ > 0 THEN @ - 1 ELSE 0,
                                ![i].known = @ \/ wakes,
                                ![i].waiting = IF wakes THEN {} ELSE IF immediate \/ req[m].kind = "netchange" THEN @ ELSE @ \cup {m}]
        /\ answered' = answered \cup (IF immediate /\ req[m].kind # "netchange" THEN {m} ELSE {})
                                 \cup (IF wakes THEN inst[i].waiting ELSE {})
  /\ UNCHANGED <<sender, ninst, joinable, sapc, tspc, req, nreq, accepted, cancelled, dropped>>

LookupFinish(i) ==
  /\ inst[i].phase = "running" /\ inst[i].waiting # {}
  /\ answered' = answered \cup inst[i].waiting /\ inst' = [inst EXCEPT ![i].waiting = {}]
  /\ UNCHANGED <<sender, ninst, joinable, sapc, tspc, req, nreq, handled, accepted, cancelled, dropped>>

IdleDecide(i) ==
  /\ inst[i].phase = "running" /\ inst[i].inbox = <<>> /\ inst[i].waiting = {} /\ ~cancelled
  /\ inst' = [inst EXCEPT ![i].phase = "deciding"]
  /\ UNCHANGED <<sender, ninst, joinable, sapc, tspc, req, nreq, handled, accepted, answered, cancelled, dropped>>

Close(i) ==
  /\ inst[i].phase = "deciding"
  /\ inst' = [inst EXCEPT ![i].phase = "returned", ![i].left = inst[i].inbox, ![i].inbox = <<>>]
  /\ joinable' = joinable \cup {i}
  /\ UNCHANGED <<sender, ninst, sapc, tspc, req, nreq, handled, accepted, answered, cancelled, dropped>>

CloseOnShutdown(i) ==
  /\ cancelled /\ inst[i].phase = "running" /\ inst[i].ninit = 0
  /\ inst' = [inst EXCEPT ![i].phase = "returned", ![i].left = inst[i].inbox, ![i].inbox = <<>>, ![i].waiting = {}]
  /\ dropped' = dropped \cup inst[i].waiting
  /\ joinable' = joinable \cup {i}
  /\ UNCHANGED <<sender, ninst, sapc, tspc, req, nreq, handled, accepted, answered, cancelled>>

\* ---------------------------------------------------------------- environment
Cancel == /\ ~cancelled /\ cancelled' = TRUE
          /\ UNCHANGED <<sender, inst, ninst, joinable, sapc, tspc, req, nreq, handled, accepted, answered, dropped>>

\* on_network_change: one fire-and-forget message per sender in the map, accepted where the inbox is open and has room
NetTargets == {r \in Remotes : sender[r] # 0 /\ Live(sender[r]) /\ Len(inst[sender[r]].inbox) < InboxCap}
NetChange ==
  /\ sapc.op = "idle" /\ nreq + Cardinality(Remotes) <= MaxReq
  /\ LET idx == CHOOSE f \in [Remotes -> 1..Cardinality(Remotes)] : \A a, b \in Remotes : a # b => f[a] # f[b] IN
       /\ nreq' = nreq + Cardinality(Remotes)
       /\ req' = [m \in 1..MaxReq |-> IF \E r \in Remotes : m = nreq + idx[r]
                                        THEN [r |-> CHOOSE r \in Remotes : m = nreq + idx[r], kind |-> "netchange", tag |-> 0, via |-> "ts"]
                                        ELSE req[m]]
       /\ inst' = [i \in 1..MaxInst |-> IF \E r \in NetTargets : sender[r] = i
                                          THEN [inst[i] EXCEPT !.inbox = Append(@, nreq + idx[inst[i].r])] ELSE inst[i]]
       /\ accepted' = accepted \cup {nreq + idx[r] : r \in NetTargets}
  /\ UNCHANGED <<sender, ninst, joinable, sapc, tspc, handled, answered, cancelled, dropped>>

Next == \/ (\E r \in Remotes, t \in Tags : SaLookup(r, "resolve", t)) \/ SaStart \/ SaSend
        \/ (\E i \in 1..MaxInst : SaJoinOther(i)) \/ (\E i \in 1..MaxInst : SaJoinOwn(i))
        \/ (\E i \in 1..MaxInst : Cleanup(i))
        \/ (\E r \in Remotes : TsLookup(r, "info")) \/ TsSend
        \/ (\E i \in 1..MaxInst : Handle(i)) \/ (\E i \in 1..MaxInst : LookupFinish(i))
        \/ (\E i \in 1..MaxInst : IdleDecide(i)) \/ (\E i \in 1..MaxInst : Close(i))
        \/ (\E i \in 1..MaxInst : CloseOnShutdown(i)) \/ Cancel \/ NetChange
Spec == Init /\ [][Next]_vars
\* the design with the historical bug added (refuted by TLC, see RemoteMap_bug1.cfg)
SpecRestartBeforeJoin == Init /\ [][Next \/ SaRestartBeforeJoin]_vars

---------------------------------------------------------------------------
(* C21 *)
LiveInst(r) == {i \in 1..MaxInst : inst[i].r = r /\ Live(i)}
\* at any time at most one live state instance serves a remote
AtMostOneLive == \A r \in Remotes : Cardinality(LiveInst(r)) <= 1
\* the map's sender belongs to the newest instance of the remote; a removed entry leaves no live instance behind
SenderIsNewest == \A r \in Remotes :
   /\ sender[r] # 0 => \A i \in 1..MaxInst : (inst[i].r = r /\ inst[i].phase # "unused") => i <= sender[r]
   /\ sender[r] = 0 => LiveInst(r) = {}
\* requests of one remote are processed in the order they were made, each at most once
\* (try_send requests get their number when the sender is looked up, not when they are enqueued, so
\* only "at most once" is required of them)
IsSa(m) == req[m].via = "sa"
Ordered(s) == \A a, b \in 1..Len(s) : a < b => s[a] < s[b]
NoDup(s) == \A a, b \in 1..Len(s) : a < b => s[a] # s[b]
InOrderOnce == \A r \in Remotes : /\ Ordered(SelectSeq(handled[r], IsSa)) /\ NoDup(handled[r])
                                   /\ \A k \in 1..Len(handled[r]) : req[handled[r][k]].r = r
\* an accepted request is always somewhere: handled, in an inbox, or in a leftover list that will be re-queued
Located(m) == \/ m \in SetOf(handled[req[m].r])
              \/ \E i \in 1..MaxInst : m \in SetOf(inst[i].inbox) \/ (m \in SetOf(inst[i].left) /\ i \in joinable)
NeverDropped == \A m \in accepted : Located(m)
\* a request that waits for the lookup waits at a live instance (its reply channel is not dropped)
WaitingIsServed == \A i \in 1..MaxInst : inst[i].waiting # {} => inst[i].phase = "running"
AnsweredWasHandled == \A m \in answered : m \in SetOf(handled[req[m].r])
\* when everything has settled, every request made through send_to_actor and every accepted try_send was handled and answered
Quiescent == /\ sapc.op = "idle" /\ tspc.op = "idle" /\ joinable = {}
             /\ \A i \in 1..MaxInst : inst[i].inbox = <<>> /\ inst[i].waiting = {} /\ inst[i].phase # "deciding"
Made == {m \in 1..nreq : req[m].via = "sa"} \cup {m \in accepted : req[m].kind # "netchange"}
NoLoss == Quiescent => (\A m \in Made : m \in answered \/ m \in dropped)
\* C21 proper: without an endpoint shutdown no reply channel is ever dropped
NothingDroppedWithoutShutdown == ~cancelled => dropped = {}
\* growth: even while shutting down, every accepted message reaches a handler once things have settled
ShutdownDrains == Quiescent => \A m \in accepted : m \in SetOf(handled[req[m].r])
=============================================================================
