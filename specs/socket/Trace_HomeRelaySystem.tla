---------------------- MODULE Trace_HomeRelaySystem ----------------------
(* Trace validation for the C26 system binding: events recorded while a real RelayActor (and the
   ActiveRelayActors it starts) runs against in-process relay servers
   (hooks c26.* in iroh/src/socket/transports/relay/actor.rs; checks/c26.py merges the events of
   one call into one line and carries the advertised value along) must be a behaviour of
   HomeRelaySystem, the advertised value must equal the model's after every event, and HomeIsChosen
   is evaluated on every reconstructed state.

   Event                                action
     reset                              back to the empty system (a new RelayActor)
     net(pref)                          NetworkChange(pref)   (c26.network_change + the set/clear it performs)
     recv(url, is_home, connected)      Recv(url): the message taken is the head of the model's inbox; the
                                        actor's connection state is taken from the event
     status(url, wrote, wstate)         a set_status call outside Recv (run_once / run): the actor's state
                                        changed; wrote = the URL guard let it through
     foreign_set(url)                   deviation: HomeRelayWatch::set called by someone else than
                                        on_network_change (the advertised URL changes, the choice does not)
     final                              -- *)
EXTENDS HomeRelaySystem, IOUtils, TLCExt
Rec == ndJsonDeserialize(IOEnv.TRACE)
VARIABLES l, word
tvars == <<vars, l, word>>
TInit == Init /\ l = 1 /\ word = 0
IsEvent(e) == l <= Len(Rec) /\ Rec[l].ev = e /\ l' = l + 1
ConnStates == {"Connecting", "Connected", "Disconnected"}

TReset == IsEvent("reset") /\ word' = word + 1
          /\ nchanges' = 0 /\ nsteps' = 0 /\ hist' = <<>> /\ late' = FALSE
          /\ inbox' = [u \in Urls |-> <<>>] /\ home' = None /\ chosen' = NoUrl /\ alive' = {}
          /\ isHome' = [u \in Urls |-> FALSE] /\ conn' = [u \in Urls |-> "Connecting"]
TNet   == IsEvent("net") /\ NetworkChange(Rec[l].url) /\ UNCHANGED word
\* Recv with the connection state as observed
TRecv  == /\ IsEvent("recv")
          /\ LET u == Rec[l].url
                 c == IF Rec[l].connected THEN "Connected" ELSE (IF conn[u] = "Connected" THEN "Connecting" ELSE conn[u]) IN
             /\ u \in alive /\ inbox[u] # <<>> /\ Head(inbox[u]) = Rec[l].is_home
             /\ isHome' = [isHome EXCEPT ![u] = Head(inbox[u])]
             /\ inbox' = [inbox EXCEPT ![u] = Tail(@)]
             /\ conn' = [conn EXCEPT ![u] = c]
             /\ home' = IF Head(inbox[u]) /\ c = "Connected" THEN StatusResult(u, "Connected") ELSE home
             /\ late' = (late \/ (Head(inbox[u]) /\ c = "Connected" /\ chosen # u))
          /\ UNCHANGED <<chosen, nchanges, nsteps, alive, hist, word>>
TStatus == /\ IsEvent("status")
           /\ LET u == Rec[l].url IN
              IF Rec[l].wrote
                THEN /\ home' = [url |-> u, state |-> Rec[l].wstate]     \* (the invariant judges it if u is not the chosen one)
                     /\ conn' = [conn EXCEPT ![u] = Rec[l].wstate]
                ELSE /\ home.url # u /\ UNCHANGED home
                     /\ \E c \in ConnStates : conn' = [conn EXCEPT ![u] = c]
           /\ alive' = alive \cup {Rec[l].url}
           /\ UNCHANGED <<chosen, nchanges, inbox, isHome, nsteps, late, hist, word>>
TForeignSet == /\ IsEvent("foreign_set")
               /\ home' = [url |-> Rec[l].url, state |-> Rec[l].state]
               /\ UNCHANGED <<chosen, nchanges, inbox, isHome, conn, nsteps, alive, late, hist, word>>
TFinal == IsEvent("final") /\ UNCHANGED vars /\ UNCHANGED word
\* every event but reset carries the advertised value after the step
Obs == Rec[l].ev # "reset" => (home'.url = Rec[l].home /\ home'.state = Rec[l].state)
TNext == (TReset \/ TNet \/ TRecv \/ TStatus \/ TForeignSet \/ TFinal) /\ Obs
TSpec == TInit /\ [][TNext]_tvars

ReportViolations == (~HomeIsChosen) => PrintT(<<"C26-VIOLATED", "HomeIsChosen", word, l - 1>>)

Accepted == LET d == TLCGet("stats").diameter - 1 IN
            IF d = Len(Rec) THEN TRUE
            ELSE Print(<<"TRACE-REJECTED at event", d + 1, IF d + 1 <= Len(Rec) THEN Rec[d+1] ELSE "eof">>, FALSE)
=============================================================================
