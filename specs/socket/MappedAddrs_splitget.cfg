\* anti-vacuity: get() checks for the key in one critical section and generates + inserts in a second one without re-checking
SPECIFICATION Spec
INVARIANT ReturnedInjective
CHECK_DEADLOCK FALSE
CONSTANTS
  NoHost = "none"
  NoKey = "nokey"
  NoThread = "nobody"
  Threads = {"t1", "t2"}
  Kinds = {"relay"}
  Keys = {"k1", "k2"}
  Hosts = {"h1", "h2", "h3"}
  MaxCalls = 1
  Locked = TRUE
  SplitGet = TRUE
  Unique = TRUE
