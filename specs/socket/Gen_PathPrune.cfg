INIT GInit
NEXT Next
INVARIANT C23 Emit
CHECK_DEADLOCK FALSE
CONSTANTS
  MAXP = 30
  MAXI = 10
  CodeRule = FALSE
  NLive = 0
  NFail = 0
  NInact = 0
  NRelay = 0
