SPECIFICATION Spec
INVARIANT StatusIsAccepts OrderIndependent AcceptIffValid OnePerAccepted Emit
CHECK_DEADLOCK FALSE
CONSTANTS
  Families = {"v4", "v6"}
  DefaultFlags = {"unset", "true", "false"}
