\* deviation "try_run clears want_update on a held lock" on top of the unlock-first design: refuted
\* (OwedIsQueued / NoLostRequest: a stale done signal wipes a request queued behind a newer run)
SPECIFICATION SpecFixed
INVARIANT TypeOK AtMostOneRun NoStuckWant NoLostRequest
CHECK_DEADLOCK FALSE
CONSTANTS
  UnlockFirst = TRUE
  WithMap = FALSE
  ClearOnHeld = TRUE
  EmitAllUpTo = 100
  KeepHist = FALSE
