----------------------------- MODULE SendPath -----------------------------
(* Growth beyond C18 / C19: the first half of `Sender::poll_send` (iroh/src/socket/transports.rs),
   i.e. how a destination address handed over by QUIC becomes a network path, composed from the
   two pieces specified in MappedAddrs: the classification `MultipathMappedAddr::from` and the
   reverse lookups in the three address maps, running concurrently with get() calls that
   create new synthetic addresses.

     mixed   -> endpoint_addrs.lookup: known  -> SendDatagram message to that endpoint's
                                                 RemoteStateActor ("remote-state", key)
                                       unknown -> error log, Ok(()) : dropped
     relay   -> relay_addrs.lookup:    known  -> FourTuple::Relay (url, endpoint)  ("relay", key)
                                       unknown -> dropped
     custom  -> custom_addrs.lookup:   known  -> FourTuple::Custom                ("custom", key)
                                       unknown -> dropped
     ip      -> FourTuple::Ip (canonical address), then SendDispatch.tla decides the socket

   This module is model-checked only (the glue needs a live `Socket`, see checks/c19.py); its
   two ingredients are bound to the code by C18. *)
EXTENDS MappedAddrs

MapOfClass(c) == CASE c = "mixed" -> "endpoint" [] c = "relay" -> "relay" [] c = "custom" -> "custom"
TargetOfMap(k) == CASE k = "endpoint" -> "remote-state" [] k = "relay" -> "relay" [] k = "custom" -> "custom"

\* the path chosen for destination (abstract prefix a, host h) in the current state of the maps
PathFor(a, h) ==
  LET c == Classify(a) IN
  IF c = "ip" THEN [to |-> "ip", key |-> NoKey]
  ELSE LET m == MapOfClass(c) IN
       IF m \in Kinds /\ rev[m][h] # NoKey THEN [to |-> TargetOfMap(m), key |-> rev[m][h]]
                                          ELSE [to |-> "drop", key |-> NoKey]

SynthAddr(k) == [fam |-> "v6", dev |-> 0, subnet |-> SubnetOfMap(k)]

\* a datagram sent to an address that get(kind, key) has returned goes to exactly that key's
\* endpoint state / relay path / custom address, whatever else is going on concurrently
ReturnedAddrReachesItsKey ==
  \A r \in rets : PathFor(SynthAddr(r[1]), r[3]) = [to |-> TargetOfMap(r[1]), key |-> r[2]]
\* a synthetic address nobody owns is dropped, never mis-delivered, never an error
UnknownSyntheticDropped ==
  \A k \in Kinds, h \in Hosts : rev[k][h] = NoKey => PathFor(SynthAddr(k), h).to = "drop"
\* anything outside the reserved range is an ordinary IP destination
OrdinaryIsIp ==
  \A a \in AbstractAddrs, h \in Hosts : Classify(a) = "ip" => PathFor(a, h).to = "ip"
=============================================================================
