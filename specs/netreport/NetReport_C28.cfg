\* C28: histories of finished reports (latency tables), ages on both sides of MaxAge
SPECIFICATION Spec
INVARIANT PreferredIsMeasured CodeRefinesRequirement BestRecentIsLowest Sticky
INVARIANT Emit
CHECK_DEADLOCK FALSE
CONSTANTS
  TrackSeq = FALSE
  Addrs = {"a"}
  Fams = {"v4"}
  MaxAge = 300
  Dts = {1, 298, 301}
