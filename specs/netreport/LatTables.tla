----------------------------- MODULE LatTables -----------------------------
(* Pure operators shared by RelayLatencies.tla and NetReport.tla.

   Models iroh::net_report::RelayLatencies (iroh/src/net_report/report.rs): three
   BTreeMap<RelayUrl, Duration>, one per probe kind.  A table is a function
   Keys -> Nat where 0 means "no entry" (zero latencies are excluded from the
   model: DESIGN C28 note).

     UpdateRelay(t,k,r,l)   RelayLatencies::update_relay   entry().or_insert(l); keep the smaller
     MergeOp(t,o)           RelayLatencies::merge          update_relay for every entry of `o`,
                                                           iterated https, ipv4, ipv6, each by URL
     Get(t,r)               RelayLatencies::get            lowest latency across the three maps
     Iter(t)                RelayLatencies::iter           https, then ipv4, then ipv6, each by URL

   Relay names are "r1","r2","r3"; the harness maps them to URLs whose string order is the
   same, so that BTreeMap iteration order = RelayOrder. *)
EXTENDS Naturals, Sequences, FiniteSets
CONSTANT NRelays

AllRelays  == <<"r1", "r2", "r3">>
RelayOrder == SubSeq(AllRelays, 1, NRelays)
Relays     == {RelayOrder[i] : i \in 1..NRelays}
KindOrder  == <<"https", "qad4", "qad6">>
Kinds      == {"https", "qad4", "qad6"}
Keys       == Kinds \X Relays

\* all keys in the iteration order of RelayLatencies::iter
IterKeys == [i \in 1..(3 * NRelays) |-> <<KindOrder[((i - 1) \div NRelays) + 1], RelayOrder[((i - 1) % NRelays) + 1]>>]

EmptyTable == [k \in Keys |-> 0]

UpdateRelay(t, kind, r, l) ==
  IF t[<<kind, r>>] = 0 \/ l < t[<<kind, r>>] THEN [t EXCEPT ![<<kind, r>>] = l] ELSE t

RECURSIVE MergeFrom(_, _, _)
MergeFrom(t, o, i) ==
  IF i > Len(IterKeys) THEN t
  ELSE LET k == IterKeys[i] IN
       MergeFrom(IF o[k] = 0 THEN t ELSE UpdateRelay(t, k[1], k[2], o[k]), o, i + 1)
MergeOp(t, o) == MergeFrom(t, o, 1)

Min2(a, b) == IF a = 0 THEN b ELSE IF b = 0 THEN a ELSE IF a < b THEN a ELSE b
MinSet(S)  == CHOOSE x \in S : \A y \in S : x <= y

\* RelayLatencies::get as written: push the three optional values, take the minimum
Get(t, r) == Min2(t[<<"https", r>>], Min2(t[<<"qad4", r>>], t[<<"qad6", r>>]))

Measured(t) == {r \in Relays : \E k \in Kinds : t[<<k, r>>] # 0}
IsEmpty(t)  == Measured(t) = {}

\* the defined entries, in iteration order, as records (also the JSON form of a table)
Iter(t) == LET F[i \in 0..Len(IterKeys)] ==
                 IF i = 0 THEN <<>>
                 ELSE IF t[IterKeys[i]] = 0 THEN F[i - 1]
                      ELSE Append(F[i - 1], [kind |-> IterKeys[i][1], relay |-> IterKeys[i][2], lat |-> t[IterKeys[i]]])
           IN F[Len(IterKeys)]

\* all latencies as a flat vector in IterKeys order (0 = absent)
Flat(t) == [i \in 1..Len(IterKeys) |-> t[IterKeys[i]]]

---------------------------------------------------------------------------
(* Declarative counterparts (what C27 requires of the table operations) *)
PointwiseMin(t, o) == [k \in Keys |-> Min2(t[k], o[k])]
LowestOf(t, r) == IF r \in Measured(t) THEN MinSet({t[<<k, r>>] : k \in {kk \in Kinds : t[<<kk, r>>] # 0}}) ELSE 0
=============================================================================
