\* C27 + C28 together: two rounds of probe reports, each finished (mapping_varies inherited, preferred relay chosen)
SPECIFICATION Spec
INVARIANT GlobalIsFirstObserved MappingVariesRule UdpRule LatencyIsMinimumPerKind
INVARIANT PreferredIsMeasured CodeRefinesRequirement BestRecentIsLowest Sticky
INVARIANT Emit
CHECK_DEADLOCK FALSE
CONSTANTS
  TrackSeq = TRUE
  Fixed = TRUE
  EmitAt = "rounds"
  MaxRounds = 2
  Dts = {1, 301}
  MaxAge = 300
  MaxProbesFirst = 0
  Addrs = {"a", "b"}
  Fams = {"v4", "v6"}
