--------------------------- MODULE RelayLatencies ---------------------------
(* C27 (second sentence): "Merging latency tables is commutative and keeps minima."

   Two iroh::net_report::RelayLatencies values t1, t2 are built with update_relay
   (the only way the code builds them); at every reachable pair the merge operation as
   the code performs it (LatTables!MergeOp: entry-wise update_relay in iteration order)
   is compared with the declarative requirement.

     Upd1(k,r,l) / Upd2(k,r,l)    t1.update_relay(url(r), l, k) / t2.update_relay(..)

   Every reachable pair is printed as a REPLAY case with the expected merge result and
   the expected `get` per relay; harness/src/bin/vh_netrep.rs (c27 merge) builds the two
   real tables, merges in both orders and onto itself, and compares. *)
EXTENDS LatTables, TLC, Json
CONSTANTS Lats,      \* latencies (positive integers, seconds)
          MaxOps     \* bound on the number of update_relay calls over both tables
VARIABLES t1, t2, nops
vars == <<t1, t2, nops>>

Init == t1 = EmptyTable /\ t2 = EmptyTable /\ nops = 0

Upd1(k, r, l) == /\ nops < MaxOps /\ nops' = nops + 1
                 /\ t1' = UpdateRelay(t1, k, r, l) /\ UNCHANGED t2
Upd2(k, r, l) == /\ nops < MaxOps /\ nops' = nops + 1
                 /\ t2' = UpdateRelay(t2, k, r, l) /\ UNCHANGED t1

Next == \/ \E k \in Kinds, r \in Relays, l \in Lats : Upd1(k, r, l)
        \/ \E k \in Kinds, r \in Relays, l \in Lats : Upd2(k, r, l)
Spec == Init /\ [][Next]_vars

---------------------------------------------------------------------------
MergeCommutes    == MergeOp(t1, t2) = MergeOp(t2, t1)
MergeIdempotent  == MergeOp(t1, t1) = t1 /\ MergeOp(MergeOp(t1, t2), t2) = MergeOp(t1, t2)
MergeKeepsMinima == MergeOp(t1, t2) = PointwiseMin(t1, t2)
MergeEmptyUnit   == MergeOp(t1, EmptyTable) = t1 /\ MergeOp(EmptyTable, t1) = t1
GetIsLowest      == \A r \in Relays : Get(t1, r) = LowestOf(t1, r)
\* update_relay keeps the minimum per (kind, relay): an update never raises an entry
UpdateKeepsMin   == [][\A k \in Keys : t1[k] # 0 => (t1'[k] # 0 /\ t1'[k] <= t1[k])]_vars

Emit == PrintT(<<"REPLAY", ToJson([a |-> Iter(t1), b |-> Iter(t2),
                                   merged |-> Flat(PointwiseMin(t1, t2)),
                                   get |-> [i \in 1..NRelays |-> LowestOf(PointwiseMin(t1, t2), RelayOrder[i])]])>>)
=============================================================================
