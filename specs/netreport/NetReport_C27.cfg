\* C27: all sequences of probe reports of one round (ghost sequence kept), then the round is finished
SPECIFICATION Spec
INVARIANT GlobalIsFirstObserved MappingVariesRule UdpRule LatencyIsMinimumPerKind
INVARIANT PreferredIsMeasured CodeRefinesRequirement BestRecentIsLowest Sticky
INVARIANT Emit
CHECK_DEADLOCK FALSE
CONSTANTS
  TrackSeq = TRUE
  Fixed = TRUE
  EmitAt = "probes"
  MaxRounds = 1
  Dts = {1}
  MaxAge = 300
  MaxProbesFirst = 0
