----------------------------- MODULE NetReport -----------------------------
(* C27 + C28 -- iroh::net_report: folding probe reports into a Report and choosing the
   preferred relay over the report history.

   Code modelled (iroh/src/net_report/report.rs, iroh/src/net_report.rs):

     Update(p)      Report::update(&ProbeReport)       one call = one action.  Always records
                                                       the latency (RelayLatencies::update_relay);
                                                       for QAD probes whose observed address has
                                                       the right family: sets udp_vX, the global
                                                       address (first one wins) and
                                                       mapping_varies_by_dest_ipvX.
     Finish(dt)     time passes by dt, then            Client::add_report_history_and_set_preferred_relay(r):
                    the report under construction      inherit mapping_varies from the last report,
                    is finished                        drop history older than MaxAge, merge the rest
                                                       and r into best_recent, pick the relay of r with
                                                       the lowest best_recent, apply the 2/3 hysteresis
                                                       against the previous preferred relay, store r.

   The required choice is declarative (`Allowed`): C28 read weakly on ties (any relay
   with the minimal best latency may be chosen).  `Finish` lets the model take any allowed
   choice, so a behaviour stays explainable whichever tie-break an implementation uses.
   The code's algorithm is modelled operationally (`CodeChoice(fixed)`: the loop over
   RelayLatencies::iter with best_any / old_relay_cur_latency), and TLC checks that it
   refines the requirement: `CodeRefinesRequirement` holds with Fixed = TRUE (the previous
   relay's latency in the current report is its lowest one) and is refuted with
   Fixed = FALSE -- the pinned code, which keeps the last iterated latency
   (https, then qad4, then qad6) -- named deviation "C28_prev_latency_last_iterated".

   Time is in seconds, latencies are positive integers (seconds); the 2/3 rule is the
   exact comparison 3*best > 2*old, which equals the code's `best > old / 3 * 2` on
   Durations of whole seconds.

   `seq` (ghost) is the sequence of probe reports folded into the current report: the
   C27 invariants are stated over it.  `hist` is the list of finished rounds with the
   expectations that harness/src/bin/vh_netrep.rs replays on the real code. *)
EXTENDS LatTables, TLC, Json
CONSTANTS Lats,        \* latencies
          Addrs,       \* observed socket addresses (abstract names)
          Fams,        \* families an observed address may have: subset of {"v4","v6"}
          MaxProbes,   \* probe reports per round (C28 configs: latency entries of the last round)
          MaxProbesFirst, \* C28 configs: latency entries of the rounds before the last
          MaxRounds,   \* finished reports per behaviour
          Dts,         \* time steps between reports (seconds, >= 1)
          MaxAge,      \* 300 s
          TrackSeq,    \* keep the ghost sequence (C27 configs) or not (C28 configs)
          Fixed,       \* TRUE: lowest latency of the previous relay; FALSE: code as written
          EmitAt       \* "probes": print a case when MaxProbes were folded; "rounds": when MaxRounds finished

VARIABLES rep,      \* the Report under construction
          seq,      \* ghost: probe reports folded so far, with the expected report after each
          now,      \* clock
          prev,     \* Reports.prev: set of [t, lat] (BTreeMap<Instant, Report>, only latencies matter)
          last,     \* Reports.last: [has, pref, var4, var6]
          hist      \* finished rounds
vars == <<rep, seq, now, prev, last, hist>>

NoRelay == "none"
EmptyReport == [udp4 |-> FALSE, udp6 |-> FALSE, var4 |-> "none", var6 |-> "none",
                glob4 |-> "none", glob6 |-> "none", lat |-> EmptyTable]

\* the probe reports a round can contain
HttpsReports == [kind : {"https"}, relay : Relays, lat : Lats, fam : {"none"}, addr : {"none"}]
QadReports   == [kind : {"qad4", "qad6"}, relay : Relays, lat : Lats, fam : Fams, addr : Addrs]
ProbeReports == HttpsReports \cup QadReports

Init == /\ rep = EmptyReport /\ seq = <<>> /\ now = 0 /\ prev = {} /\ hist = <<>>
        /\ last = [has |-> FALSE, pref |-> NoRelay, var4 |-> "none", var6 |-> "none"]

---------------------------------------------------------------------------
(* Report::update *)
Varies(old, glob, addr) ==      \* new value of mapping_varies given the stored global address
  IF glob = "none" THEN old
  ELSE IF glob = addr THEN (IF old = "none" THEN "false" ELSE old)
  ELSE "true"

Fold(r, p) ==
  LET r1 == [r EXCEPT !.lat = UpdateRelay(r.lat, p.kind, p.relay, p.lat)] IN
  CASE p.kind = "https" -> r1
    [] p.kind = "qad4" ->
         IF p.fam # "v4" THEN r1      \* IPv6 address from IPv4 QAD: only the latency is kept
         ELSE [r1 EXCEPT !.udp4 = TRUE,
                         !.var4 = Varies(r.var4, r.glob4, p.addr),
                         !.glob4 = IF r.glob4 = "none" THEN p.addr ELSE r.glob4]
    [] p.kind = "qad6" ->
         IF p.fam # "v6" THEN r1
         ELSE [r1 EXCEPT !.udp6 = TRUE,
                         !.var6 = Varies(r.var6, r.glob6, p.addr),
                         !.glob6 = IF r.glob6 = "none" THEN p.addr ELSE r.glob6]

Snapshot(r) == [udp4 |-> r.udp4, udp6 |-> r.udp6, var4 |-> r.var4, var6 |-> r.var6,
                glob4 |-> r.glob4, glob6 |-> r.glob6, lat |-> Flat(r.lat)]

RoundOpen == MaxRounds = 0 \/ Len(hist) < MaxRounds

\* C27 configurations (TrackSeq) bound a round by the number of probe reports; C28
\* configurations by the number of latency entries, each measured once (the order of the
\* reports does not matter to the table, so the ghost sequence is not kept there)
EntryBound == IF Len(hist) + 1 < MaxRounds THEN MaxProbesFirst ELSE MaxProbes
Update(p) ==
  /\ RoundOpen
  /\ IF TrackSeq THEN Len(seq) < MaxProbes
                 ELSE Len(Iter(rep.lat)) < EntryBound /\ rep.lat[<<p.kind, p.relay>>] = 0
  /\ rep' = Fold(rep, p)
  /\ seq' = IF TrackSeq THEN Append(seq, [p |-> p, exp |-> Snapshot(rep')]) ELSE seq
  /\ UNCHANGED <<now, prev, last, hist>>

---------------------------------------------------------------------------
(* add_report_history_and_set_preferred_relay *)
InWindow(t) == {e \in prev : t - e.t <= MaxAge}

\* best_recent as the code computes it: merge the in-window history (BTreeMap order = time
\* order), then the current report
RECURSIVE MergeAll(_, _)
MergeAll(acc, S) == IF S = {} THEN acc
                    ELSE LET e == CHOOSE x \in S : \A y \in S : x.t <= y.t IN
                         MergeAll(MergeOp(acc, e.lat), S \ {e})
BestRecentCode(t, cur) == MergeOp(MergeAll(EmptyTable, InWindow(t)), cur)

\* ... and declaratively: the lowest latency of relay r over the last MaxAge, current report included
BestOf(t, cur, r) ==
  LET vals == {LowestOf(e.lat, r) : e \in InWindow(t)} \cup {LowestOf(cur, r)} IN
  IF vals \ {0} = {} THEN 0 ELSE MinSet(vals \ {0})

\* C28: the choices the property allows for a report with latencies `cur` finished at time t
Allowed(t, cur, prevPref) ==
  LET M    == Measured(cur)
      best == MinSet({BestOf(t, cur, r) : r \in M})
      Arg  == {r \in M : BestOf(t, cur, r) = best}
  IN IF M = {} THEN {NoRelay}
     ELSE IF prevPref = NoRelay \/ prevPref \notin M THEN Arg
     ELSE IF prevPref \in Arg
          THEN \* staying is always right; changing to a tied relay only if the 2/3 rule permits it
               {prevPref} \cup (IF 3 * best <= 2 * LowestOf(cur, prevPref) THEN Arg ELSE {})
          ELSE IF 3 * best <= 2 * LowestOf(cur, prevPref) THEN Arg ELSE {prevPref}

\* the loop of the code over r.relay_latency.iter()
RECURSIVE Loop(_, _, _, _, _, _)
Loop(items, i, br, prevPref, st, fixed) ==
  \* st = [pref, bestAny, oldCur]
  IF i > Len(items) THEN st
  ELSE LET it  == items[i]
           oc  == IF it.relay = prevPref
                    THEN (IF fixed THEN Min2(st.oldCur, it.lat) ELSE it.lat)
                    ELSE st.oldCur
           b   == Get(br, it.relay)
           st1 == [st EXCEPT !.oldCur = oc] IN
       Loop(items, i + 1, br, prevPref,
            IF b # 0 /\ (st.pref = NoRelay \/ b < st.bestAny)
              THEN [st1 EXCEPT !.pref = it.relay, !.bestAny = b] ELSE st1,
            fixed)

CodeChoice(t, cur, prevPref, fixed) ==
  LET st == Loop(Iter(cur), 1, BestRecentCode(t, cur), prevPref,
                 [pref |-> NoRelay, bestAny |-> 0, oldCur |-> 0], fixed) IN
  IF prevPref # NoRelay /\ st.pref # prevPref /\ st.oldCur # 0 /\ 3 * st.bestAny > 2 * st.oldCur
    THEN prevPref ELSE st.pref

Inherit(v, lastv) == IF v = "none" THEN lastv ELSE v

Finish(dt) ==
  /\ MaxRounds > 0 /\ Len(hist) < MaxRounds
  /\ prev # {} \/ \A d \in Dts : dt <= d          \* the first time step is irrelevant
  /\ LET t   == now + dt
         cur == rep.lat
         pp  == IF last.has THEN last.pref ELSE NoRelay
         al  == Allowed(t, cur, pp) IN
     \E choice \in al :
       /\ now' = t
       /\ prev' = InWindow(t) \cup {[t |-> t, lat |-> cur]}
       /\ last' = [has |-> TRUE, pref |-> choice,
                   var4 |-> Inherit(rep.var4, last.var4), var6 |-> Inherit(rep.var6, last.var6)]
       /\ hist' = Append(hist, [dt |-> dt, probes |-> seq, agg |-> Snapshot(rep),
                                lat |-> Iter(cur), prevpref |-> pp, allowed |-> al, choice |-> choice,
                                code |-> CodeChoice(t, cur, pp, TRUE),
                                aswritten |-> CodeChoice(t, cur, pp, FALSE),
                                var4 |-> Inherit(rep.var4, last.var4), var6 |-> Inherit(rep.var6, last.var6),
                                nprev |-> Cardinality(InWindow(t)) + 1])
       /\ rep' = EmptyReport /\ seq' = <<>>

Next == \/ \E p \in ProbeReports : Update(p)
        \/ \E dt \in Dts : Finish(dt)
Spec == Init /\ [][Next]_vars

---------------------------------------------------------------------------
(* C27, over the ghost sequence of the current round *)
Obs(kind, fam) == SelectSeq(seq, LAMBDA e : e.p.kind = kind /\ e.p.fam = fam)
AddrsOf(s) == {s[i].p.addr : i \in 1..Len(s)}

GlobalIsFirstObserved ==
  TrackSeq => /\ rep.glob4 = (IF Obs("qad4", "v4") = <<>> THEN "none" ELSE Obs("qad4", "v4")[1].p.addr)
              /\ rep.glob6 = (IF Obs("qad6", "v6") = <<>> THEN "none" ELSE Obs("qad6", "v6")[1].p.addr)
VariesRule(v, s) == v = (IF Len(s) < 2 THEN "none" ELSE IF Cardinality(AddrsOf(s)) > 1 THEN "true" ELSE "false")
MappingVariesRule ==
  TrackSeq => VariesRule(rep.var4, Obs("qad4", "v4")) /\ VariesRule(rep.var6, Obs("qad6", "v6"))
UdpRule ==
  TrackSeq => (rep.udp4 = (Obs("qad4", "v4") # <<>>)) /\ (rep.udp6 = (Obs("qad6", "v6") # <<>>))
LatencyIsMinimumPerKind ==
  TrackSeq => \A k \in Keys :
     LET ls == {seq[i].p.lat : i \in {j \in 1..Len(seq) : seq[j].p.kind = k[1] /\ seq[j].p.relay = k[2]}} IN
     rep.lat[k] = (IF ls = {} THEN 0 ELSE MinSet(ls))

(* C28 *)
LastRound == hist[Len(hist)]
\* the code's algorithm (with the lowest previous-relay latency) only makes allowed choices;
\* refuted for Fixed = FALSE
CodeRefinesRequirement ==
  hist # <<>> => (IF Fixed THEN LastRound.code ELSE LastRound.aswritten) \in LastRound.allowed
\* the preferred relay is one of the relays measured in that report, or none if none was measured
PreferredIsMeasured ==
  hist # <<>> => LET m == {LastRound.lat[i].relay : i \in 1..Len(LastRound.lat)} IN
                 IF m = {} THEN LastRound.choice = NoRelay ELSE LastRound.choice \in m
\* best_recent as computed by merging equals the declarative lowest-over-window
BestRecentIsLowest ==
  \A r \in Relays : Get(BestRecentCode(now, rep.lat), r) = BestOf(now, rep.lat, r)
\* sticky: the choice changes (while the previous relay is still measured) only when the new
\* relay's best latency is at most 2/3 of the previous relay's lowest latency in this report
Sticky ==
  hist # <<>> =>
    LET h == LastRound
        m == {h.lat[i].relay : i \in 1..Len(h.lat)}
        lowestPrev == MinSet({h.lat[i].lat : i \in {j \in 1..Len(h.lat) : h.lat[j].relay = h.prevpref}}) IN
    (rep = EmptyReport /\ h.prevpref \in m /\ h.choice # h.prevpref) =>
        \* (right after Finish the stored history already contains this report)
        3 * BestOf(now, EmptyTable, h.choice) <= 2 * lowestPrev

---------------------------------------------------------------------------
Emit ==
  \/ EmitAt = "probes" /\ (Len(seq) = MaxProbes =>
        PrintT(<<"REPLAY", ToJson([steps |-> seq])>>))
  \/ EmitAt = "rounds" /\ ((Len(hist) = MaxRounds /\ rep = EmptyReport) =>
        PrintT(<<"REPLAY", ToJson([rounds |-> hist])>>))
  \/ EmitAt = "none"
=============================================================================
