SPECIFICATION Spec
INVARIANT MergeCommutes MergeIdempotent MergeKeepsMinima MergeEmptyUnit GetIsLowest Emit
PROPERTY UpdateKeepsMin
CHECK_DEADLOCK FALSE
