"""Framework for the model-based checks (DESIGN.md §2).

One check = one module checks/cXX.py with META (manifest fields) and run(ctx).
This library runs TLC (model checking / behaviour generation / trace validation),
builds and runs the Rust conformance harness against /repo's working tree,
classifies mismatches against known_findings.json and writes evidence files.

Exit codes of bin/check: 0 property held on everything explored (maybe with
KNOWN-FINDING lines); 1 with `VIOLATION property=<id> replay=<path>`; 2 tool
error / timeout / vacuity / non-conformance without a property violation.
"""
import json
import os
import re
import shutil
import subprocess
import sys
import time

VERIF = os.path.dirname(os.path.dirname(os.path.abspath(__file__)))
SPECS = os.path.join(VERIF, "specs")
HARNESS = os.path.join(VERIF, "harness")
EVIDENCE = os.path.join(VERIF, "evidence")
REPLAYS = os.path.join(VERIF, "replays")
KNOWN = os.path.join(VERIF, "known_findings.json")
TLA_JAR = "/opt/veriftools/tla/tla2tools.jar"
TLA_CP = TLA_JAR + ":/opt/veriftools/tla/CommunityModules-deps.jar"


REPO = os.environ.get("VERIF_REPO") or "/repo"   # development only: run the checks against another checkout


def harness_dir():
    """The harness crate; for VERIF_REPO != /repo a synced copy whose path deps point at that checkout."""
    if os.path.realpath(REPO) == "/repo":
        return HARNESS
    import hashlib
    d = "/var/tmp/vh-alt-" + hashlib.sha1(os.path.realpath(REPO).encode()).hexdigest()[:10]
    os.makedirs(d, exist_ok=True)
    subprocess.run(["rsync", "-a", "--delete", "--exclude", "target", HARNESS + "/", d + "/"], check=True)
    ct = os.path.join(d, "Cargo.toml")
    txt = open(ct).read().replace('"/repo/', '"%s/' % os.path.realpath(REPO))
    open(ct, "w").write(txt)
    return d


class ToolError(Exception):
    """The machinery failed (build, TLC crash, timeout, vacuity, spec drift)."""


class TlcResult:
    def __init__(self):
        self.rc = None
        self.out = ""
        self.generated = 0
        self.distinct = 0
        self.depth = 0
        self.actions = {}      # name -> (distinct, total)
        self.replays = []      # parsed JSON of REPLAY lines
        self.printed = []      # other PrintT tuples, raw
        self.violated = None   # name of violated invariant/property
        self.error = None      # other TLC error text
        self.wall = 0.0
        self.trace_rejected_at = None
        self.trace_len = None

    @property
    def ok(self):
        return self.violated is None and self.error is None and self.trace_rejected_at is None


_RE_STATES = re.compile(r"^(\d+) states generated, (\d+) distinct states found")
_RE_DEPTH = re.compile(r"^The depth of the complete state graph search is (\d+)")
_RE_ACTION = re.compile(r"^<(\w+) line \d+, col \d+ to line \d+, col \d+ of module (\w+)(?: \([\d ]+\))?>: (\d+):(\d+)")
_RE_INV = re.compile(r"^Error: Invariant (\w+) is violated")
_RE_PROP = re.compile(r"^Error: (Temporal properties were violated|Action property (\w+) is violated|.*property.* violated)")
_RE_SIM = re.compile(r"The number of states generated: (\d+)")


def parse_tlc(text, res):
    for line in text.splitlines():
        if line.startswith('<<"REPLAY", '):
            body = line[len('<<"REPLAY", '):]
            if body.endswith(">>"):
                body = body[:-2]
            try:
                inner = json.loads(body)          # TLA string literal == JSON string literal
                res.replays.append(json.loads(inner))
            except Exception as e:                # not a JSON payload: keep raw
                res.printed.append(line)
            continue
        if line.startswith("<<"):
            res.printed.append(line)
            m = re.match(r'^<<"TRACE-REJECTED at event", (\d+)', line)
            if m:
                res.trace_rejected_at = int(m.group(1))
            continue
        m = _RE_STATES.match(line)
        if m:
            res.generated, res.distinct = int(m.group(1)), int(m.group(2))
            continue
        m = _RE_DEPTH.match(line)
        if m:
            res.depth = int(m.group(1))
            continue
        m = _RE_ACTION.match(line)
        if m:
            name = m.group(1)
            d, t = int(m.group(3)), int(m.group(4))
            od, ot = res.actions.get(name, (0, 0))
            res.actions[name] = (od + d, ot + t)
            continue
        m = _RE_INV.match(line)
        if m and res.violated is None:
            res.violated = m.group(1)
            continue
        m = _RE_PROP.match(line)
        if m and res.violated is None:
            res.violated = m.group(2) or "TemporalProperty"
            continue
        m = _RE_SIM.search(line)
        if m:
            res.generated = max(res.generated, int(m.group(1)))
        if line.startswith("Error:") and res.violated is None and res.error is None:
            if "Postcondition" in line or "POSTCONDITION" in line or "postcondition" in line:
                continue
            res.error = line
    m = re.search(r'"TRACE-REJECTED at event",\s*(\d+)', text)
    if m:
        res.trace_rejected_at = int(m.group(1))
    elif re.search(r"Postcondition \w+ .* is false", text):
        res.trace_rejected_at = -1
    return res


class Ctx:
    def __init__(self, prop, tier, seed, replay=None):
        self.prop = prop
        self.tier = tier
        self.seed = seed
        self.replay = replay
        self.t0 = time.time()
        self.scratch = os.environ.get("VERIF_SCRATCH") or "/var/tmp/verif-%s-%d" % (prop, os.getpid())
        os.makedirs(self.scratch, exist_ok=True)
        self.violations = []      # (sig, what, replay_path)
        self.known_hits = {}      # finding id -> count
        self.findings = load_known(prop)
        self.cov = {"states": 0, "transitions": 0, "traces_validated_against_impl": 0,
                    "samples": [], "tlc_runs": [], "evaluations": 0, "distinct_nontrivial": 0}
        self.assumptions = []
        self.level = "model_checking"
        self._distinct = set()
        self._nrep = 0
        self.quiet = False

    # ---------------------------------------------------------------- util
    @property
    def quick(self):
        return self.tier == "quick"

    def pick(self, quick, thorough):
        return quick if self.tier == "quick" else thorough

    def log(self, *a):
        if not self.quiet:
            print("[%s %6.1fs]" % (self.prop, time.time() - self.t0), *a, flush=True)

    def path(self, name):
        return os.path.join(self.scratch, name)

    def write_ndjson(self, name, items):
        p = self.path(name)
        with open(p, "w") as f:
            for it in items:
                f.write(json.dumps(it, separators=(",", ":")) + "\n")
        return p

    def read_ndjson(self, p):
        out = []
        with open(p) as f:
            for line in f:
                line = line.strip()
                if line:
                    out.append(json.loads(line))
        return out

    # ----------------------------------------------------------------- TLC
    def tlc(self, specdir, module, cfg=None, mode="mc", workers=None, timeout=600,
            env=None, sim=None, depth=None, coverage=True, constants=None, heap="4g",
            require_actions=None, expect_violation=None):
        """Runs TLC on specs/<specdir>/<module>.tla.

        mode: "mc" exhaustive (design must hold: a violation is a ToolError unless
              expect_violation names it), "gen" exhaustive with REPLAY output,
              "sim" -simulate num=sim (seeded), "trace" trace validation
              (workers=1, StateDeque; returns accepted / rejected / invariant violated).
        constants: optional dict written into a generated cfg that extends `cfg`.
        """
        sdir = os.path.join(SPECS, specdir)
        cfgfile = os.path.join(sdir, cfg or (module + ".cfg"))
        if constants:
            base = open(cfgfile).read()
            gen = self.path("%s-%d.cfg" % (module, len(self.cov["tlc_runs"])))
            with open(gen, "w") as f:
                f.write(base + "\nCONSTANTS\n")
                for k, v in constants.items():
                    f.write("  %s = %s\n" % (k, v))
            cfgfile = gen
        meta = self.path("tlcmeta-%d" % len(self.cov["tlc_runs"]))
        tmpd = self.path("jtmp")
        os.makedirs(tmpd, exist_ok=True)
        if workers is None:
            workers = 1 if mode in ("trace", "gen", "sim") else 8
        jopts = "-Xss1g -Djava.io.tmpdir=%s" % tmpd
        if mode == "trace":
            jopts += " -Dtlc2.tool.queue.IStateQueue=StateDeque"
        cmd = ["java", "-XX:+UseParallelGC", "-Xmx" + heap, "-cp", TLA_CP, "tlc2.TLC",
               "-workers", str(workers), "-metadir", meta, "-cleanup", "-noGenerateSpecTE",
               "-config", cfgfile]
        if coverage and mode in ("mc", "gen"):
            cmd += ["-coverage", "1"]
        if mode == "sim":
            cmd += ["-simulate", "num=%d" % (sim or 100), "-depth", str(depth or 50), "-seed", str(self.seed)]
        cmd.append(os.path.join(sdir, module + ".tla"))
        e = dict(os.environ)
        e["JAVA_TOOL_OPTIONS"] = jopts
        e["VERIF_SEED"] = str(self.seed)
        if env:
            e.update({k: str(v) for k, v in env.items()})
        t = time.time()
        try:
            p = subprocess.run(cmd, cwd=sdir, env=e, capture_output=True, text=True, timeout=timeout)
        except subprocess.TimeoutExpired:
            raise ToolError("TLC timeout after %ds: %s %s" % (timeout, module, cfgfile))
        finally:
            shutil.rmtree(meta, ignore_errors=True)
        res = TlcResult()
        res.rc = p.returncode
        res.out = p.stdout + p.stderr
        res.wall = time.time() - t
        parse_tlc(p.stdout, res)
        run = {"module": module, "cfg": os.path.basename(cfgfile), "mode": mode, "generated": res.generated,
               "distinct": res.distinct, "depth": res.depth, "wall_s": round(res.wall, 2),
               "actions": {k: v[1] for k, v in res.actions.items()}}
        self.cov["tlc_runs"].append(run)
        if mode in ("mc", "gen", "sim"):
            self.cov["states"] += res.distinct if mode != "sim" else res.generated
            self.cov["transitions"] += res.generated
        if "Parsing or semantic analysis failed" in res.out or "Fatal" in res.out:
            raise ToolError("TLC could not load %s:\n%s" % (module, tail(res.out)))
        if mode in ("mc", "gen", "sim"):
            if res.violated and res.violated != expect_violation:
                raise ToolError("design spec %s/%s violates %s (the model must satisfy its own properties):\n%s"
                                % (specdir, module, res.violated, tail(res.out, 60)))
            if expect_violation and res.violated != expect_violation:
                raise ToolError("expected TLC to refute %s on %s, got %s" % (expect_violation, module, res.violated))
            if res.error:
                raise ToolError("TLC error on %s: %s\n%s" % (module, res.error, tail(res.out, 40)))
            if p.returncode != 0 and not res.violated:
                raise ToolError("TLC exit %d on %s:\n%s" % (p.returncode, module, tail(res.out, 40)))
            if mode in ("mc", "gen") and coverage and not expect_violation:
                dead = [a for a, (d, tot) in res.actions.items() if tot == 0 and a not in ("Init",)]
                if require_actions:
                    dead += [a for a in require_actions if a not in res.actions]
                if dead:
                    raise ToolError("vacuity: actions never taken in %s/%s: %s" % (module, os.path.basename(cfgfile), dead))
        self.log("tlc %s %s [%s]: %d generated, %d distinct, depth %d, %d replays, %.1fs"
                 % (module, os.path.basename(cfgfile), mode, res.generated, res.distinct, res.depth,
                    len(res.replays), res.wall))
        return res

    def tlc_trace(self, specdir, module, tracefile, cfg=None, env=None, timeout=300):
        """Trace validation: returns TlcResult with .ok / .violated / .trace_rejected_at."""
        e = {"TRACE": tracefile}
        if env:
            e.update(env)
        res = self.tlc(specdir, module, cfg=cfg, mode="trace", env=e, timeout=timeout, coverage=False)
        if res.error and res.trace_rejected_at is None and res.violated is None:
            raise ToolError("TLC error validating %s: %s\n%s" % (tracefile, res.error, tail(res.out, 40)))
        if res.ok:
            self.cov["traces_validated_against_impl"] += 1
        return res

    # ------------------------------------------------------------- harness
    def build(self, binname, timeout=3000):
        t = time.time()
        e = dict(os.environ)
        e["CARGO_NET_OFFLINE"] = "true"
        e.pop("RUSTFLAGS", None)
        tdir = os.environ.get("VERIF_TARGET_DIR")     # private target dir for parallel development
        if tdir:
            e["CARGO_TARGET_DIR"] = tdir
        hdir = harness_dir()
        p = subprocess.run(["cargo", "build", "--offline", "--quiet", "--bin", binname], cwd=hdir, env=e,
                           capture_output=True, text=True, timeout=timeout)
        if p.returncode != 0:
            raise ToolError("harness build failed (%s):\n%s" % (binname, tail(p.stderr, 60)))
        self.log("built %s in %.1fs" % (binname, time.time() - t))
        return os.path.join(tdir or os.path.join(hdir, "target"), "debug", binname)

    def run_bin(self, binname, args, timeout=900, env=None, ok_codes=(0,)):
        """Builds (incrementally) and runs a harness binary; returns (stdout, stderr)."""
        exe = self.build(binname)
        e = dict(os.environ)
        e["RUST_BACKTRACE"] = "0"
        e["VERIF_SEED"] = str(self.seed)
        e["VERIF_TIER"] = self.tier
        e.setdefault("RUST_LOG", "off")
        if env:
            e.update({k: str(v) for k, v in env.items()})
        t = time.time()
        try:
            p = subprocess.run([exe] + [str(a) for a in args], cwd=self.scratch, env=e, capture_output=True,
                               text=True, timeout=timeout)
        except subprocess.TimeoutExpired:
            raise ToolError("harness %s %s timed out after %ds" % (binname, args, timeout))
        if p.returncode not in ok_codes:
            raise ToolError("harness %s %s exited %d:\n%s" % (binname, args, p.returncode, tail(p.stderr + p.stdout, 40)))
        self.log("ran %s %s in %.1fs" % (binname, args[0] if args else "", time.time() - t))
        return p.stdout, p.stderr

    # ------------------------------------------------------------ coverage
    def count(self, case_key=None, nontrivial=True, n=1):
        """One evaluated case against the implementation."""
        self.cov["evaluations"] += n
        self.cov["traces_validated_against_impl"] += n
        if nontrivial and case_key is not None:
            self._distinct.add(case_key if isinstance(case_key, str) else json.dumps(case_key, sort_keys=True))

    def sample(self, obj, limit=4):
        if len(self.cov["samples"]) < limit:
            self.cov["samples"].append(obj)

    def assume(self, text):
        if text not in self.assumptions:
            self.assumptions.append(text)

    # ---------------------------------------------------------- violations
    def report(self, sig, what, replay_obj):
        """A property violation observed on the real code.

        sig: dict of short strings classifying input class and wrong-output class;
        an open known finding whose `match` dict is a sub-dict of sig turns this into
        a KNOWN-FINDING line.  Anything else is a VIOLATION with a replay file.
        """
        for f in self.findings:
            if f.get("status") != "open":
                continue
            m = f.get("match", {})
            if all(str(sig.get(k)) == str(v) for k, v in m.items()):
                self.known_hits[f["id"]] = self.known_hits.get(f["id"], 0) + 1
                if self.known_hits[f["id"]] == 1:
                    print("KNOWN-FINDING: property=%s %s [%s]" % (self.prop, f["what"], f["id"]), flush=True)
                return "known"
        if self.replay:
            path = self.replay
        elif len(self.violations) >= 20:
            path = self.violations[-1][2]
        else:
            os.makedirs(REPLAYS, exist_ok=True)
            self._nrep += 1
            path = os.path.join(REPLAYS, "%s-%s-%d.json" % (self.prop, self.tier, self._nrep))
            with open(path, "w") as f:
                json.dump({"property": self.prop, "sig": sig, "what": what, "seed": self.seed,
                           "tier": self.tier, "replay": replay_obj}, f, indent=1, default=str)
        self.violations.append((sig, what, path))
        if len(self.violations) <= 5:
            print("VIOLATION property=%s replay=%s" % (self.prop, path), flush=True)
            print("  what: %s" % what, flush=True)
            print("  sig: %s" % json.dumps(sig, sort_keys=True), flush=True)
        return "violation"

    # ------------------------------------------------------------- finish
    def write_evidence(self):
        if os.path.realpath(REPO) != "/repo":
            return      # development run against another checkout: never touch the committed evidence
        os.makedirs(EVIDENCE, exist_ok=True)
        cov = dict(self.cov)
        cov["distinct_nontrivial"] = max(cov.get("distinct_nontrivial", 0), len(self._distinct))
        if not cov["samples"]:
            cov["samples"] = [{"note": "no case was executed"}]
        if cov["states"] == 0:
            cov.pop("states")
            cov.pop("transitions")
        cov["known_findings_hit"] = self.known_hits
        ev = {"property_id": self.prop, "tier": self.tier, "seed": self.seed, "level": self.level,
              "coverage": cov, "assumptions": self.assumptions,
              "wall_s": round(time.time() - self.t0, 2), "violations": len(self.violations)}
        with open(os.path.join(EVIDENCE, self.prop + ".json"), "w") as f:
            json.dump(ev, f, indent=1, default=str)

    def cleanup(self):
        if not os.environ.get("VERIF_KEEP"):
            shutil.rmtree(self.scratch, ignore_errors=True)


def tail(text, n=25):
    lines = text.strip().splitlines()
    return "\n".join(lines[-n:])


def load_known(prop):
    """Open / fixed findings for `prop` from known_findings.json (committed; never written at run time)."""
    out = []
    if os.path.exists(KNOWN):
        with open(KNOWN) as f:
            out += json.load(f).get("findings", [])
    ddir = os.path.join(VERIF, "known_findings.d")
    if os.path.isdir(ddir):
        for n in sorted(os.listdir(ddir)):
            if n.endswith(".json"):
                with open(os.path.join(ddir, n)) as f:
                    out += json.load(f).get("findings", [])
    return [x for x in out if x.get("property") == prop]


def main(argv):
    import argparse
    import importlib
    ap = argparse.ArgumentParser()
    ap.add_argument("prop")
    ap.add_argument("--tier", default=os.environ.get("VERIF_TIER") or "quick", choices=["quick", "thorough"])
    ap.add_argument("--replay", default=None)
    ap.add_argument("--seed", type=int, default=None)
    a = ap.parse_args(argv)
    seed = a.seed if a.seed is not None else int(os.environ.get("VERIF_SEED") or "1")
    prop = a.prop.upper()
    sys.path.insert(0, VERIF)
    try:
        mod = importlib.import_module("checks.%s" % prop.lower())
    except ModuleNotFoundError:
        print("no check for %s" % prop)
        return 2
    ctx = Ctx(prop, a.tier, seed, replay=a.replay)
    ctx.level = mod.META["level"]
    rc = 0
    try:
        mod.run(ctx)
        if ctx.violations:
            rc = 1
    except ToolError as e:
        print("TOOL-ERROR property=%s: %s" % (prop, e), flush=True)
        rc = 2
    except subprocess.TimeoutExpired as e:
        print("TOOL-ERROR property=%s: timeout %s" % (prop, e), flush=True)
        rc = 2
    finally:
        try:
            if not ctx.replay:
                ctx.write_evidence()
        finally:
            ctx.cleanup()
    if rc == 0:
        ctx.log("OK: held on everything explored (%d evaluations, %d known-finding hits)"
                % (ctx.cov["evaluations"], sum(ctx.known_hits.values())))
    return rc
