"""C36 — DNS server serves a zone only from packets signed by its key (DESIGN.md §6 C36).

Spec: specs/dnsserver/DnsServer.tla — PutRejected / PutNoop / PutUpdate (signature checked against
the key in the request path, upsert order), observation functions Stored(k) and Answer(k, rel, ty)
(zone-label and SOA/NS filter of util.rs), invariants StoreSignedByOwner / AnswersOnlyOwnSigned,
action properties PutIsolation / RejectedChangesNothing.  Packet universes in MC_DnsServer.tla:
P36 (every single record over 4 zone-label classes x 3 names x 6 types, and in the thorough tier
every pair that differs only in zone label or only in type; right / wrong signer; intact / tampered
signature) and P36T (thematic packets for multi-step behaviours).

Binding (mode A, end to end): `vh_dnssrv c36` starts the public `iroh_dns_server::Server::bind` on
127.0.0.1 (HTTP + DNS, redb store in the check's scratch directory), and for every behaviour TLC
generated publishes the concretised packets with `PUT /pkarr/<z32>` (built with simple_dns so that
foreign-zone, out-of-zone, root-name and SOA/NS records can be included; signed with the right key,
a wrong key, or tampered), and after every put compares with the model: the PUT status, `GET
/pkarr/<z32>` of every key (404 / payload byte-for-byte), and the answers of DNS queries over UDP
for every key x name x type (under the configured origin and under the root origin).  Record values
encode signer, timestamp and value id, so an answer record is attributed to the packet it came from.

Adversary added after an independently seeded change went unnoticed (a "known packet" fast path in the PUT handler
that skips verification when signature + timestamp equal the stored packet's): PutReplaySig - the stored packet's
signature and timestamp over a byte-wise smaller / greater payload; every honest-publish-then-replay pair of the
thematic universe is generated exhaustively (C36_replay.cfg) and replay puts also occur in the simulated behaviours.

Mutation self-test (done while building, /var/tmp/mut-c36.diff, undone afterwards): in util.rs
`signed_packet_to_hickory_records_without_origin` the `zone != common_zone` filter disabled
-> VIOLATION (kind "DNS answer", ...: a record published under another zone label is served).
"""
import json
import os

from vlib import ToolError

META = {
    "level": "model_checking",
    "engine": "dns-server",
    "technique": "TLA+ spec DnsServer (put / stored / answer) checked by TLC; TLC behaviours replayed end to end on the real Server over HTTP and DNS/UDP (mode A)",
    "text": "TLC checks on the DnsServer model that whatever is stored and answered under a key comes from a packet whose signature "
            "verified for that key, lies under that key's zone label and is neither SOA nor NS, that a put under one key changes "
            "nothing for any other key and that a rejected put changes nothing; the generated put sequences are then executed against "
            "the real iroh_dns_server::Server on 127.0.0.1 and the PUT status, the stored packet of every key and the DNS answers for "
            "every key, name and type after every put must equal the model's.",
    "note": "Bounded: 2 keys; single puts exhaustively over every single record (thorough: also record pairs) x right/wrong signer x "
            "intact/tampered signature; every (honest put, replayed-signature put) pair of the thematic universe; multi-step behaviours (3 puts, thorough 4) sampled with TLC -simulate from a thematic packet "
            "universe with distinct timestamps per key.  'Rejected' = HTTP 400.  Queries of type SOA / NS are answered by the server's "
            "static zone: only the absence of published records in them is checked.  hickory and axum are exercised, not modelled.",
    "design_ref": "§6 C36",
}


def dedupe(replays):
    seen = {}
    for r in replays:
        seen.setdefault(json.dumps(r, sort_keys=True), r)
    return list(seen.values())


def run(ctx):
    if ctx.replay:
        rep = json.load(open(ctx.replay))["replay"]
        execute(ctx, [rep], "replay")
        return
    ctx.tlc("dnsserver", "MC_DnsServer", cfg="C36_mc.cfg", mode="mc", constants={"Tss": "{1, 2}", "MaxSteps": 2},
            require_actions=["PutRejected", "PutReplaySig", "PutNoop", "PutUpdate", "Query"], timeout=3000, workers=ctx.pick(4, 8))
    table = ctx.tlc("dnsserver", "MC_DnsServer", cfg="C36_table.cfg", mode="gen", constants={"MaxRecs": ctx.pick(1, 2)},
                    require_actions=["PutRejected", "PutUpdate"], timeout=3000)
    sim = ctx.tlc("dnsserver", "MC_DnsServer", cfg="C36_sim.cfg", mode="sim", constants={"MaxSteps": ctx.pick(3, 4)},
                  sim=ctx.pick(150, 1500), depth=ctx.pick(4, 5), timeout=3000)
    # honest publish, then the adversary's put that replays the stored signature + timestamp over another payload
    replay = ctx.tlc("dnsserver", "MC_DnsServer", cfg="C36_replay.cfg", mode="gen", require_actions=["PutUpdate", "PutReplaySig"], timeout=3000)
    rp = [c for c in dedupe(replay.replays) if c["steps"][-1]["signer"] == "replay"]
    if not rp:
        raise ToolError("generator produced no replayed-signature behaviour")
    cases = dedupe(table.replays) + dedupe(sim.replays) + rp
    if len(cases) < 100:
        raise ToolError("generator produced only %d behaviours" % len(cases))
    execute(ctx, cases, "all")
    if not ctx.quick:
        selftest(ctx, [c for c in cases if c["steps"][-1]["res"] != "rejected"][:30], [c for c in cases if c["steps"][-1]["res"] == "rejected"][:10])
    ctx.cov["rule"] = ("single puts: every packet of the universe P36 under every path key (exhaustive); multi-step: TLC -simulate "
                       "behaviours seeded from VERIF_SEED; non-trivial = wrong signer / tampered or replayed signature / foreign or out-of-zone "
                       "record / SOA / NS record / noop")
    ctx.cov["exhaustive"] = False
    ctx.assume("UDP datagrams on 127.0.0.1 are not lost (a lost reply is a tool error after 20 s, never a violation)")
    ctx.assume("ed25519: a packet signed by another key or with a flipped signature bit does not verify")


def execute(ctx, cases, tag):
    inp = ctx.write_ndjson("c36-%s.in" % tag, cases)
    outp = ctx.path("c36-%s.out" % tag)
    ddir = ctx.path("dnsdata-%s" % tag)
    os.makedirs(ddir, exist_ok=True)
    ctx.run_bin("vh_dnssrv", ["c36", "--in", inp, "--out", outp, "--dir", ddir], timeout=3000)
    obs = ctx.read_ndjson(outp)
    if len(obs) != len(cases):
        raise ToolError("harness returned %d observations for %d cases" % (len(obs), len(cases)))
    for c, o in zip(cases, obs):
        steps = c["steps"]
        nontrivial = any(s["res"] != "updated" or any(r["zl"] != s["k"] or r["ty"] in ("SOA", "NS") for r in s["recs"]) for s in steps)
        ctx.count(case_key=[[s["k"], s["signer"], s["sigOk"], s["ts"], sorted((r["zl"], r["rel"], r["ty"], r["v"]) for r in s["recs"])]
                            for s in steps], nontrivial=nontrivial)
        if len(steps) > 1 and nontrivial and any(s["table"] for s in steps):
            ctx.sample({"steps": [{"put_under": s["k"], "signer": s["signer"], "sigOk": s["sigOk"], "ts": s["ts"],
                                   "recs": ["%s/%s/%s/%d" % (r["zl"], r["rel"], r["ty"], r["v"]) for r in s["recs"]],
                                   "res": s["res"], "answers": ["%s/%s/%s=%s" % (t["k"], t["rel"], t["ty"], t["vs"]) for t in s["table"]]}
                                  for s in steps]})
        if not o["ok"]:
            st = steps[min(o["step"], len(steps) - 1)]
            kind = o["what"].split(" for ")[0]
            ctx.report({"kind": kind, "res": st["res"], "valid": bool(st["sigOk"] and st["signer"] == st["k"])},
                       "server deviates from the spec at step %d (%s): expected %s, got %s; steps %s"
                       % (o["step"], o["what"], o["exp"], o["got"],
                          [(s["k"], s["signer"], s["sigOk"], s["ts"], [(r["zl"], r["rel"], r["ty"]) for r in s["recs"]]) for s in steps]), c)


def selftest(ctx, accepted, rejected_cases):
    """Binding self-test: add a record the server does not serve to the expected table / flip the expected status."""
    import copy
    flipped = []
    for c in accepted:
        c = copy.deepcopy(c)
        st = c["steps"][-1]
        st["table"] = [t for t in st["table"] if not (t["k"] == st["k"] and t["rel"] == "_iroh" and t["ty"] == "AAAA")]
        st["table"].append({"k": st["k"], "rel": "_iroh", "ty": "AAAA", "vs": [7]})
        flipped.append(c)
    for c in rejected_cases:
        c = copy.deepcopy(c)
        c["steps"][-1]["res"] = "noop"
        flipped.append(c)
    inp = ctx.write_ndjson("c36-selftest.in", flipped)
    outp = ctx.path("c36-selftest.out")
    ddir = ctx.path("dnsdata-selftest")
    os.makedirs(ddir, exist_ok=True)
    ctx.run_bin("vh_dnssrv", ["c36", "--in", inp, "--out", outp, "--dir", ddir])
    rejected = sum(1 for o in ctx.read_ndjson(outp) if not o["ok"])
    ctx.cov["binding_selftests"] = {"flipped_expectations": len(flipped), "rejected": rejected}
    if rejected != len(flipped):
        raise ToolError("binding self-test: only %d of %d flipped expectations were rejected" % (rejected, len(flipped)))
