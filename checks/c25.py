"""C25 -- Requested network re-probes are never silently dropped (DESIGN.md §6 C25, Appendix A.2).

Spec: specs/socket/DirectAddrUpdate.tla -- the socket Actor (ScheduleRun = re_stun/schedule_run,
OnDone = a done signal taken from the channel -> try_run; `doneq` = signals still pending in the
channel), the net reporter lock, want_update and the spawned run task (Probe, then Unlock/SendDone
as the property needs and the code now does, or SendDone/Unlock as the code was pinned).
TLC: with the guard released first AtMostOneRun, NoStuckWant, OwedIsQueued, NoLostRequest and
want ~> ~want / owed ~> ~owed (weak fairness, no further requests) hold.  Two named deviations are
refuted on the model:
  * UnlockFirst = FALSE (done signal before the guard is dropped): NoStuckWant, by
    req; req; probe; send_done; on_done; unlock;
  * ClearOnHeld = TRUE (try_run clears want_update when it finds the lock held): NoLostRequest, by
    req; probe; unlock; req; req; probe; send_done; on_done(stale: lock held by the newer run, the
    queued request is wiped); unlock; send_done; on_done -- nothing starts.

Binding mode C, end to end: a real Endpoint whose relay map points at a local test relay
(iroh::test_utils::run_relay_server, real net reports); update requests are made with the public
Endpoint::insert_relay(url, same config) (reaches re_stun(RelayMapChange)); cfg-guarded pause
points (before and after `run_done.send` in the run task, before `try_run` in the Actor's
done-signal branch) let the harness (vh_netrep c25) drive the endpoint along the words TLC
enumerates: every complete word with <= 2 requests and, of the longer ones, the family in which a
done signal is handled while a newer run holds the lock and an update is queued behind it (the
signal of run N is held back -- the task waits before its send, or the Actor before try_run --
while run N+1 is started directly and a further request is queued).  The hook events c25.*
(schedule/try_run carry the code's own view of lock and want_update) and the release of the lock
(observed through the strong count of the Arc behind the owned guard) are recorded in the order in
which they happened, followed by a `quiescent` observation after a settle time without stimulus.
TLC validates every recorded trace against Trace_DirectAddrUpdate.tla (either order of the task's
last steps is explainable; a try_run that sees no queued update although the model has one is the
deviation action TLostWant) and evaluates AtMostOneRun, NoStuckWant and NoLostWant on every
reconstructed state.

History: the pinned tree had the first deviation (found by this check, fixed in /repo 816d4e0).
Seeded changes (bin/seedtest, 2026-09-22): seeded/_incoming/C25/patch.diff (try_run clears
want_update on a held lock) -> rc=1, VIOLATION NoLostWant, schedule
stale_done_signal_handled_while_newer_run_holds_lock, 2 runs observed where 3 are due;
patch2.diff (done signal before the lock release again) -> rc=1, VIOLATION NoStuckWant;
unchanged tree -> exit 0, no KNOWN-FINDING line.  Earlier mutation (schedule_run's busy branch
forgets the request) -> VIOLATION NoLostWant.
"""
import json
import re

from vlib import ToolError

META = {
    "level": "model_checking",
    "engine": "socket-actor",
    "technique": "TLA+ spec DirectAddrUpdate model-checked by TLC (unlock-first design holds incl. liveness, pinned order "
                 "and clear-on-held refuted); every word forced end-to-end on a real Endpoint against a local relay with pause points; recorded "
                 "event traces validated by TLC with the C25 invariants on the reconstructed states (mode C)",
    "text": "TLC checks on the model that when the run task releases the net reporter lock before signalling completion, at "
            "most one report runs at a time, no state exists in which an update is wanted while nothing runs and nothing is "
            "left to start it, and a wanted update always leads to a run; and that the pinned order (signal first) violates "
            "this.  Every interleaving of update requests, report completion, done signal, the Actor's reaction and the lock "
            "release up to the bound is then driven on a real endpoint (real net reports against a local relay server) using "
            "pause points; the recorded events, including the code's own view of the lock and of the queued update, are "
            "validated by TLC against the spec and the invariants are evaluated on each reconstructed state; after each word "
            "the endpoint is observed without stimulus to confirm whether a queued update was started.",
    "note": "Update requests are made with insert_relay(url, same config); the periodic timer (20-26 s after the last report) "
            "does not fire within a word.  'As soon as that run finishes' is judged on the state reached when nothing is in "
            "flight any more (no run, no pending done signal): an update still queued there is dropped until some unrelated "
            "later trigger.  Steps of a word that the implementation makes impossible (e.g. unlock after the done signal on a "
            "tree that unlocks first) are skipped and the trace that really happened is validated.",
    "design_ref": "§6 C25, Appendix A.2",
}


def run(ctx):
    if ctx.replay:
        rep = json.load(open(ctx.replay))["replay"]
        outs = run_harness(ctx, [rep], "replay")
        judge(ctx, [rep], outs, "replay")
        return
    mc = dict(MaxReq=ctx.pick(3, 5))
    ctx.tlc("socket", "DirectAddrUpdate", cfg="DirectAddrUpdate_Fixed.cfg", mode="mc", constants=mc,
            require_actions=["ScheduleRun", "OnDone", "Probe", "UnlockF", "SendDoneF"])
    # the two named deviations are refuted on the model
    ctx.tlc("socket", "DirectAddrUpdate", cfg="DirectAddrUpdate_AsWritten.cfg", mode="mc", constants=mc,
            expect_violation="NoStuckWant")
    ctx.tlc("socket", "DirectAddrUpdate", cfg="DirectAddrUpdate_ClearOnHeld.cfg", mode="mc", constants=mc,
            expect_violation="NoLostRequest")
    # growth: the required design with relay-map changes (a run on an empty map returns early) and shutdown
    ctx.tlc("socket", "DirectAddrUpdate", cfg="DirectAddrUpdate_FixedMap.cfg", mode="mc", constants=dict(MaxReq=ctx.pick(4, 6)),
            require_actions=["ScheduleRun", "MapChange", "Close", "OnDone", "Probe", "UnlockF", "SendDoneF"])
    # words of the unlock-first structure: all with <= 2 requests, and of those with 3 (thorough: 4) requests the family in
    # which a done signal is handled while a newer run holds the lock and an update is queued behind it (ghost `stale`)
    res = ctx.tlc("socket", "DirectAddrUpdate", cfg="DirectAddrUpdate_Gen.cfg", mode="gen",
                  constants=dict(MaxReq=ctx.pick(3, 4), EmitAllUpTo=ctx.pick(2, 3)),
                  require_actions=["ScheduleRun", "OnDone", "Probe", "UnlockF", "SendDoneF"])
    words = res.replays
    if not words:
        raise ToolError("DirectAddrUpdate_Gen produced no words")
    if not any(stale_word(w["word"]) for w in words):
        raise ToolError("the generator produced no word with a stale done signal meeting a queued update")
    if not ctx.quick:
        import random
        small = [w for w in words if w["word"].count("req") <= 3]
        big = [w for w in words if w["word"].count("req") > 3]
        random.Random(ctx.seed).shuffle(big)
        words = small + big[:60]
    outs = run_harness(ctx, words, "g")
    accepted = judge(ctx, words, outs, "g")
    binding_selftest(ctx, accepted)
    ctx.cov["rule"] = ("every complete word of req/probe/unlock/send_done/on_done of the unlock-first structure with <= 2 update "
                       "requests, plus every 3-request word in which a done signal is handled while a newer run holds the lock and "
                       "an update is queued (exhaustive for that family), each driven on a real endpoint; a word is non-trivial "
                       "when a request is made while a run is in flight")
    ctx.cov["exhaustive"] = ctx.quick
    ctx.assume("no other source of update requests (link change, port mapping change, periodic timer) fires within a word; "
               "the relay server and the endpoint run on 127.0.0.1")


def run_harness(ctx, words, tag):
    inp = ctx.write_ndjson("c25-%s.in" % tag, [{"word": w["word"]} for w in words])
    outp = ctx.path("c25-%s.out" % tag)
    ctx.run_bin("vh_netrep", ["c25", "--in", inp, "--out", outp], timeout=3000)
    outs = ctx.read_ndjson(outp)
    if len(outs) != len(words):
        raise ToolError("harness returned %d observations for %d words" % (len(outs), len(words)))
    for o in outs:
        if o.get("env_error"):
            raise ToolError("environment/harness problem on word %d (%s): %s; events so far: %s"
                            % (o["case"], words[o["case"]]["word"], o["env_error"], [e["ev"] for e in o["events"]]))
    return outs


def trace_lines(o):
    return [{"ev": "reset", "lock": "", "want": False, "n": 0, "runs": 0}] + o["events"]


def stale_word(word):
    """req while a done signal is pending and the lock is free (starts a run directly), a further req (queued), and only
    then the on_done for the earlier signal."""
    lock, pending, want = False, 0, False
    for st in word:
        if st == "req":
            if lock:
                want = True
            else:
                lock = True
        elif st == "unlock":
            lock = False
        elif st == "send_done":
            pending += 1
        elif st == "on_done":
            if pending and lock and want:
                return True
            pending = max(0, pending - 1)
            if not lock and want:
                lock, want = True, False
    return False


def busy_request(word):
    running = False
    for s in word:
        if s == "req":
            if running:
                return True
            running = True
        elif s == "unlock":
            running = False
        elif s == "on_done":
            pass
    return False


def classify(events, idx, inv):
    """Signature of the first violating state of a word (events[idx] is the event leading to it)."""
    sched, wrong = "other", "other"
    if inv == "NoStuckWant":
        # did the Actor react to the done signal of the run in flight while that run still held the lock?
        last_start = max([k for k, e in enumerate(events[:idx + 1]) if e["ev"] == "run_start"] or [0])
        missed = [k for k, e in enumerate(events[last_start:idx + 1]) if e["ev"] == "try_run" and e["lock"] == "held"]
        if missed and events[idx]["ev"] == "unlocked":
            sched = "done_signal_handled_before_unlock"
        later_start = any(e["ev"] == "run_start" for e in events[idx + 1:])
        wrong = "queued_update_started_later" if later_start else "queued_update_never_started"
    elif inv == "AtMostOneRun":
        sched, wrong = "any", "two_runs_at_once"
    elif inv == "NoLostWant":
        stale = any(e["ev"] == "try_run" and e["lock"] == "held" and e["want"] for e in events[:idx])
        sched = "stale_done_signal_handled_while_newer_run_holds_lock" if stale else "request_while_running"
        wrong = "requested_update_forgotten"
    return {"inv": inv, "at": events[idx]["ev"], "schedule": sched, "wrong": wrong}


def judge(ctx, words, outs, tag):
    lines, owner = [], []
    for wi, o in enumerate(outs):
        for ei, ln in enumerate(trace_lines(o)):
            lines.append(ln)
            owner.append((wi, ei - 1))
    tf = ctx.write_ndjson("c25-%s.trace" % tag, lines)
    res = ctx.tlc_trace("socket", "Trace_DirectAddrUpdate", tf, cfg="Trace_DirectAddrUpdate_Batch.cfg", timeout=1800)
    if res.trace_rejected_at is not None:
        at = res.trace_rejected_at
        wi, ei = owner[at - 1] if 0 < at <= len(owner) else (-1, -1)
        raise ToolError("trace of word %d (%s) not explainable by DirectAddrUpdate at its event %d: %s; events %s"
                        % (wi, words[wi]["word"] if wi >= 0 else "?", ei, lines[at - 1] if 0 < at <= len(lines) else "eof",
                           [e["ev"] for e in outs[wi]["events"]] if wi >= 0 else "?"))
    first = {}
    for p in res.printed:
        m = re.match(r'^<<"C25-VIOLATED", "(\w+)", (\d+), (\d+)>>', p)
        if m:
            wi, ei = owner[int(m.group(3)) - 1]
            if wi not in first or ei < first[wi][0]:
                first[wi] = (ei, m.group(1))
    confirmed, accepted = set(), []
    for wi, (w, o) in enumerate(zip(words, outs)):
        actual = [e["ev"] + ("(%s)" % e["lock"] if e["ev"] in ("schedule", "try_run") else "") for e in o["events"]]
        ctx.count(case_key=actual, nontrivial=busy_request(w["word"]))
        if wi in first:
            ei, inv = first[wi]
            sig = classify(o["events"], ei, inv)
            sk = json.dumps(sig, sort_keys=True)
            if sk not in confirmed:
                one = ctx.write_ndjson("c25-%s-w%d.trace" % (tag, wi), trace_lines(o))
                r1 = ctx.tlc_trace("socket", "Trace_DirectAddrUpdate", one, cfg="Trace_DirectAddrUpdate.cfg")
                if r1.violated not in ("NoStuckWant", "AtMostOneRun", "NoLostWant"):
                    raise ToolError("batch and single-word validation disagree on word %d" % wi)
                confirmed.add(sk)
            ctx.report(sig, "word %s driven on a real endpoint: events %s: %s is false after event %d (%s): an update was requested "
                            "during a run, and no run is in flight and no done signal is pending to start it; runs observed "
                            "until quiescence: %d"
                       % (w["word"], actual, inv, ei + 1, o["events"][ei]["ev"], o["events"][-1]["runs"]), {"word": w["word"]})
        else:
            accepted.append((w, o))
            if busy_request(w["word"]):
                ctx.sample({"word": w["word"], "events": actual, "skipped_steps": o["skipped"],
                            "runs": o["events"][-1]["runs"]})
    return accepted


def binding_selftest(ctx, accepted):
    """Corrupted accepted traces must be rejected by the trace spec."""
    cand = [(w, o) for (w, o) in accepted if any(e["ev"] == "try_run" for e in o["events"])]
    if not cand:
        raise ToolError("no accepted word with a try_run to corrupt")
    w, o = cand[-1]
    before = ctx.cov["traces_validated_against_impl"]
    ev = [dict(e) for e in o["events"]]
    i = next(k for k, e in enumerate(ev) if e["ev"] == "try_run")
    ev[i]["want"] = not ev[i]["want"]                      # the code's view of want_update falsified
    r = ctx.tlc_trace("socket", "Trace_DirectAddrUpdate", ctx.write_ndjson("c25-selftest1.trace", trace_lines({"events": ev})),
                      cfg="Trace_DirectAddrUpdate.cfg")
    if r.trace_rejected_at is None and r.violated is None:
        raise ToolError("binding self-test: a trace with a falsified want_update was accepted")
    ev = [dict(e) for e in o["events"]]
    ev[-1]["runs"] += 1                                    # one more run claimed than observed
    r = ctx.tlc_trace("socket", "Trace_DirectAddrUpdate", ctx.write_ndjson("c25-selftest2.trace", trace_lines({"events": ev})),
                      cfg="Trace_DirectAddrUpdate.cfg")
    if r.trace_rejected_at is None and r.violated is None:
        raise ToolError("binding self-test: a trace with a wrong number of runs was accepted")
    ctx.cov["traces_validated_against_impl"] = before
    ctx.log("binding self-test: 2 corrupted traces rejected")
