"""C33 — Pkarr timestamps are strictly increasing across threads (DESIGN.md §6 C33, Appendix A.12).

Spec: specs/dns/PkarrTs.tla (Timestamp::now(): clock read, load of LAST_TIMESTAMP, compare-exchange
loop; Strict = FALSE is the non-strict mutant), trace spec Trace_PkarrTs.tla, clock-reading
generator MC_PkarrTs.tla.

 1. TLC model-checks the loop for 2 threads x 2 calls and 3 threads x 1 call (thorough: 3 x 2 atomic, 2 x 3) with arbitrary clock
    readings (incl. backwards): Distinct, RealTimeOrder, CasOrder, NotBehindClock, LastIsMax; the
    atomic form (one linearization step per call, used by the trace spec) satisfies the same
    invariants; the mutant `max(micros, last)` is refuted (Distinct).
 2. TLC enumerates the assignments of wall-clock readings to the calls of each thread; the harness
    (vh_dns c33) runs each on real threads released together, forcing the readings through the
    cfg(iroh_verif) hook `iroh_dns::pkarr::VERIF_CLOCK`, plus free-running runs on the system clock
    (8 threads x N calls).  Every call is bracketed by a global sequence counter.
 3. TLC validates the merged trace: accepted iff hidden linearization steps can be placed between
    each call's begin and end such that every returned value is max(reading, previous value + 1)
    (for system-clock calls: strictly greater than the previous value).  A rejected trace means no
    strictly increasing linearization exists: a violation.

Mutation self-test (2026-09-22): `micros.max(last + 1)` -> `micros.max(last)` in Timestamp::now
=> VIOLATION (trace rejected at the `end` of the first call whose forced reading is not ahead of
LAST: run with readings t2:[3,..] t1:[10,3] returned 10 twice); undone => exit 0.

The coordinator's two seeded race mutants (seeded/_incoming/C33: fetch_max two-step; `next` computed
once outside the retry loop — rebased onto the hook lines in seeded/dns/C33_incoming_*_rebased_on_hook.diff,
because patch.diff inserts at the same place as the hook) are both reported: VIOLATION
no_linearization (two calls of one round return the same value), first rejected run after ~70 runs.

Binding self-test (every run): an accepted trace in which one call is made to return the value of
an earlier call must be rejected by TLC.
"""
import json
import random

from vlib import ToolError

META = {
    "level": "model_checking",
    "engine": "pkarr",
    "technique": "TLA+ spec PkarrTs checked by TLC (CAS loop, non-strict mutant refuted); real threads with TLC-generated forced "
                 "clock readings and on the system clock; call traces validated by TLC with a hidden linearization step per call",
    "text": "TLC checks for all interleavings of concurrent Timestamp::now() calls with arbitrary (also backward) clock readings "
            "that values are distinct, respect real-time order and increase in CAS order. Real threads then call "
            "Timestamp::now() with clock readings forced through a cfg-guarded hook (all assignments TLC enumerates) and on "
            "the real clock; the begin/end/value trace of every run must be accepted by TLC as a behaviour of the spec.",
    "note": "Model: <= 3 threads x 2 calls, small clock domain. Implementation: interleavings are whatever the OS produces "
            "(threads are released together); a trace is judged by existence of a linearization, so the verdict does not "
            "depend on timing. Values are compared relative to the run's base (LAST at the start of the run).",
    "design_ref": "§6 C33, A.12",
}


def tset(n):
    return "{" + ", ".join('"t%d"' % i for i in range(1, n + 1)) + "}"


def run(ctx):
    inv_acts = ["Begin", "Load", "Cas"]
    # 1. model checking
    for (cfg, acts, nt, nc, clock) in [("PkarrTs.cfg", inv_acts, 2, 2, "{0, 1, 3}"), ("PkarrTs.cfg", inv_acts, 3, 1, "{0, 1, 3}"),
                                       ("PkarrTsAtomic.cfg", ["Begin", "Lin"], 2, 2, "{0, 1, 3}"),
                                       ("PkarrTsAtomic.cfg", ["Begin", "Lin"], 3, 1, "{0, 1, 3}")]:
        ctx.tlc("dns", "PkarrTs", cfg=cfg, mode="mc", workers=4, timeout=3000, require_actions=acts,
                constants={"Threads": tset(nt), "Calls": nc, "Clock": clock, "Strict": "TRUE"})
    if not ctx.quick:
        # 6.1e6 states (every state distinct: the history variables make the state graph a tree)
        ctx.tlc("dns", "PkarrTs", cfg="PkarrTsAtomic.cfg", mode="mc", workers=8, timeout=6000, require_actions=["Begin", "Lin"], heap="12g",
                constants={"Threads": tset(3), "Calls": 2, "Clock": "{0, 2}", "Strict": "TRUE"})
        ctx.tlc("dns", "PkarrTs", cfg="PkarrTs.cfg", mode="mc", workers=8, timeout=6000, require_actions=inv_acts, heap="12g",
                constants={"Threads": tset(2), "Calls": 3, "Clock": "{0, 2}", "Strict": "TRUE"})
    ctx.tlc("dns", "PkarrTs", cfg="PkarrTs.cfg", mode="mc", workers=1, timeout=600, coverage=False,
            constants={"Threads": tset(2), "Calls": 2, "Clock": "{0, 1, 3}", "Strict": "FALSE"}, expect_violation="Distinct")

    # 2. forced clock readings out of TLC, free runs
    runs = []
    if ctx.replay:
        rep = json.load(open(ctx.replay))["replay"]
        runs = [dict(rep["run"], id=i) for i in range(50)]
    else:
        rnd = random.Random(ctx.seed)
        plans = [(2, 2, "{0, 1, 3, 10}", ctx.pick(4, 20)), (3, 2, "{0, 2, 5}", ctx.pick(1, 6))]
        if not ctx.quick:
            plans.append((4, 3, "{0, 7}", 4))
        for (nt, nc, clock, reps) in plans:
            res = ctx.tlc("dns", "MC_PkarrTs", cfg="Gen_PkarrTs.cfg", mode="gen", coverage=False, timeout=900,
                          constants={"Threads": tset(nt), "Calls": nc, "Clock": clock})
            asg = res.replays
            rnd.shuffle(asg)
            for a in asg:
                ctx.count(case_key=a["clocks"], nontrivial=a["backwards"], n=0)
                for _ in range(reps):
                    runs.append({"id": len(runs), "mode": "forced", "clocks": a["clocks"]})
            ctx.sample({"forced_clock_assignment": asg[0]["clocks"], "threads": nt, "calls_per_thread": nc, "repetitions": reps})
        for _ in range(ctx.pick(2, 8)):
            runs.append({"id": len(runs), "mode": "free", "threads": 8, "calls": ctx.pick(1000, 4000)})
    inp = ctx.write_ndjson("c33.in", runs)
    outp = ctx.path("c33.out")
    ctx.run_bin("vh_dns", ["c33", "--in", inp, "--out", outp], timeout=1800)
    lines = ctx.read_ndjson(outp)

    # split into runs
    per = {}
    cur = None
    for ln in lines:
        if ln["ev"] in ("reset", "broken", "panic"):
            cur = ln["run"]
            per[cur] = [ln]
        else:
            per[cur].append(ln)
    good = []
    ncalls = 0
    for r in runs:
        ls = per.get(r["id"])
        if ls is None:
            raise ToolError("no output for run %s" % r["id"])
        if ls[0]["ev"] == "panic":
            ctx.report({"kind": "panic", "mode": r["mode"]}, "Timestamp::now() panicked: %s" % ls[0]["what"], {"run": r})
            continue
        if ls[0]["ev"] == "broken":
            ctx.report({"kind": "value_not_above_base", "mode": r["mode"]},
                       "a generated timestamp is not greater than one generated before the run: %s" % ls[0]["what"], {"run": r})
            continue
        n = sum(1 for x in ls if x["ev"] == "end")
        ncalls += n
        ctx.count(case_key=None, n=1)
        good.append((r, ls))
    ctx.log("%d runs, %d calls" % (len(good), ncalls))
    free = [ls for r, ls in good if r["mode"] == "free"]
    if free:
        ls = free[0]
        overl = overlap(ls)
        ctx.sample({"free_run": "8 threads on the system clock", "calls": sum(1 for x in ls if x["ev"] == "end"),
                    "max_calls_in_flight": overl, "first_events": ls[1:7]})
    validate(ctx, good)
    ctx.cov["rule"] = ("forced runs: every assignment of clock readings (TLC-enumerated) to the calls of 2-3 threads, several "
                       "repetitions each; free runs: 8 threads on the system clock; non-trivial = a thread's readings go backwards")
    ctx.cov["exhaustive"] = False
    ctx.assume("the harness-side sequence counter (SeqCst fetch_add before and after each call) orders events consistently with real time")


def overlap(ls):
    cur = best = 0
    for x in ls:
        if x["ev"] == "begin":
            cur += 1
            best = max(best, cur)
        elif x["ev"] == "end":
            cur -= 1
    return best


def validate(ctx, good):
    attempts = 0
    while good:
        attempts += 1
        flat, owner = [], []
        for idx, (r, ls) in enumerate(good):
            for ln in ls:
                flat.append(ln)
                owner.append(idx)
        tf = ctx.write_ndjson("c33-trace-%d.ndjson" % attempts, flat)
        res = ctx.tlc_trace("dns", "Trace_PkarrTs", tf, timeout=3000)
        if res.violated:
            # an invariant of the spec is false on the state reconstructed from the observations
            ctx.report({"kind": "invariant", "inv": res.violated}, "invariant %s is false on the reconstructed state" % res.violated,
                       {"trace_file": tf})
            return
        if res.ok:
            ctx.log("trace of %d runs (%d events) accepted" % (len(good), len(flat)))
            if not ctx.replay:
                selftest(ctx, good)
            return
        at = res.trace_rejected_at
        if at is None or at < 1 or at > len(flat):
            raise ToolError("trace rejected at an unknown position:\n%s" % res.out[-2000:])
        idx = owner[at - 1]
        r, ls = good[idx]
        ev = flat[at - 1]
        if ev["ev"] == "reset":
            raise ToolError("trace rejected at a reset event: spec drift: %s" % ev)
        ctx.report({"kind": "no_linearization", "mode": r["mode"], "at": ev["ev"]},
                   "no strictly increasing linearization: the trace of run %s cannot be explained at %s (events of the run: %s)"
                   % (r["id"], json.dumps(ev), json.dumps(ls[:40])), {"run": r, "events": ls[:200]})
        good = good[:idx] + good[idx + 1:]
        if attempts >= 4:
            return


def selftest(ctx, good):
    """Binding self-test: an accepted trace in which one call returns the value of the call before it
    (a duplicate timestamp) must be rejected."""
    import copy
    sub = [copy.deepcopy(ls) for (r, ls) in good if r["mode"] == "forced"][:200]
    flat, target = [], None
    for ls in sub:
        ends = [i for i, e in enumerate(ls) if e["ev"] == "end"]
        if target is None and len(ends) >= 2:
            vals = sorted(ls[i]["v"] for i in ends)
            victim = [i for i in ends if ls[i]["v"] == vals[1]][0]
            t = ls[victim]["t"]
            for j in range(victim, -1, -1):            # the matching begin carries the value too
                if ls[j]["ev"] == "begin" and ls[j]["t"] == t:
                    ls[j]["v"] = vals[0]
                    break
            ls[victim]["v"] = vals[0]
            target = len(flat) + victim + 1
        flat += ls
    if target is None:
        return
    tf = ctx.write_ndjson("c33-selftest.ndjson", flat)
    res = ctx.tlc_trace("dns", "Trace_PkarrTs", tf, timeout=1500)
    if res.ok or res.trace_rejected_at is None or res.trace_rejected_at > target:
        raise ToolError("binding self-test: a trace with a duplicated timestamp (event %s) was accepted / rejected too late (%s)"
                        % (target, res.trace_rejected_at))
    ctx.log("binding self-test: duplicated timestamp rejected at event %d (corrupted event %d)" % (res.trace_rejected_at, target))
    ctx.cov["binding_selftests"] = ["duplicate_timestamp"]
