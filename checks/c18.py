"""C18 — Mapped addresses form a stable bijection (DESIGN.md §6 C18).

Spec: specs/socket/MappedAddrs.tla — the three `AddrMap`s (mutex, forward map, reverse map,
generate-until-unique loop) with one action per step of `get` / `lookup`, and
`MultipathMappedAddr::from` as a decision table over abstract addresses.

What one run does
  1. TLC model-checks the design (mutex held across lookup / generate / both inserts, tiny host
     space so the generator collides): Bijection, Stable, ReturnedInjective, LookupCorrect.
  2. TLC refutes ReturnedInjective when the mutex is dropped (Locked = FALSE) and when the
     uniqueness loop is dropped (Unique = FALSE) — anti-vacuity.
  3. Mode B: the harness (vh_socktx c18 --mode hammer) hammers the REAL AddrMaps through the
     cfg-guarded `AddrMaps` wrapper from 4 (quick) / 8 (thorough) OS threads with get/lookup
     on all three maps, half of the traces with the generated host part narrowed to a few
     values (cfg-guarded `HOST_SPACE`, so the uniqueness loop really collides), logging a
     `call` record before and a `ret` record after every call with a global sequence number.
     specs/socket/Trace_MappedAddrs.tla replays the trace: call/ret records are bound to
     CallGet / CallLookup / Return, the critical section is replayed by the design actions as
     hidden steps (TLC searches the linearization), the property invariants are evaluated on
     every reconstructed state, and each get() result must be classified as its own kind.
  3b. Contention phase (added after an independently written change - AddrMap behind an RwLock, get() checks
     for the key under the read lock and inserts under the write lock without re-checking - was missed by the
     random hammering, which rarely has two threads inside get() on the same FRESH key at the same instant):
     4 (quick) / 6 threads are released together by a spin barrier in each of 20 000 / 150 000 rounds onto
     get(kind, key_r) of a brand-new key, then look their address up again.  Each round is an independent
     sub-history (own key); the harness emits every round whose observations disagree (several addresses for
     the key, a lookup not answering the key, an address seen in another round; capped at 10) plus 60 / 200
     evenly spaced agreeing rounds, and TLC validates the emitted call/return records against the spec.  The
     spec switch SplitGet = TRUE is that very variant and is refuted by TLC.  Measured with that change applied
     (bin/seedtest, seeded/_incoming/C18/patch.diff): 5 269 - 11 107 of 40 000 rounds disagree (5 runs) and
     744 - 1 457 of 5 000 (5 runs), i.e. 13 - 29 % of the rounds on a loaded 16-core box, so 20 000 rounds catch it
     essentially always; the check reported VIOLATION class address_changed.  Unchanged tree: 0 disagreeing rounds.
  4. Mode A: TLC prints the classification table (189 abstract addresses: family x position of a
     deviating prefix byte x subnet id); the harness concretises each row several ways (+1/-1
     deviation, host bits all-0 / all-1 / random, ports) and calls the real
     `MultipathMappedAddr::from`; kind and carried address must match.

A trace the spec cannot explain is a property violation here (every logged observable is the
result of a get or lookup, and the spec allows any fresh address for a new key): it is
reported with the class of the first unexplained record.

Mutation self-test done while building: the uniqueness test of the generate loop disabled
(`if !inner.lookup.contains_key(&candidate) || true`) -> `VIOLATION property=C18`, class
address_shared (a get() on the custom map returned an address another key already owned; found on
the traces with the narrowed host space); undone -> exit 0.  The design's example mutation
(reverse map not updated on insert) was deliberately not applied to the shared live /repo (it
breaks every relay path of the other builders' end-to-end runs); the same detection path is shown
by the binding self-test "lookup hit replaced by none" (rejected by the trace spec).
Binding self-tests (1 in quick, 4 in thorough): one field of an accepted trace corrupted / one
record removed -> the trace spec must reject; the results are in the evidence file.
"""
import json
import random

from vlib import ToolError

META = {
    "level": "model_checking",
    "engine": "socket-addrs",
    "technique": "TLA+ spec MappedAddrs checked by TLC (3 maps, mutex, generate-until-unique; unlocked / non-unique variants "
                 "refuted); multi-thread hammering of the real AddrMaps validated against the spec by TLC trace validation "
                 "(mode B, linearization searched); classification table replayed on MultipathMappedAddr::from (mode A)",
    "text": "TLC explores all interleavings of concurrent get and lookup calls on the address maps, step by step (lock, forward "
            "lookup, generate a candidate until it is unused, insert forward, insert reverse, unlock), with a host space small "
            "enough to force generator collisions, and checks that forward and reverse maps stay mutually inverse, that no entry "
            "is ever overwritten, that callers never see two addresses for one key or one address for two keys, and that a reverse "
            "lookup returns exactly the owner and finds every address already handed out. The real maps are then hammered from "
            "several threads; the recorded call/return history must be a linearizable behaviour of that spec (TLC searches the "
            "linearization and evaluates the invariants on every reconstructed state). The classification of socket addresses "
            "into endpoint / relay / custom / ordinary IP is checked as a TLC-generated decision table on concretised addresses.",
    "note": "Quick: 12 traces x 4 threads x 25 calls. Half of the traces narrow the generated host part to 4 values through the "
            "cfg-guarded HOST_SPACE hook so that the uniqueness loop is exercised. Linearization is judged from call/return "
            "records (sequence number taken before the call and after its return). Classification: every byte of the 6-byte "
            "prefix deviating by +-1, subnet ids 0,1,2,3,4,256,257,259,65535, IPv4 and IPv4-mapped look-alikes.",
    "design_ref": "§6 C18",
}

BASE = {"NoHost": '"none"', "NoKey": '"nokey"', "NoThread": '"nobody"'}


def S(xs):
    return "{" + ", ".join('"%s"' % x for x in sorted(xs)) + "}"


def run(ctx):
    # 1. design
    mc = ctx.pick(
        dict(BASE, Threads=S(["t1", "t2"]), Kinds=S(["relay"]), Keys=S(["k1", "k2"]), Hosts=S(["h1", "h2", "h3"]), MaxCalls=2,
             Locked="TRUE", Unique="TRUE", SplitGet="FALSE"),
        dict(BASE, Threads=S(["t1", "t2", "t3"]), Kinds=S(["relay"]), Keys=S(["k1", "k2"]), Hosts=S(["h1", "h2", "h3"]), MaxCalls=2,
             Locked="TRUE", Unique="TRUE", SplitGet="FALSE"))
    ctx.tlc("socket", "MappedAddrs", cfg="MappedAddrs.cfg", mode="mc", constants={k: v for k, v in mc.items() if k not in BASE},
            timeout=3000, require_actions=["CallGet", "CallLookup", "Acquire", "GetLookup", "GetGenerate", "GetInsertFwd",
                                           "GetInsertRev", "LookupRev", "Release", "Return"])
    # 2. anti-vacuity
    ctx.tlc("socket", "MappedAddrs", cfg="MappedAddrs_unlocked.cfg", mode="mc", workers=2, coverage=False,
            expect_violation="ReturnedInjective")
    ctx.tlc("socket", "MappedAddrs", cfg="MappedAddrs_nounique.cfg", mode="mc", workers=2, coverage=False,
            expect_violation="ReturnedInjective")
    # ... and the read-then-write-lock variant of get(): miss check and insert in two critical sections
    ctx.tlc("socket", "MappedAddrs", cfg="MappedAddrs_splitget.cfg", mode="mc", workers=2, coverage=False,
            expect_violation="ReturnedInjective")
    # growth (thorough only): SendPath.tla composes classification + reverse lookups into the destination -> path step of
    # Sender::poll_send, with all three maps and concurrent get()s (1.27e6 states; model-checked only, see its header)
    if not ctx.quick:
        ctx.tlc("socket", "SendPath", cfg="SendPath.cfg", mode="mc", timeout=3000, coverage=False)
    # 4. classification table (mode A)
    res = ctx.tlc("socket", "Gen_Classify", cfg="Gen_Classify.cfg", mode="gen", coverage=False)
    rows = res.replays
    if len(rows) < 100:
        raise ToolError("classification table too small: %d rows" % len(rows))
    nvar = ctx.pick(8, 40)
    cases = [dict(r, variant=(ctx.seed * 1000 + i * 41 + v)) for i, r in enumerate(rows) for v in range(nvar)]
    inp = ctx.write_ndjson("c18-cls.in", cases)
    outp = ctx.path("c18-cls.out")
    ctx.run_bin("vh_socktx", ["c18", "--mode", "classify", "--in", inp, "--out", outp])
    obs = ctx.read_ndjson(outp)
    if len(obs) != len(cases):
        raise ToolError("classification: %d observations for %d cases" % (len(obs), len(cases)))
    for c, o in zip(cases, obs):
        ctx.count(case_key=["cls", c["fam"], c["dev"], c["subnet"]], nontrivial=c["fam"] != "v4")
        if o["kind"] != c["kind"] or not o["carried_ok"]:
            ctx.report({"kind": "classification", "fam": c["fam"], "dev": c["dev"], "subnet": c["subnet"], "expected": c["kind"],
                        "got": o["kind"] if o["kind"] != c["kind"] else "carried-address-differs"},
                       "MultipathMappedAddr::from(%s) is %s (carried address ok: %s), the spec says %s"
                       % (o["addr"], o["kind"], o["carried_ok"], c["kind"]), c)
        elif c["kind"] != "ip" and len(ctx.cov["samples"]) < 2:
            ctx.sample({"classify": o["addr"], "kind": o["kind"]})
    # 3. hammer + trace validation (mode B)
    threads = ctx.pick(4, 8)
    ntr = ctx.pick(6, 12)
    ops = ctx.pick(25, 30)
    cfgs = [{"traces": ntr, "threads": threads, "ops": ops, "keys": 3, "host_space": 4, "seed": ctx.seed * 7 + 1},
            {"traces": ntr, "threads": threads, "ops": ops, "keys": 5, "host_space": 0, "seed": ctx.seed * 7 + 2}]
    if ctx.replay:
        trace = json.load(open(ctx.replay))["replay"]["trace"]
    else:
        inp = ctx.write_ndjson("c18-hammer.in", cfgs)
        outp = ctx.path("c18-trace.ndjson")
        ctx.run_bin("vh_socktx", ["c18", "--mode", "hammer", "--in", inp, "--out", outp])
        trace = ctx.read_ndjson(outp)
    res = validate(ctx, trace, "c18-trace.ndjson")
    ntraces = sum(1 for r in trace if r["ev"] == "reset")
    if res.ok:
        ctx.cov["traces_validated_against_impl"] -= 1          # counted per trace below, not per TLC run
        for i in range(ntraces):
            ctx.count(case_key=["trace", i], nontrivial=True)
        gets = [r for r in trace if r["ev"] == "ret" and r["name"] == "get"]
        ctx.sample({"trace_records": len(trace), "traces": ntraces, "threads": threads,
                    "first_records": [[r["ev"], r["t"], r["name"], r["kind"], r["key"], r["host"], r["rhost"], r["rkey"]] for r in trace[:6]],
                    "lookups_found": sum(1 for r in trace if r["ev"] == "ret" and r["name"] == "lookup" and r["rkey"] != "nokey"),
                    "lookups_none": sum(1 for r in trace if r["ev"] == "ret" and r["name"] == "lookup" and r["rkey"] == "nokey"),
                    "gets": len(gets)})
    else:
        explain(ctx, trace, res)
    # 3b. contention phase: K threads released together by a spin barrier onto get() of one brand-new key per round
    if not ctx.replay:
        contention(ctx, ctx.pick(4, 6), ctx.pick(20000, 150000), ctx.pick(60, 200))
    # binding self-tests: a corrupted / shortened accepted trace must be rejected
    if res.ok and not ctx.replay:
        selftests(ctx, trace, ctx.pick(1, 4))
    ctx.cov["rule"] = ("design spec exhaustive at the stated bounds; %d hammer traces (%d threads x %d calls, 3 maps) validated by "
                       "trace validation; classification table exhaustive over the abstract address space x %d concretisations"
                       % (ntraces, threads, ops, nvar))
    ctx.assume("a call's critical section lies between its call record and its ret record (sequence numbers are taken before the "
               "call and after it returned)")
    ctx.assume("narrowing the generated host part (HOST_SPACE hook) changes only which candidates the generator proposes")


def contention(ctx, threads, rounds, sample):
    """Races on fresh keys.  The harness runs all rounds and emits, as independent `reset`-separated segments, every
    round whose observations disagree (capped) plus an evenly spaced sample of the others; the verdict on the emitted
    call/return records is TLC's (trace validation against MappedAddrs, invariants on every reconstructed state)."""
    inp = ctx.write_ndjson("c18-contend.in", [{"threads": threads, "rounds": rounds, "sample": sample, "max_suspicious": 10}])
    outp = ctx.path("c18-contend.ndjson")
    out, _ = ctx.run_bin("vh_socktx", ["c18", "--mode", "contend", "--in", inp, "--out", outp])
    summ = json.loads(out.strip().splitlines()[-1])
    trace = ctx.read_ndjson(outp)
    res = validate(ctx, trace, "c18-contend.ndjson")
    nseg = sum(1 for r in trace if r["ev"] == "reset")
    ctx.cov["contention"] = dict(summ, threads=threads, segments_validated=nseg if res.ok else 0)
    if res.ok:
        ctx.cov["traces_validated_against_impl"] -= 1
        for i in range(nseg):
            ctx.count(case_key=["contend", i], nontrivial=True)
    else:
        explain(ctx, trace, res, extra={"rounds_disagreeing": summ["suspicious"], "rounds": summ["rounds"]})


def universe(trace):
    nr = [r for r in trace if r["ev"] != "reset"]
    return dict(BASE, Threads=S({r["t"] for r in nr}), Kinds=S({r["kind"] for r in nr}),
                Keys=S({r["key"] for r in nr} - {"nokey"} | {"k1"}),
                Hosts=S(({r["host"] for r in nr} | {r["rhost"] for r in nr}) - {"none"} | {"h0"}))


def validate(ctx, trace, name):
    return _trace(ctx, ctx.write_ndjson(name, trace), universe(trace))


def _trace(ctx, path, u):
    res = ctx.tlc("socket", "Trace_MappedAddrs", cfg="Trace_MappedAddrs.cfg", mode="trace", env={"TRACE": path}, coverage=False,
                  constants={k: v for k, v in u.items() if k not in BASE}, timeout=1800)
    if res.error and res.trace_rejected_at is None and res.violated is None:
        raise ToolError("TLC error validating %s: %s" % (path, res.error))
    if res.ok:
        ctx.cov["traces_validated_against_impl"] += 1
    return res


def explain(ctx, trace, res, extra=None):
    """Turns an invariant violation / rejection into a report with a class for the first unexplained record."""
    if res.violated:
        ctx.report({"kind": "invariant", "invariant": res.violated},
                   "invariant %s is false on a state reconstructed from the real call/return history" % res.violated,
                   {"trace": trace})
        return
    at = res.trace_rejected_at
    if at is None or at < 1 or at > len(trace):
        raise ToolError("trace rejected at an unknown position: %r" % at)
    r = trace[at - 1]
    start = max(i for i in range(at) if trace[i]["ev"] == "reset" or i == 0)
    seg = trace[start:at - 1]
    cls = "unexplained"
    if r["ev"] == "ret" and r["name"] == "get":
        if r["cls"] != {"endpoint": "mixed", "relay": "relay", "custom": "custom"}.get(r["kind"]):
            cls = "wrong_kind"
        elif any(x["ev"] == "ret" and x["name"] == "get" and x["kind"] == r["kind"] and x["key"] == r["key"] and x["rhost"] != r["rhost"] for x in seg):
            cls = "address_changed"
        elif any(x["ev"] == "ret" and x["name"] == "get" and x["kind"] == r["kind"] and x["key"] != r["key"] and x["rhost"] == r["rhost"] for x in seg):
            cls = "address_shared"
    elif r["ev"] == "ret" and r["name"] == "lookup":
        cls = "lookup_none" if r["rkey"] == "nokey" else "lookup_wrong_key"
    elif r["ev"] == "call" and r["name"] == "get":
        cls = "address_shared_or_changed"
    end = next((i for i in range(at - 1, len(trace)) if trace[i]["ev"] == "reset"), len(trace) - 1)
    ctx.report({"kind": "trace_rejected", "class": cls, "op": r["name"], "map": r["kind"]},
               "the real call/return history is not a behaviour of the AddrMap spec: record %d %s%s"
               % (at, json.dumps(r), " (%s)" % json.dumps(extra) if extra else ""),
               {"trace": trace[start:end + 1], "rejected_at": at - start})


def selftests(ctx, trace, n):
    rnd = random.Random(ctx.seed)
    done = []
    rets = [i for i, r in enumerate(trace) if r["ev"] == "ret" and r["name"] == "lookup" and r["rkey"] != "nokey"]
    gets = [i for i, r in enumerate(trace) if r["ev"] == "ret" and r["name"] == "get"]
    plans = [("lookup result replaced by another key", "corrupt_lookup"), ("a get's ret record removed", "drop_ret"),
             ("get result replaced by another key's address", "swap_get"), ("lookup hit replaced by none", "lookup_none")]
    for what, kind in plans[:n]:
        t = [dict(r) for r in trace]
        if kind == "corrupt_lookup" and rets:
            i = rnd.choice(rets)
            t[i]["rkey"] = "k1" if t[i]["rkey"] != "k1" else "k2"
        elif kind == "drop_ret" and gets:
            del t[rnd.choice(gets)]
        elif kind == "swap_get" and len(gets) > 1:
            i = rnd.choice(gets)
            other = next((j for j in gets if t[j]["kind"] == t[i]["kind"] and t[j]["key"] != t[i]["key"] and j < i), None)
            if other is None:
                continue
            t[i]["rhost"] = t[other]["rhost"]
        elif kind == "lookup_none" and rets:
            i = rnd.choice(rets)
            t[i]["rkey"] = "nokey"
        else:
            continue
        res = _trace(ctx, ctx.write_ndjson("c18-selftest-%s.ndjson" % kind, t), universe(t))
        if res.ok:
            ctx.cov["traces_validated_against_impl"] -= 1
            raise ToolError("binding self-test failed: trace with %s was accepted" % what)
        done.append("%s -> rejected at record %s%s" % (what, res.trace_rejected_at, " (invariant %s)" % res.violated if res.violated else ""))
    ctx.cov["binding_selftests"] = done
