"""C04 — Relay forwards datagrams only to the addressed endpoint, with the true sender (DESIGN.md §6 C04/C05/C06).

Spec: specs/relay/RelayServer.tla.  Model checking (MC_RelayServer_fwd.cfg, forwarding instance: a1,a2
of A, b1 of B): invariants PacketsWellAddressed (sender id = id of the pushing connection, addressed to
the receiving connection's id, contents class unchanged), AtMostOnce, FifoPerSender, WireClean and the
action property AcceptedByActiveOnly, over all interleavings of registrations, client frames, closes,
queue-full drops.  Binding (mode A): every behaviour of the generator instances is replayed on the real
`Clients` registry through hand-encoded client frames; compared per step and per connection: the
datagram frames received, in order, with sender id, frame id and frame class (the harness derives the
class by comparing kind, ECN byte, segment size and contents with what it put into the frame).

The `handover` family holds the window between the cancellation of the active connection and its unregistration
open on the real code (the actor cannot finish its final flush while its client does not read) and sends
into it: the datagram must be accepted by the still-active connection, not by the displaced one.
Seeded change (recorded 2026-09-22): seeded/_incoming/C04/patch2.diff (`ClientState::receiver()` queues on the
most recent inactive connection once the active one is shutting down) -> VIOLATION kind=wrong_receiver
(bin/seedtest); seeded/_incoming/C04/patch.diff (burst reversed) stays caught.

Mode B: seeded random workloads on a multi-thread runtime, event logs validated against
Trace_RelayServer.tla (every delivered datagram must be explained by a push of the attributed sender to
the receiver's id that the receiver's active connection accepted, at most once, in per-sender order).

Mutation self-test (recorded 2026-09-22): `Clients::send_packet` passing `dst` instead of `src` to
`try_send_packet` -> `VIOLATION property=C04`, sig kind=sender_id (mode A: "frame a2 -> B normal":
expected b1 to receive [A, 1, normal], observed [B, 1, normal]); the same mutation is also rejected by
trace validation (mode B: "no interleaving of the spec explains event .. recv b1 dg src B");
undone -> exit 0.
(Mutations are applied to a private copy of /repo and /verif under /var/tmp, built with a trimmed copy of
the harness crate, so that the shared /repo is never left mutated while others build against it.)
"""
import json

from checks import relayreg_common as rc

META = {
    "level": "model_checking",
    "engine": "relay-server",
    "technique": "TLA+ spec RelayServer checked by TLC (forwarding instance); every behaviour of the generator instances "
                 "replayed on the real Clients registry and client actors with quiescence between calls (mode A)",
    "text": "TLC checks on the model, for all interleavings of connects (including a duplicate connection of one id), client "
            "frames of all datagram classes, closes and queue-full drops, that every datagram on its way to or received by a "
            "connection was pushed by the connection it is attributed to, is addressed to the receiver's id, carries the "
            "pushed contents, exists at most once, keeps per-sender order, and was accepted only by the destination's "
            "active connection.  The same model generates call sequences with the datagram frames every client must have "
            "received after each call; they are executed on iroh-relay's Clients registry (hand-encoded frames: single, "
            "batch, ECN, largest forwardable sizes) and compared.",
    "note": "Delivery itself is not required by C04 (a full queue or an unconnected destination drops); what is required is "
            "decided by the model for each call sequence.  Datagrams the relay cannot forward (empty, over the forward "
            "limit) are C05's subject and are not generated here.  A batch frame with segment size 0 is not generated "
            "(the decoder maps it to 'no segment size').  Contents are sampled (seeded), not enumerated.",
    "design_ref": "§6 C04/C05/C06",
}

CONNS = {"a1": "A", "a2": "A", "b1": "B"}


def describe(g, i, got, exp):
    st = g["steps"][i] if i < len(g["steps"]) else {"op": "end", "c": "none", "cls": "none"}
    kind = "datagram_delivery"
    if got is not None and exp is not None:
        for c in got:
            gl, el = got[c], exp.get(c, [])
            if gl == el:
                continue
            gi = {tuple(x)[1]: tuple(x) for x in gl}
            ei = {tuple(x)[1]: tuple(x) for x in el}
            if len(gl) != len(set(x[1] for x in gl)):
                kind = "duplicate"
            elif set(gi) - set(ei):
                kind = "wrong_receiver"
            elif set(ei) - set(gi):
                kind = "missing"
            elif any(gi[k][0] != ei[k][0] for k in gi):
                kind = "sender_id"
            elif any(gi[k][2] != ei[k][2] for k in gi):
                kind = "contents"
            else:
                kind = "order"
            break
    sig = {"kind": kind, "op": st["op"], "cls": st.get("cls", "none")}
    what = ("forwarding deviates from the spec at call %d (%s %s -> %s %s) of %s: expected %s, observed %s"
            % (i, st["op"], st["c"], st.get("dst"), st.get("cls"),
               [" ".join(x for x in k if x != "none") for k in g["key"]], json.dumps(exp), json.dumps(got)))
    return sig, what


def families(ctx):
    base = {"Keys": '{"A", "B"}', "FrameDsts": '{"A", "B"}', "FixUndeliverable": "TRUE"}
    fam = [
        # name, cap, constants
        ("order", 2, dict(base, PktCap=2, MsgCap=2, MaxFrames=ctx.pick(3, 4), MaxSteps=ctx.pick(5, 6), Classes='{"normal"}',
                          Ops='{"connect", "frame", "close"}')),
        ("classes", 2, dict(base, PktCap=2, MsgCap=2, MaxFrames=2, MaxSteps=4,
                            Classes='{"normal", "batch", "ecn", "maxm1", "bmaxm1"}', Ops='{"connect", "frame"}')),
        ("full", 1, dict(base, PktCap=1, MsgCap=1, MaxFrames=ctx.pick(3, 4), MaxSteps=ctx.pick(7, 8), Classes='{"normal"}',
                         FrameDsts='{"B"}', Ops='{"connect", "frame", "stall"}')),
        # hand-over window (instance fwd3: a1 displaced by a2, peer b1): a connection whose client does not read
        # cannot finish the final flush after Clients::disconnect cancelled it, so it stays the registered active
        # connection; what peers send in that window is accepted by *it* (and lost with it), never by the
        # displaced a1, which is promoted (Healthy) only by the unregister after the client reads again
        ("handover", 2, dict(base, PktCap=2, MsgCap=2, MaxFrames=ctx.pick(2, 3), MaxSteps=ctx.pick(7, 8), Classes='{"normal"}',
                             FrameDsts='{"A"}', Ops='{"connect", "frame", "stall", "disconnect"}')),
    ]
    return fam


def run(ctx):
    if ctx.replay:
        rep = json.load(open(ctx.replay))["replay"]
        if "events" in rep:
            rc.random_traces(ctx, "C04", 0, 0)
            return
        g = {"key": tuple((s["op"], s["c"], s["dst"], s["cls"]) for s in rep["steps"]), "steps": rep["steps"],
             "outcomes": rep["outcomes"], "prefix_outcomes": rep.get("prefix_outcomes")}
        cap = rep.get("cap", 2)
        obs = rc.execute(ctx, "c04-replay", [g], CONNS, cap)
        rc.judge(ctx, "C04", [g], obs, describe)
        return
    # 1. the design satisfies the property (exhaustive on the forwarding instance)
    ctx.tlc("relay", "MC_RelayServer", cfg="MC_RelayServer_fwd.cfg", timeout=ctx.pick(900, 3000),
            constants={"PktCap": 1, "MsgCap": 1, "MaxFrames": ctx.pick(1, 2), "Classes": '{"normal", "batch"}',
                       "FixUndeliverable": "TRUE"},
            require_actions=["Register", "ClientFrame", "Close", "TakePacket", "TakeMsg", "Unregister", "NotifyGone"])
    ctx.tlc("relay", "MC_RelayServer", cfg="MC_RelayServer_tiny.cfg", timeout=ctx.pick(900, 3000),
            constants={"PktCap": 1, "MsgCap": 1, "MaxFrames": ctx.pick(2, 3), "Classes": '{"normal", "maxm1"}',
                       "FixUndeliverable": "TRUE"},
            require_actions=["Register", "ClientFrame", "Close", "TakePacket", "Unregister", "NotifyGone"])
    # 2. behaviours -> implementation
    for name, cap, consts in families(ctx):
        scen, seen_ops, res = rc.generate(ctx, "Gen_RelayServer_fwd3.cfg" if name == "handover" else "Gen_RelayServer_fwd.cfg",
                                          consts)
        if "frame" not in seen_ops:
            raise rc.ToolError("vacuity: generator instance %s has no client frame" % name)
        if name == "full" and not any(len(g["outcomes"]) >= 1 and any(s["op"] == "unstall" for s in g["steps"]) for g in scen):
            raise rc.ToolError("vacuity: no stall/unstall sequence generated")
        if name == "handover":
            window = [("stall", "a2"), ("disconnect", "a2"), ("frame", "b1"), ("unstall", "a2")]
            if not any([(k[0], k[1]) for k in g["key"]][3:7] == window for g in scen):
                raise rc.ToolError("vacuity: the hand-over window (stall a2, disconnect a2, frame b1 -> A, unstall a2) was not generated")
        for g in scen:
            g["cap"] = cap
        obs = rc.execute(ctx, "c04-%s" % name, scen, CONNS, cap)
        bad = rc.judge(ctx, "C04", scen, obs, describe)
        if not ctx.quick and not bad:
            rc.binding_selftest(ctx, "C04", scen, obs)
        for g, o in zip(scen, obs):
            frames = [s for s in g["steps"] if s["op"] == "frame"]
            if len(frames) >= 2 and any(len(v) for v in (o.get("wire") or {}).values()):
                ctx.sample(rc.sample_of(g, o, rc.p_c04), limit=4)
                break
        ctx.log("replayed %d call sequences (%d TLC behaviours) of instance fwd/%s" % (len(scen), len(res.replays), name))
    # 3. randomized multi-thread runs -> trace validation (mode B)
    evs, res, kinds = rc.random_traces(ctx, "C04", ctx.pick(8, 40), ctx.pick(60, 100))
    if res.ok and kinds.get("recv-dg", 0) == 0:
        raise rc.ToolError("vacuity: no datagram was delivered in the random runs")
    if not ctx.quick and res.ok:
        rc.trace_selftest(ctx, "C04", evs)
    ctx.cov["rule"] = ("every maximal call sequence of the four generator instances (order: connects/frames/closes; classes: "
                       "all forwardable datagram classes; full: stalled receiver with queue capacity 1; handover: duplicate "
                       "connection, active one cancelled by Clients::disconnect while its client does not read) up to MaxSteps "
                       "(exhaustive); non-trivial when it contains a frame, a close or a disconnect")
    ctx.cov["exhaustive"] = True
    ctx.assume("quiescence: after each call the actors are polled until no stream half is touched for 4 scheduler rounds")
    ctx.assume("datagram contents, ECN and segment size are represented by frame classes; one seeded concrete frame per class and id")
