"""C41 — Router shutdown returns only after handlers and endpoint are shut down (DESIGN.md §6 C41, App. A.14).

Spec: specs/router/RouterShutdown.tla (run loop + n concurrent `Router::shutdown` callers on clones, the code as
written and the required design selected by `Fixed`).

1. TLC model-checks the required design (Fixed = TRUE, 3 callers, every interleaving, with liveness: every call
   returns) and refutes the code-as-written variant (anti-vacuity: `ReturnMeansDone` bites).
2. TLC enumerates every *drivable* behaviour (action constraint `Drivable`: what a test can force through the public
   API) of the required design: a schedule (`start c`, `ep_close`, `loop_stop`, `gate`, `exit`) together with the
   observation `(handlersDone, endpointClosed)` the spec determines for every caller at its return.  The same
   enumeration for the as-written variant gives the model's *prediction* of a deviation and the return statement it
   takes (`via`), which is only used to classify a violation (known-finding signature), never to excuse one.
3. harness/src/bin/vh_router.rs (c41) executes each schedule on a real Router/Endpoint pair on 127.0.0.1 through the
   public API only: a ProtocolHandler whose `shutdown` waits on a harness-controlled gate, callers on router clones
   polled in the schedule's order, each recording `(all handlers' shutdown completed, Endpoint::is_closed())` in
   the poll in which `Router::shutdown` returned.
4. Every observation is compared with the one the required design determines.

Callers are interchangeable in the spec; the quick tier runs one representative per renaming class (callers renamed in
order of their first `start`), the thorough tier runs every schedule, on a current-thread and on a multi-thread runtime.

Fix and mutation self-test (2026-09-22), run in a private mirror (/var/tmp/rt-iso: `git archive HEAD` of /repo + a copy
of /verif whose harness path-depends on it; builds took 5-25 min on the loaded machine, too long to keep /repo
changed): with proposed_fixes/C41.diff applied the quick check passes with 0 known-finding hits; with the finding's
status set to "fixed" and /var/tmp/c41-mut.diff on top (re-adds `if self.is_shutdown() { return Ok(()); }`) the check
prints VIOLATION (second concurrent caller returns from its first poll with handlersDone=False); undone -> exit 0.
On the pinned tree the same observation is the known finding C41_second_shutdown_returns_early.

Classification (reworked 2026-09-22 after the independent change seeded/_incoming/C41/patch2.diff, where the
`endpoint.accept() == None` arm `return`s instead of `break`ing, so no ProtocolHandler::shutdown ever runs): a run-loop
step that does not happen within its bound (handlers' shutdown not started, not finished, loop not exited) no longer
aborts the schedule.  The schedule goes on; a `Router::shutdown` caller that returns with handlersDone = FALSE is the
VIOLATION (sig.handlers_shutdown_started tells whether any handler shutdown had even been called).  Stalls without
any wrong return, calls that never return and per-schedule environment errors are collected and become a tool error
only when the run reports no violation.  The spec has the matching refuted switch `ExitOnAcceptNone`.

Thorough tier additionally: 4 callers model-checked, every schedule on both runtimes, and the growth specification
RouterLifecycle.tla (connections in flight during shutdown) with its own driver (`vh_router life`), see lifecycle().
"""
import json

from vlib import ToolError

META = {
    "level": "model_checking",
    "engine": "router",
    "technique": "TLA+ spec RouterShutdown checked by TLC (safety + liveness, as-written variant refuted); every drivable "
                 "TLC schedule executed on the real Router through the public API (mode C/A)",
    "text": "TLC explores every interleaving of up to three concurrent Router::shutdown calls on clones with the run "
            "loop (cancel seen / endpoint closed from outside, slow handler shutdown, endpoint close, exit) and checks "
            "that a call returns only with all handlers shut down and the endpoint closed.  Each schedule that can be "
            "forced from outside is then run against the real Router with a gated ProtocolHandler::shutdown; every "
            "caller's observation at return must equal the model's.",
    "note": "Weak reading: only what a caller can observe at the moment shutdown() returns is judged (handlers' shutdown "
            "futures completed, Endpoint::is_closed()); a call that never returns is reported as a tool error "
            "(non-conformance), not as a violation, because C41 is a safety statement.  Interleavings inside one poll "
            "of shutdown() (multi-thread runtime) are covered by the model checking only.",
    "design_ref": "§6 C41, App. A.14",
}

CALLERS3 = '{"c1", "c2", "c3"}'


def split(word):
    """word -> (schedule ops, {caller: (h, e, via)})"""
    ops = [{"op": e["op"], "c": e["c"]} for e in word if e["op"] != "ret"]
    rets = {e["c"]: (e["h"], e["e"], e["via"]) for e in word if e["op"] == "ret"}
    return ops, rets


def key(ops):
    return " ".join(o["op"] + (":" + o["c"] if o["c"] else "") for o in ops)


def canonical(ops):
    """True iff callers first start in the order c1, c2, c3 (representative of the renaming class)."""
    order = [o["c"] for o in ops if o["op"] == "start"]
    return order == ["c%d" % (i + 1) for i in range(len(order))]


def table(res, what):
    """schedule key -> (ops, rets); the expectation must be a function of the schedule."""
    t = {}
    for b in res.replays:
        ops, rets = split(b["word"])
        k = key(ops)
        if k in t and t[k][1] != rets:
            raise ToolError("%s model: schedule '%s' does not determine the observations (%s vs %s)" % (what, k, t[k][1], rets))
        t[k] = (ops, rets)
    return t


class Soft(Exception):
    """Non-conformance that is not a C41 violation (a call that never returns, an environment problem of one
    schedule).  Collected; a tool error only if the run reports no violation."""


def judge(sched, expected, aswritten, obs):
    """Compares the observations of one executed schedule with the required design's.  Returns a list of
    (sig, what) for property-relevant mismatches; raises Soft for non-conformance that is not a violation.

    Steps of the run loop that did not happen within their bound (`stalled`: e.g. the handlers' shutdown never started
    after the endpoint was closed from outside) do not end a run: the callers go on, and a caller that returns while
    the handlers are not shut down is the violation.  A stall with every caller's observation as required is an
    environment / conformance matter (Soft)."""
    out = []
    if obs.get("tool_error"):
        raise Soft("c41 driver, schedule '%s': %s" % (key(sched), obs["tool_error"]))
    got = {o["c"]: o for o in obs["callers"]}
    if set(got) != set(expected):
        raise Soft("schedule '%s': callers observed %s, expected %s" % (key(sched), sorted(got), sorted(expected)))
    starts = [o["c"] for o in sched if o["op"] == "start"]
    hung = []
    for c in starts:
        o = got[c]
        eh, ee, _ = expected[c]
        if not o["returned"]:
            hung.append(c)
            continue
        if (o["h"], o["e"]) == (eh, ee):
            continue
        ah, ae, avia = aswritten.get(c, (None, None, "none"))
        explained = avia if (ah, ae) == (o["h"], o["e"]) and (ah, ae) != (eh, ee) else "none"
        kind = "returned_before_handlers_done" if not o["h"] else "returned_before_endpoint_closed"
        pos = starts.index(c)
        stage = sched[o["at"]]["op"] if o["at"] < len(sched) else "end"
        sig = {"kind": kind, "caller": "first" if pos == 0 else "concurrent_later",
               "first_poll": o["first_poll"], "as_written_model_return": explained,
               "ep_closed_outside": any(x["op"] == "ep_close" for x in sched),
               "handlers_shutdown_started": bool(o.get("entered", True))}
        what = ("schedule '%s': Router::shutdown of %s returned (during '%s'%s) with handlersDone=%s endpointClosed=%s%s; "
                "the specification requires handlersDone=%s endpointClosed=%s at every return%s"
                % (key(sched), c, stage, ", from its first poll" if o["first_poll"] else "", o["h"], o["e"],
                   "" if o.get("entered", True) else " (no ProtocolHandler::shutdown had even been called)", eh, ee,
                   ("; steps that did not happen: " + "; ".join(obs["stalled"])) if obs.get("stalled") else ""))
        out.append((sig, what))
    if out:
        return out
    if hung:
        raise Soft("schedule '%s': shutdown() of %s did not return within the bound (non-conformance, not a C41 violation)%s"
                   % (key(sched), ",".join(hung), ("; stalled: " + "; ".join(obs["stalled"])) if obs.get("stalled") else ""))
    if obs.get("stalled") and not obs.get("done_at_end", True):
        raise Soft("schedule '%s': %s, and the handlers were still not shut down when the schedule was over (no shutdown() "
                   "call returned wrongly, so this is not a C41 violation)" % (key(sched), "; ".join(obs["stalled"])))
    return out


LIFE_ACTIONS = ["Dial", "LoopAccept", "HandlerStart", "HandlerFinish", "Shutdown", "LoopCancel", "HandlersDown",
                "CancelAccepts", "AcceptDropped", "EpClose", "Exit", "Return"]


def lifecycle(ctx):
    """Growth (thorough tier): specs/router/RouterLifecycle.tla — connections in flight while the router shuts down.
    TLC checks the extended model (accept futures aborted only after the handlers' shutdown, nothing dispatched once
    the loop stopped, shutdown() returns with no accept future alive) and refutes the abort-first ordering; every
    drivable schedule is executed by `vh_router life`.  What a shutdown() caller sees at return is C41 and is
    reported as such; a deviation in the additional observables is non-conformance with the extended specification
    (tool error), not a C41 violation."""
    k3 = '{"k1", "k2", "k3"}'
    ctx.tlc("router", "RouterLifecycle", constants={"Conns": k3, "AbortEarly": "FALSE"}, require_actions=LIFE_ACTIONS)
    ctx.tlc("router", "RouterLifecycle", constants={"Conns": k3, "AbortEarly": "TRUE"},
            expect_violation="NoAbortBeforeHandlersDown")
    gen = ctx.tlc("router", "RouterLifecycle", cfg="RouterLifecycle_gen.cfg", mode="gen", constants={"Conns": k3},
                  require_actions=LIFE_ACTIONS)
    scen, exp = [], []
    for b in gen.replays:
        ops = [{"op": e["op"], "k": e["k"]} for e in b["word"]]
        order = [o["k"] for o in ops if o["op"] == "dial"]
        if order != ["k%d" % (i + 1) for i in range(len(order))]:
            continue                      # one representative per renaming of the connections
        scen.append({"id": len(scen), "conns": ["k1", "k2", "k3"], "ops": ops})
        exp.append(b)
    inp = ctx.write_ndjson("c41-life.in", scen)
    outp = ctx.path("c41-life.out")
    ctx.run_bin("vh_router", ["life", "--in", inp, "--out", outp], timeout=3000)
    obs = ctx.read_ndjson(outp)
    if len(obs) != len(scen):
        raise ToolError("life driver returned %d observations for %d schedules" % (len(obs), len(scen)))
    n = 0
    for s, b, o in zip(scen, exp, obs):
        word = " ".join(x["op"] + (":" + x["k"] if x["k"] else "") for x in s["ops"])
        if o.get("tool_error"):
            raise ToolError("life driver, schedule '%s': %s" % (word, o["tool_error"]))
        ctx.count(case_key=["life", word], nontrivial=any(x["op"] == "dial" for x in s["ops"]))
        r = o["ret"]
        if not r["returned"]:
            raise ToolError("schedule '%s': shutdown() did not return (non-conformance)" % word)
        if not (r["h"] and r["e"]):
            ctx.report({"kind": "returned_before_handlers_done" if not r["h"] else "returned_before_endpoint_closed",
                        "caller": "single", "connections_in_flight": True},
                       "schedule '%s': Router::shutdown returned with handlersDone=%s endpointClosed=%s" % (word, r["h"], r["e"]),
                       {"life": s["ops"]})
        if r["live_accepts"]:
            raise ToolError("non-conformance with RouterLifecycle (ReturnMeansQuiet): schedule '%s': %d accept futures alive "
                            "when shutdown() returned" % (word, r["live_accepts"]))
        for c in o["conns"]:
            want = b["final"][c["k"]]
            got = ("none" if not c["started"] and c["dial"] == "none" else
                   "unserved" if not c["started"] and c["dial"] != "ok" else
                   c["end"] if c["started"] else "dialled_ok_but_no_handler")
            if got != want:
                raise ToolError("non-conformance with RouterLifecycle: schedule '%s': connection %s ended as %s, the "
                                "specification determines %s" % (word, c["k"], got, want))
            if want == "dropped":
                if not c["handlers_done_at_end"]:
                    raise ToolError("non-conformance with RouterLifecycle (NoAbortBeforeHandlersDown): schedule '%s': accept "
                                    "future of %s was aborted before the handlers' shutdown completed" % (word, c["k"]))
                if not c["closed_seen"] or not c["handlers_done_at_close"]:
                    raise ToolError("non-conformance with RouterLifecycle (RouterClosesOnlyAfterDown): schedule '%s': dialer of "
                                    "%s saw closed=%s with handlersDone=%s" % (word, c["k"], c["closed_seen"], c["handlers_done_at_close"]))
        n += 1
    ctx.cov["lifecycle_schedules"] = n


def run(ctx):
    if ctx.replay and "life" in json.load(open(ctx.replay))["replay"]:
        return lifecycle(ctx)          # re-runs all lifecycle schedules, which include the recorded one
    # 1. the design the property requires holds (all interleavings, liveness); the code-as-written model is refuted
    ctx.tlc("router", "RouterShutdown", constants={"Callers": CALLERS3, "Fixed": "TRUE"},
            require_actions=["LoopCancel", "LoopAcceptNone", "HandlersDown", "EpClose", "Exit", "EndpointCloses",
                             "Start", "Cancel", "Acquire", "Await"])
    ctx.tlc("router", "RouterShutdown", cfg="RouterShutdown_refute.cfg",
            constants={"Callers": CALLERS3, "Fixed": "FALSE", "ExitOnAcceptNone": "FALSE"}, expect_violation="ReturnMeansDone")
    # ... and so is "the run loop leaves at once when accept() yields None" (endpoint closed behind the router's back)
    ctx.tlc("router", "RouterShutdown", cfg="RouterShutdown_refute.cfg",
            constants={"Callers": CALLERS3, "Fixed": "TRUE", "ExitOnAcceptNone": "TRUE"}, expect_violation="ReturnMeansDone")
    if not ctx.quick:
        ctx.tlc("router", "RouterShutdown", constants={"Callers": '{"c1", "c2", "c3", "c4"}', "Fixed": "TRUE"}, timeout=1800)
    # 2. drivable schedules with the observations the required design determines / the as-written model predicts
    gen_fixed = ctx.tlc("router", "RouterShutdown", cfg="RouterShutdown_gen.cfg", mode="gen",
                        constants={"Callers": CALLERS3, "Fixed": "TRUE"},
                        require_actions=["LoopCancel", "LoopAcceptNone", "HandlersDown", "EpClose", "Exit", "EndpointCloses",
                                         "Start", "Cancel", "Acquire", "Await"])
    gen_asw = ctx.tlc("router", "RouterShutdown", cfg="RouterShutdown_gen.cfg", mode="gen",
                      constants={"Callers": CALLERS3, "Fixed": "FALSE"})
    fixed = table(gen_fixed, "required-design")
    asw = table(gen_asw, "as-written")
    if set(fixed) != set(asw):
        raise ToolError("the two designs do not have the same drivable schedules (%d vs %d)" % (len(fixed), len(asw)))
    for k, (ops, rets) in fixed.items():
        if any((h, e) != (True, True) for h, e, _ in rets.values()):
            raise ToolError("required design predicts a return before completion in '%s'" % k)
    if not any(any(not h for h, e, _ in rets.values()) for _, rets in asw.values()):
        raise ToolError("vacuity: the as-written model never predicts an early return in a drivable schedule")

    if ctx.replay:
        rep = json.load(open(ctx.replay))["replay"]
        todo = [(key(rep["ops"]), rep.get("rt", "ct"))]
    else:
        keys = sorted(k for k in fixed if k and (not ctx.quick or canonical(fixed[k][0])))
        todo = [(k, "ct") for k in keys]
        if not ctx.quick:
            todo += [(k, "mt") for k in keys]
    scen = [{"id": i, "rt": rt, "ops": fixed[k][0]} for i, (k, rt) in enumerate(todo)]
    inp = ctx.write_ndjson("c41.in", scen)
    outp = ctx.path("c41.out")
    ctx.run_bin("vh_router", ["c41", "--in", inp, "--out", outp], timeout=1800)
    obs = ctx.read_ndjson(outp)
    if len(obs) != len(scen):
        raise ToolError("harness returned %d observations for %d schedules" % (len(obs), len(scen)))

    selftests = {"flipped_observation_rejected": 0, "flipped_observation_total": 0}
    soft = []
    for s, o in zip(scen, obs):
        k = key(s["ops"])
        exp, pred = fixed[k][1], asw[k][1]
        nstart = sum(1 for x in s["ops"] if x["op"] == "start")
        ctx.count(case_key=[k, s["rt"]], nontrivial=nstart >= 2 or any(x["op"] == "ep_close" for x in s["ops"]))
        try:
            bad = judge(s["ops"], exp, pred, o)
        except Soft as e:
            soft.append(str(e))
            continue
        if nstart >= 2:
            ctx.sample({"schedule": k, "runtime": s["rt"],
                        "expected_at_return": {c: [v[0], v[1]] for c, v in exp.items()},
                        "observed_at_return": {c["c"]: [c["h"], c["e"]] for c in o["callers"]}})
        for sig, what in bad:
            ctx.report(sig, what, {"ops": s["ops"], "rt": s["rt"], "observed": o["callers"]})
        # binding self-test: an accepted run with one observation flipped must be rejected by the same judge
        if not bad and o["callers"] and selftests["flipped_observation_total"] < 40:
            for field in ("h", "e"):
                o2 = json.loads(json.dumps(o))
                o2["callers"][0][field] = not o2["callers"][0][field]
                selftests["flipped_observation_total"] += 1
                if judge(s["ops"], exp, pred, o2):
                    selftests["flipped_observation_rejected"] += 1
    if soft:
        ctx.log("%d schedules with non-conformance that is not a C41 violation, first: %s" % (len(soft), soft[0]))
        if not ctx.violations:
            raise ToolError("%d schedules; first: %s" % (len(soft), soft[0]))
    if selftests["flipped_observation_rejected"] != selftests["flipped_observation_total"]:
        raise ToolError("binding self-test failed: %s" % selftests)
    ctx.cov["binding_selftests"] = selftests
    if not ctx.quick and not ctx.replay:
        lifecycle(ctx)
    ctx.cov["rule"] = ("every drivable schedule of RouterShutdown with 0..3 callers (starts before / while / after the "
                       "handlers shut down, endpoint closed from outside before or during); quick: one representative "
                       "per caller renaming, current-thread runtime; thorough: all schedules on both runtimes; a case is "
                       "non-trivial with >= 2 callers or an outside endpoint close")
    ctx.cov["exhaustive"] = True
    ctx.assume("a ProtocolHandler::shutdown future that has completed has set its done flag (harness handler)")
    ctx.assume("Endpoint::is_closed() reflects a completed Endpoint::close")
