"""C08 — A revoked relay connection does not stay connected (DESIGN.md §6 C08, §7).

Spec: specs/relay/RelayRevoke.tla (+ MC_RelayRevoke.tla).  Admission (`Inner::accept`: authorize_with,
on_connect, confirmation written) and registration (`Clients::register`) are separate actions, the
embedder's `Clients::disconnect(endpoint, Some(id) | None)` may fall anywhere after admission.

1. TLC checks the required design (FixRevoke = TRUE: a disconnect for an admitted, not yet registered
   connection is remembered) exhaustively: RevokedNotServed, NoServiceAfterRevoke, RegistryShape,
   OthersUnaffected and, under weak fairness, RevokedEventuallyGone.
2. Anti-vacuity: the code as written (FixRevoke = FALSE: `disconnect` returns false for an unknown
   connection, nothing remembered) is refuted by TLC (RevokedNotServed; Admit, DiscId, Register).
   `Clients::register` is also modelled split at its entry lock (RegisterLock; RegisterBody;
   RegisterUnlock) with disconnect calls issued while the lock is held (DiscIdCall/Ret, DiscKeyCall/Ret:
   the call waits and is never lost: BlockedCallsReturn); the non-waiting variant TryLock = TRUE
   (`try_get`, locked entry treated as absent) is refuted as well.
3. Mode C binding: TLC enumerates complete schedules (words) in three families - (a) every
   interleaving of admit / register / one disconnect for a target and a bystander; (b) three
   registered connections of one endpoint + bystander, revoked one by id, all by endpoint, and in
   pairs; (c) the register-lock family: set-up in order with the register of t / t2 split at the
   entry lock and the disconnect (by id, by endpoint) issued at every position, including while a
   register of the same endpoint holds the lock (thorough: more connections / two disconnects in
   (a) and (c)); vh_relayauth c08 forces each word onto a real `Server::spawn` on 127.0.0.1 with real
   `ClientBuilder` clients: the accept task is held at the pause point
   `relay.accept.admitted:<endpoint>` (between authorize_with and Clients::register), the connection
   id comes from the recording AccessControl, `clients().disconnect(..)` is called at the word's
   position, the pause point is released and the `relay.accept.registered` event awaited.  For family
   (c) the accept task is additionally held at the sync pause point `relay.register.locked:<endpoint>`
   inside the entry critical section of `Clients::register` (DashMap entry lock held, multi-thread
   runtime) and the racing `disconnect` is called from its own thread; it must come back once the
   pause point is released.  Then every
   connection is probed (ping -> pong within 10 s, datagram from the bystander delivered).  The model's
   `served` map for the required design is the oracle.

VIOLATION: a connection the model says is revoked still answers pings (`revoked_still_served`), a
connection the model says is untouched does not (`bystander_lost`), or a connection that was shut down
has not exactly one on_disconnect / a served one has any (`on_disconnect_count`).  The return value of `disconnect`
is recorded but not judged (the property does not speak about it).

Genuine defect found (known finding C08_revoke_before_register, open): every word in which the
disconnect (by id or by endpoint) falls between the target's admit and register steps ends with the
target still served: `disconnect` returned false, pings are answered, the bystander's datagram is
delivered, no on_disconnect (20 of the 40 quick words).

Proposed fix (proposed_fixes/C08.diff, not applied): `Clients::announce(endpoint, connection_id)`
called by `Inner::accept` before `authorize_with` records the admitted-but-unregistered connection
(RAII handle removes it on every exit path); `disconnect` marks matching announced connections under
the same DashMap entry lock `register` takes, and `register` starts the new client already shut down
if it was marked.  Exact (per connection id), leak-free, no behaviour change for embedders that do
not announce.  It adds a small public API (`announce`, `Announced`), so it is a maintainer decision:
the finding stays open until the coordinator applies it.  Verified 2026-09-22: with the diff applied
this check ends with 40 evaluations, 0 known-finding hits, exit 0 (and C07 still passes); undone.

Mutation self-test (2026-09-22): `Clients::disconnect(.., Some(id))` finds the client but no longer
calls `start_shutdown()` -> VIOLATION kind=revoked_still_served window=registered by=id (a different
signature than the known finding, which is still reported as KNOWN-FINDING); undone -> exit 0.

Independent breaking changes (2026-09-22, `bin/seedtest C08 <patch> 8`, scratch git worktree with
VERIF_REPO and its own target dir; the shared /repo was not touched):
  seeded/_incoming/C08/patch.diff  (`disconnect(endpoint, None)` stops after the first connection):
    exit 1, VIOLATION revoked_still_served window=registered by=key in the duplicates family, e.g.
    `... register(t3) admit(b) register(b) disc_key(A)`: t2 and t3 still answer pings;
  seeded/_incoming/C08/patch2.diff (`try_get`: a locked entry is treated like an absent endpoint):
    exit 1, VIOLATION revoked_still_served window=registered lock_held_at_call=True (by id and by
    endpoint) in the register-lock family, e.g. `... admit(t2) reg_lock(t2) disc_id_call(t)
    reg_unlock(t2) disc_id_ret(t) ...`: the call returned false while the lock was held, t stays served.
Neither signature matches the known finding (it is still printed as KNOWN-FINDING); unchanged tree:
exit 0 with only the KNOWN-FINDING line (74 words, 24 known-finding hits).  Before the duplicates and
register-lock families and the hook relay.register.locked existed both changes passed the quick tier.
"""
import json

from vlib import ToolError

META = {
    "level": "model_checking",
    "engine": "relay-server",
    "technique": "TLA+ spec RelayRevoke checked by TLC (safety + liveness); every TLC schedule forced onto a real relay "
                 "server through a cfg-guarded pause point between admission and registration (mode C)",
    "text": "TLC explores all interleavings of admission, registration, disconnect-by-connection-id and "
            "disconnect-by-endpoint for a target connection, a bystander and (thorough) a duplicate connection, and checks "
            "that a revoked connection is never served afterwards and eventually leaves the registry while others are "
            "untouched.  Each complete schedule is then imposed on a real Server::spawn with real clients by holding the "
            "accept task at the pause point, and the revoked / untouched connections are probed with pings and datagrams.",
    "note": "Quick tier: 40 interleaving words + 13 duplicate-connection words + 21 register-lock words.  \"Stops being served\" is read as: a ping sent after the schedule gets no pong (stream closed or 10 s silence).  "
            "Same-endpoint connections are admitted and released in FIFO order (pause gate is per endpoint).  Bounded: 2 "
            "(quick) / 3 (thorough) connections, 1 / 2 disconnect requests.",
    "design_ref": "§6 C08, §7, Appendix A.6",
}

KEYOF = {"t": "A", "t2": "A", "t3": "A", "b": "B"}


def window(word, c, keyof):
    """Where the first disconnect naming connection c falls relative to c's own steps."""
    adm = reg = disc = None
    for i, s in enumerate(word):
        if s["op"] == "admit" and s["x"] == c:
            adm = i
        elif s["op"] in ("register", "reg_unlock") and s["x"] == c:
            reg = i
        elif disc is None and ((s["op"] in ("disc_id", "disc_id_ret") and s["x"] == c)
                               or (s["op"] in ("disc_key", "disc_key_ret") and s["x"] == keyof[c])):
            if adm is not None:
                disc = i
    if disc is None:
        return "none"
    return "admitted_not_registered" if reg is None or disc < reg else "registered"


def wstr(word):
    return " ".join("%s(%s)" % (s["op"], s["x"]) for s in word)


def judge(ctx, c, o):
    n = 0
    if o.get("panic"):
        ctx.report({"kind": "panic"}, "panic while forcing %s: %s" % (wstr(c["word"]), o["panic"]), c)
        return 1
    # the datagram path is judged only where the registry is in the state the model predicts
    agree = all((o["probe"].get(n) == "pong") == e for n, e in c["served"].items())
    for name, exp in sorted(c["served"].items()):
        got = o["probe"].get(name, "absent")
        if exp and got != "pong":
            n += 1
            ctx.report({"kind": "bystander_lost", "conn": name, "probe": got},
                       "connection %s should be unaffected by the revocation but got %s for its ping after: %s"
                       % (name, got, wstr(c["word"])), c)
        elif not exp and got == "pong":
            n += 1
            w = window(c["word"], name, c["keyof"])
            by = "id" if any(s["op"].startswith("disc_id") and s["x"] == name for s in c["word"]) else "key"
            blocked = any(s["op"].endswith("_call") for s in c["word"])
            ctx.report({"kind": "revoked_still_served", "window": w, "by": by, "conn": name, "lock_held_at_call": blocked},
                       "disconnect (by %s) of connection %s was requested while it was %s, yet it still answers pings after: %s"
                       % (by, name, w.replace("_", " "), wstr(c["word"])), c)
        elif exp and agree and name in c.get("fwd_targets", []) and name in o["fwd"] and not o["fwd"][name]:
            n += 1
            ctx.report({"kind": "datagram_not_forwarded", "conn": name},
                       "served connection %s did not receive the bystander's datagram after: %s" % (name, wstr(c["word"])), c)
        else:
            # the policy hears of the disconnect of a connection that was shut down, exactly once; of no other
            nd = o["ac"].count("disconnect:%s" % name)
            if (not exp and got == "closed" and nd != 1) or (exp and nd != 0):
                n += 1
                ctx.report({"kind": "on_disconnect_count", "conn": name, "count": nd, "served": exp},
                           "connection %s (%s) has %d on_disconnect callbacks after: %s"
                           % (name, "still served" if exp else "shut down", nd, wstr(c["word"])), c)
    return n


class _Quiet:
    """A stand-in for ctx that swallows reports (used by the binding self-test)."""
    def __init__(self):
        self.reports = []

    def report(self, sig, what, replay_obj):
        self.reports.append(sig)
        return "violation"


def _shadow(ctx):
    return _Quiet()


def execute(ctx, cases, name):
    inp = ctx.write_ndjson(name + ".in", cases)
    outp = ctx.path(name + ".out")
    ctx.run_bin("vh_relayauth", ["c08", "--in", inp, "--out", outp], timeout=1800)
    obs = ctx.read_ndjson(outp)
    if len(obs) != len(cases):
        raise ToolError("harness returned %d observations for %d cases" % (len(obs), len(cases)))
    env = [o["env"] for o in obs if o.get("env")]
    if env:
        raise ToolError("environment problem while forcing schedules (%d of %d): %s" % (len(env), len(obs), env[0]))
    return obs


def run(ctx):
    if ctx.replay:
        rep = json.load(open(ctx.replay))["replay"]
        obs = execute(ctx, [rep], "c08-replay")
        judge(ctx, rep, obs[0])
        return
    acts = ["Admit", "Register", "RegisterLock", "RegisterBody", "RegisterUnlock", "DiscId", "DiscKey", "DiscIdCall", "DiscIdRet",
            "DiscKeyCall", "DiscKeyRet", "Serve", "ActorExit"]
    # 1. required design, exhaustive: safety, then liveness; t2's register is split into lock / body / unlock
    ctx.tlc("relay", "MC_RelayRevoke", cfg="RelayRevoke_safety.cfg", mode="mc", workers=4,
            constants={"MaxDisc": ctx.pick(2, 3), "FixRevoke": "TRUE", "TryLock": "FALSE", "SplitConns": ctx.pick('{"t2"}', '{"t", "t2"}')},
            require_actions=acts, timeout=1800)
    ctx.tlc("relay", "MC_RelayRevoke", cfg="RelayRevoke.cfg", mode="mc", workers=4, coverage=False,
            constants={"MaxDisc": ctx.pick(1, 2), "FixRevoke": "TRUE", "TryLock": "FALSE", "SplitConns": '{"t2"}'}, timeout=1800)
    # 2. the code as written is refuted, and so is a disconnect that does not wait for the entry lock
    ctx.tlc("relay", "MC_RelayRevoke", cfg="RelayRevoke_safety.cfg", mode="mc", workers=2,
            constants={"MaxDisc": 1, "FixRevoke": "FALSE", "TryLock": "FALSE", "SplitConns": "{}"},
            expect_violation="RevokedNotServed", timeout=600)
    ctx.tlc("relay", "MC_RelayRevoke", cfg="RelayRevoke_safety.cfg", mode="mc", workers=2,
            constants={"MaxDisc": 1, "FixRevoke": "TRUE", "TryLock": "TRUE", "SplitConns": '{"t2"}'},
            expect_violation="RevokedNotServed", timeout=600)
    # 3. schedules
    cases = []
    free = {"SplitConns": "{}", "InOrder": "FALSE", "DiscAfterSetup": "FALSE"}
    dup3 = {"Conns": '{"t", "t2", "t3", "b"}', "Targets": '{"t", "t2", "t3"}', "SplitConns": "{}", "InOrder": "TRUE", "DiscAfterSetup": "TRUE"}
    gens = [
        # every interleaving of admit / register / one disconnect for a target and a bystander
        ("interleavings", dict(free, Conns='{"t", "b"}', Targets='{"t"}', MaxDisc=1)),
        # three registered connections of one endpoint + bystander: revoke one by id, all by endpoint, and pairs
        ("duplicates", dict(dup3, MaxDisc=1)),
        ("duplicates", dict(dup3, MaxDisc=2)),
        # register split at the entry lock: the disconnect is issued while a register of the endpoint holds it
        ("register_lock", {"Conns": '{"t", "t2", "b"}', "Targets": '{"t", "t2"}', "MaxDisc": 1, "SplitConns": '{"t", "t2"}',
                           "InOrder": "TRUE", "DiscAfterSetup": "FALSE"}),
    ]
    if not ctx.quick:
        gens.append(("interleavings", dict(free, Conns='{"t", "t2", "b"}', Targets='{"t", "t2"}', MaxDisc=1)))
        gens.append(("interleavings", dict(free, Conns='{"t", "b"}', Targets='{"t", "b"}', MaxDisc=2)))
        gens.append(("register_lock", {"Conns": '{"t", "t2", "b"}', "Targets": '{"t", "t2"}', "MaxDisc": 2, "SplitConns": '{"t", "t2", "b"}',
                                       "InOrder": "TRUE", "DiscAfterSetup": "FALSE"}))
    families = {}
    for fam, g in gens:
        res = ctx.tlc("relay", "MC_RelayRevoke", cfg="RelayRevoke_gen.cfg", mode="gen", constants=g, timeout=1800, coverage=False)
        families[fam] = families.get(fam, 0) + len(res.replays)
        for r in res.replays:
            r["keyof"] = {c: KEYOF[c] for c in r["served"]}
            # datagrams addressed to an endpoint reach its active (newest registered) connection only
            r["fwd_targets"] = sorted(c for c in r["active"].values() if c != "none" and c != "b" and r["served"][c])
            r["family"] = fam
            cases.append(r)
    ctx.cov["schedules_by_family"] = families
    if not cases:
        raise ToolError("TLC generated no schedules")
    obs = execute(ctx, cases, "c08")
    stats = {"admitted_not_registered": 0, "registered": 0}
    for c, o in zip(cases, obs):
        ws = [window(c["word"], x, c["keyof"]) for x in c["revoked"]]
        for w in ws:
            stats[w] = stats.get(w, 0) + 1
        ctx.count([[s["op"], s["x"]] for s in c["word"]], nontrivial=True)
        judge(ctx, c, o)
        if len(ctx.cov["samples"]) < 4 and (len(ctx.cov["samples"]) % 2 == 0) == ("admitted_not_registered" in ws):
            ctx.sample({"word": wstr(c["word"]), "model_served": c["served"], "probe": o["probe"],
                        "disconnect_returned": o["rets"], "datagram_forwarded": o["fwd"], "access_control": o["ac"]})
    ctx.cov["schedules_by_window"] = stats
    # binding self-test: flipped expectations must be rejected by the judge
    caught = tried = 0
    for c, o in zip(cases, obs):
        if tried >= 6:
            break
        if any(o["probe"].get(n) != ("pong" if e else "closed") for n, e in c["served"].items()):
            continue                      # only words on which model and implementation agree
        for name in sorted(c["served"]):
            c2 = json.loads(json.dumps(c))
            c2["served"][name] = not c2["served"][name]
            tried += 1
            caught += 1 if judge(_shadow(ctx), c2, o) else 0
    if tried == 0 or caught != tried:
        raise ToolError("binding self-test: %d of %d flipped expectations were caught" % (caught, tried))
    ctx.cov["binding_selftests"] = {"flipped_expectations_caught": caught}
    ctx.cov["rule"] = ("every complete word over admit/register (per connection, FIFO per endpoint) and the disconnect "
                       "requests (by id, by endpoint) generated by TLC from RelayRevoke; all are non-trivial")
    ctx.cov["exhaustive"] = True
    ctx.assume("a connection that neither answers a ping within 10 s nor is closed counts as not served")
    ctx.assume("loopback TCP on 127.0.0.1 and the tokio scheduler deliver within the generous waits (20 s per step)")
