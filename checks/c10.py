"""C10 — Relay frames encode and decode exactly, and decoding is total (DESIGN.md §6 C10).

Spec: specs/relay/RelayFrames.tla (+ MC_RelayFrames.tla): message --SinkAccept/SinkReject--> Encode -->
wire shape --Decode--> message, with real byte counts (MAX_PACKET_SIZE = 65536) and an adversarial
origin that starts from arbitrary wire shapes.  TLC checks EncodedLenExact, LimitAgreement,
SinkAcceptsUpToMax, RoundTrip, DecodesIfWithinDecoderLimit, CrossVersionRejected,
OtherDirectionRejected, DecodingTotal, DecoderLimit for every message kind in both directions with
lengths at and around every boundary (0,1,2,3,7,8,9,31,32,33,1199..1201, MAX-40..MAX+1), both versions,
and for ~3 000 adversarial shapes (all tags 0..14, 63, 64, 16384, 2^30; 1/2/8-byte varints; truncated
tag; bodies 0..36, 40, MAX-1..MAX+1; invalid key; invalid UTF-8; zero segment size; ECN byte with
high bits; status bytes).  Three slips are refuted (anti-vacuity): `<` in the sink size check
(SinkAcceptsUpToMax), Status accepted in V1 (CrossVersionRejected), batch guard of 1 byte
(DecodingTotal).  The stated non-property DecoderNoLaxerThanSink (the decoder accepts an empty
datagram and contents of MAX-34 bytes which the forwarding sink refuses — C05's defect, owned by the
relay-registry group) is shown refuted on the model and is NOT judged here.

Binding (mode A): each terminal state is concretised by the harness (seeded random ids, payloads,
texts; valid / invalid keys decided by ed25519-dalek) and run through the real codec functions
(iroh_relay::verif_hooks::codec), the real client sink (`Conn` over loopback TCP, hook constructor) and the
real relay sink (public `RelayedStream` over an in-memory byte sink); compared: encoded_len ==
to_bytes().len() == the model's length, tag byte, sink verdict, bytes put on the wire by the sink,
decoder accept/reject, decoded shape, decoded == original.  Error *classes* are recorded, not judged
(the property says "rejected").  Plus seeded random byte strings under catch_unwind (panics only).

Growth stage: specs/relay/RelayDatagramPath.tla composes this model with RelayWire's batch model into the whole
relayed path of one batch (client sink -> relay decode -> relay forwarding sink -> client decode ->
take_segments(n) until empty): EndToEnd / OnlySent / HonestNeverDropped / RefusedOnlyIfUnsendable are checked
by TLC (RawNeverDropped is the C05 non-property, refuted) and every terminal state is replayed on the same real
functions (`--mode path`), comparing the batch's fate and the delivered pieces.

Mutation self-tests (private copy of /repo): (a) `size < MAX_PACKET_SIZE` in Conn::start_send =>
VIOLATION kind=sink dir=c2r; (b) Status accepted under V1 (`>= ProtocolVersion::V1`) => VIOLATION
kind=decode_accept tag=13; undone => exit 0.
"""
import json

from vlib import ToolError
from checks.relayproto_common import binding_selftest

META = {
    "level": "model_checking",
    "engine": "relay-wire",
    "technique": "TLA+ spec RelayFrames (sink check / encode / decode over frame lengths, versions and adversarial wire "
                 "shapes) checked by TLC; every terminal state concretised and run on the real codec and sinks (mode A)",
    "text": "TLC enumerates every relay message kind in both directions with payload lengths at and around every per-type "
            "and size limit, both protocol versions, and some 3 000 adversarial wire shapes, and checks on the model that the "
            "predicted length is the encoded length, that what the sender's size check accepts the decoder accepts, that "
            "messages decode back to themselves, that frames of the other version or direction are rejected and that the "
            "decoder's slicing is always guarded. Each case is then built as a real message or byte string and run through "
            "ClientToRelayMsg/RelayToClientMsg encode/decode, Conn::start_send (over loopback TCP) and "
            "RelayedStream::start_send; lengths, verdicts, wire bytes and decoded values are compared.",
    "note": "Contents are random per case (byte-exactness is sampled, not decided by TLC). Error classes of rejections are "
            "not compared. Restarting durations are whole milliseconds < 2^32 (the wire format's range). The decoder being "
            "laxer than the forwarding sink is C05's subject, not flagged here.",
    "design_ref": "§6 C10",
}

CONSTS = {"SinkCmp": '"le"', "StatusInV1": "FALSE", "BatchGuard": 3}
INVS = ["SinkAcceptsUpToMax", "CrossVersionRejected", "DecodingTotal"]


def run(ctx):
    if ctx.replay:
        rep = json.load(open(ctx.replay))["replay"]
        execute(ctx, [rep], 0)
        return
    for k, v, inv in (("SinkCmp", '"lt"', "SinkAcceptsUpToMax"), ("StatusInV1", "TRUE", "CrossVersionRejected"),
                      ("BatchGuard", 1, "DecodingTotal")):
        ctx.tlc("relay", "MC_RelayFrames", cfg="RelayFrames_mc.cfg", mode="mc", workers=1, coverage=False,
                constants=dict(CONSTS, **{k: v}), expect_violation=inv)
    ctx.tlc("relay", "MC_RelayFrames", cfg="RelayFrames_nonproperty.cfg", mode="mc", workers=1, coverage=False,
            constants=CONSTS, expect_violation="DecoderNoLaxerThanSink")
    res = ctx.tlc("relay", "MC_RelayFrames", cfg="RelayFrames.cfg", mode="gen", constants=CONSTS, timeout=3000,
                  require_actions=["SinkAccept", "SinkReject", "Encode", "Decode"])
    cases = res.replays
    if not cases:
        raise ToolError("TLC produced no cases")
    reps = ctx.pick(2, 20)
    allc = [c for c in cases for _ in range(reps if c["origin"] == "adversary" or c["msg"]["n"] < 2000 else ctx.pick(1, 3))]
    execute(ctx, allc, ctx.pick(20000, 2000000))
    path_stage(ctx)
    ctx.cov["rule"] = ("every terminal state of RelayFrames: all message kinds x directions x boundary lengths x versions "
                       "(sender origin) and all adversarial wire shapes of the alphabet (exhaustive), %d concretisations each "
                       "for small cases; non-trivial = everything except the fixed-size kinds" % reps)
    ctx.cov["exhaustive"] = True
    ctx.cov["abstract_cases"] = len(cases)


def path_stage(ctx):
    """Growth: specs/relay/RelayDatagramPath.tla — a batch through sending client sink -> relay decode -> relay forwarding
    sink -> receiving client decode -> take_segments(n) until empty, on the real functions."""
    ctx.tlc("relay", "MC_RelayDatagramPath", cfg="RelayDatagramPath_nonproperty.cfg", mode="mc", workers=2, coverage=False,
            expect_violation="RawNeverDropped")
    res = ctx.tlc("relay", "MC_RelayDatagramPath", cfg="RelayDatagramPath.cfg", mode="gen", workers=2, timeout=3000,
                  require_actions=["ClientSinkAccept", "ClientSinkReject", "RelayDecodeOk", "RelayDecodeErr", "RelaySinkAccept",
                                   "RelaySinkReject", "ClientDecodeOk", "Take"])
    cases = res.replays
    if not cases:
        raise ToolError("TLC produced no path cases")
    inp = ctx.write_ndjson("c10-path.in", cases)
    outp = ctx.path("c10-path.out")
    ctx.run_bin("vh_relayproto", ["c10", "--mode", "path", "--in", inp, "--out", outp], timeout=3000)
    obs = ctx.read_ndjson(outp)
    if len(obs) != len(cases):
        raise ToolError("harness returned %d path observations for %d cases" % (len(obs), len(cases)))
    for c, o in zip(cases, obs):
        judge_path(ctx, c, o)
    for c, o in zip(cases, obs):
        if c["fate"] == "delivered" and len(c["pieces"]) >= 2:
            binding_selftest(ctx, judge_path, c, o, [
                ("fate", lambda c_, o_: o_.__setitem__("fate", "dropped_at_relay")),
                ("piece length", lambda c_, o_: o_["pieces"][0].__setitem__("len", o_["pieces"][0]["len"] + 1)),
                ("piece count", lambda c_, o_: o_["pieces"].pop()),
                ("bytes", lambda c_, o_: o_.__setitem__("concat_eq", False)),
                ("sender key / ecn", lambda c_, o_: o_.__setitem__("meta_eq", False))])
            break
    ctx.cov["path_cases"] = len(cases)


def judge_path(ctx, c, o):
    ctx.count(case_key=["path", c["origin"], c["len"], c["seg"], c["ecn"], c["n"]], nontrivial=c["fate"] == "delivered")
    sig = {"stage": "path", "origin": c["origin"], "exp_fate": c["fate"]}
    if o.get("panic"):
        ctx.report(dict(sig, kind="panic"), "relayed path panicked: %s" % o["panic"], c)
    elif o["fate"] == "stream_error":
        raise ToolError("loopback transport failed in the path stage (environment)")
    elif o["fate"] != c["fate"]:
        ctx.report(dict(sig, kind="fate", got=o["fate"]),
                   "batch [len %d, seg %d] from %s: %s, the model says %s" % (c["len"], c["seg"], c["origin"], o["fate"], c["fate"]), c)
    elif c["fate"] == "delivered":
        if o["pieces"] != c["pieces"]:
            ctx.report(dict(sig, kind="pieces"), "batch [len %d, seg %d] taken by %d: pieces %s, the model says %s"
                       % (c["len"], c["seg"], c["n"], o["pieces"][:6], c["pieces"][:6]), c)
        elif not o["concat_eq"] or not o["meta_eq"]:
            ctx.report(dict(sig, kind="contents"), "delivered bytes / sender / ECN differ from what was sent", c)


def execute(ctx, cases, random_n):
    inp = ctx.write_ndjson("c10.in", cases)
    outp = ctx.path("c10.out")
    ctx.run_bin("vh_relayproto", ["c10", "--in", inp, "--out", outp, "--random", random_n], timeout=3000)
    obs = ctx.read_ndjson(outp)
    rnd = obs.pop() if obs and "random" in obs[-1] else None
    if len(obs) != len(cases):
        raise ToolError("harness returned %d observations for %d cases" % (len(obs), len(cases)))
    classes_differ = 0
    for c, o in zip(cases, obs):
        classes_differ += judge(ctx, c, o)
    ctx.cov["rejections_with_other_error_class_than_modelled"] = classes_differ
    for c, o in zip(cases, obs):
        if c["origin"] == "sender" and c["sink"] == "accepted" and c["out"]["ok"] and c["msg"]["kind"] == "dgram":
            binding_selftest(ctx, judge, c, o, [
                ("encoded_len", lambda c_, o_: o_.__setitem__("enc_len", o_["enc_len"] + 1)),
                ("wire length", lambda c_, o_: o_.__setitem__("wire_len", o_["wire_len"] - 1)),
                ("tag byte", lambda c_, o_: o_.__setitem__("first_byte", o_["first_byte"] ^ 1)),
                ("sink verdict", lambda c_, o_: o_.__setitem__("sink", "too_large")),
                ("sink bytes", lambda c_, o_: o_.__setitem__("sink_wire_eq", False)),
                ("decoder verdict", lambda c_, o_: o_.__setitem__("decode_ok", False)),
                ("decoded length", lambda c_, o_: o_["decoded"].__setitem__("n", o_["decoded"]["n"] + 1)),
                ("round trip", lambda c_, o_: o_.__setitem__("roundtrip_eq", False)),
                ("expected verdict flipped", lambda c_, o_: c_["out"].__setitem__("ok", False)),
                ("panic", lambda c_, o_: o_.__setitem__("panic", "boom"))])
            break
    for c, o in zip(cases, obs):
        if c["origin"] == "adversary" and not c["out"]["ok"]:
            binding_selftest(ctx, judge, c, o, [("decoder accepts", lambda c_, o_: o_.__setitem__("decode_ok", True))])
            break
    if rnd is not None:
        ctx.cov["random_byte_strings"] = {"strings": rnd["random"], "decodes_ok": rnd["ok"], "decodes_err": rnd["err"]}
        ctx.count(case_key="random-bytes", nontrivial=True, n=rnd["ok"] + rnd["err"])
        for p in rnd["panics"]:
            ctx.report({"kind": "panic", "origin": "random_bytes"}, "decoder panicked on random bytes: %s" % p, {"random": p})


def judge(ctx, c, o):
    sender = c["origin"] == "sender"
    m, w, exp = c["msg"], c["wire"], c["out"]
    key = [c["origin"], c["dir"], c["ver"], m, w] if not sender else [c["origin"], c["dir"], c["ver"], m]
    ctx.count(case_key=key, nontrivial=(m["kind"] in ("dgram", "health")) if sender else True)
    base = {"origin": c["origin"], "dir": c["dir"], "ver": c["ver"], "tag": w["tag"],
            "msg": m["kind"] if sender else "n/a"}
    if sender and m["kind"] == "dgram" and m["n"] > 60000 and c["sink"] != "accepted":
        ctx.sample({"dir": c["dir"], "message": m, "model": {"encoded_len": c["enclen"], "sink": c["sink"], "decoder_accepts": exp["ok"]},
                    "real": {"encoded_len": o["enc_len"], "sink": o["sink"], "decoder_accepts": o["decode_ok"]}})
    if not sender and w["tag"] in (5, 7) and w["segZero"] and exp["ok"]:
        ctx.sample({"dir": c["dir"], "wire": w, "model": exp, "real": {"ok": o["decode_ok"], "decoded": o["decoded"]}}, limit=6)

    def bad(kind, what):
        ctx.report(dict(base, kind=kind), "%s %s v%d %s: %s" % (c["origin"], c["dir"], c["ver"], m if sender else w, what), c)
        return 0

    if o.get("panic"):
        return bad("panic", "panicked: %s" % o["panic"])
    if sender:
        if o["enc_len"] != c["enclen"] or o["wire_len"] != c["enclen"]:
            return bad("length", "encoded_len() = %d, to_bytes().len() = %d, the model says %d" % (o["enc_len"], o["wire_len"], c["enclen"]))
        if o["first_byte"] != w["tag"]:
            return bad("tag", "first byte %d, the model says tag %d" % (o["first_byte"], w["tag"]))
        if o["sink"].startswith("stream_error"):
            raise ToolError("the sink's transport failed (environment, not the property): %s" % o["sink"])
        if o["sink"] != c["sink"]:
            return bad("sink", "sink verdict %s, the model says %s (encoded length %d)" % (o["sink"], c["sink"], c["enclen"]))
        if c["sink"] == "accepted" and not o["sink_wire_eq"]:
            return bad("sink_bytes", "the sink did not put exactly to_bytes() on the wire")
    if o["decode_ok"] != exp["ok"]:
        return bad("decode_accept" if o["decode_ok"] else "decode_reject",
                   "decoder %s (%s), the model says %s (%s)" % ("accepts" if o["decode_ok"] else "rejects", o["decode_err"],
                                                                 "accept" if exp["ok"] else "reject", exp["err"]))
    if exp["ok"]:
        if o["decoded"] != exp["msg"]:
            return bad("decoded_value", "decoded %s, the model says %s" % (o["decoded"], exp["msg"]))
        if sender and not o["roundtrip_eq"]:
            return bad("roundtrip", "decoded message differs from the original in its contents")
        return 0
    return 1 if o["decode_err"] != exp["err"] else 0
