"""C06 — Relay connection registry: newest connection wins, older ones resume (DESIGN.md §6 C04/C05/C06).

Spec: specs/relay/RelayServer.tla.  Model checking (MC_RelayServer_reg.cfg): every interleaving of
admit / register / client frame / close / Clients::disconnect (by id, by key) / unregister / notify
for three connections of one endpoint id and one peer; invariants RegistryShape, NewestWins and the
action properties GoneOnlyOnEntryRemoval, DisplacedIsTold, PromotedIsTold, StatusToTheRightOne.
Binding (mode A): every behaviour of the generator instance (Gen_RelayServer, registry instance:
a1,a2,a3 of A, b1 of B; calls connect / frame / close / disconnect / disconnectkey) is replayed on the
real `Clients` registry; compared per step: status and peer-gone frames each client receives, which
connection receives the datagrams, which actors have ended, the answers of `Clients::disconnect`.

Mode B: seeded random workloads on a multi-thread runtime, event logs validated against
Trace_RelayServer.tla (every status / peer-gone frame and every answer of Clients::disconnect must be
explained by a Register / Unregister / NotifyGone of the spec).

Mutation self-test (recorded 2026-09-22): `unregister` promoting the *first* inactive connection
(`state.inactive.remove(0)` instead of `pop()`) -> `VIOLATION property=C06`, sig kind=status_frames (mode A:
connect a1, a2, a3, close a3: `healthy` arrives at a1 instead of a2); undone -> exit 0.  An unplanned
second one: a copy of the tree in which `Clients::disconnect(key, Some(id))` no longer called
`start_shutdown` (another builder's temporary mutation) -> `VIOLATION property=C06`, kind=actor_lifetime.
(Mutations are applied to a private copy of /repo and /verif under /var/tmp, built with a trimmed copy of
the harness crate, so that the shared /repo is never left mutated while others build against it.)
"""
import json

from checks import relayreg_common as rc

META = {
    "level": "model_checking",
    "engine": "relay-server",
    "technique": "TLA+ spec RelayServer checked by TLC (registry instance); every behaviour of the generator instance "
                 "replayed on the real Clients registry with quiescence between calls (mode A)",
    "text": "TLC checks on the model, for all interleavings of registrations, closes, disconnect requests and sends among "
            "three connections of one endpoint id and one peer, that the active connection is the most recently registered "
            "live one, that inactive ones are kept in registration order and resume newest-first, that a displaced "
            "connection is told so and a promoted one is told it is healthy, and that peer-gone notices are sent only when "
            "the endpoint's entry disappears and only to ids it had sent to.  The same model generates call sequences with "
            "the frames every client must have received after each call; they are executed on iroh-relay's Clients registry "
            "and compared.",
    "note": "Notifications are required only when the connection's message queue has room (the statement says so for "
            "peer-gone; the mechanism is the same).  Disconnecting an admitted but not yet registered connection is C08's "
            "subject and is not generated here.  Bounded: <= 4 connections, call sequences of bounded length, queue "
            "capacity 2; the websocket framing is bypassed by the in-memory stream.",
    "design_ref": "§6 C04/C05/C06",
}

CONNS = {"a1": "A", "a2": "A", "a3": "A", "b1": "B"}


def describe(g, i, got, exp):
    st = g["steps"][i] if i < len(g["steps"]) else {"op": "end", "c": "none"}
    kind = "registry"
    if got is not None and exp is not None:
        if got["ret"] != exp["ret"]:
            kind = "disconnect_answer"
        else:
            for c in got["conns"]:
                g_, e_ = got["conns"][c], exp["conns"].get(c)
                if e_ is None or g_ == e_:
                    continue
                if g_[1] != e_[1]:
                    kind = "status_frames"
                elif g_[2] != e_[2]:
                    kind = "datagram_routing"
                elif g_[0] != e_[0]:
                    kind = "actor_lifetime"
                break
    sig = {"kind": kind, "op": st["op"]}
    what = ("registry deviates from the spec at call %d (%s %s) of %s: expected %s, observed %s"
            % (i, st["op"], st["c"], [" ".join(x for x in k if x != "none") for k in g["key"]],
               json.dumps(exp), json.dumps(got)))
    return sig, what


def run(ctx):
    if ctx.replay:
        rep = json.load(open(ctx.replay))["replay"]
        if "events" in rep:
            rc.random_traces(ctx, "C06", 0, 0)
            return
        g = {"key": tuple((s["op"], s["c"], s["dst"], s["cls"]) for s in rep["steps"]), "steps": rep["steps"],
             "outcomes": rep["outcomes"], "prefix_outcomes": rep.get("prefix_outcomes")}
        obs = rc.execute(ctx, "c06-replay", [g], CONNS, 2)
        rc.judge(ctx, "C06", [g], obs, describe)
        return
    # 1. the design satisfies the property (exhaustive on the registry instance)
    # (measured: reg3 without frames 13 512 states; fwd with one frame 24 212; reg3 with one frame 260 979;
    #  reg = a1,a2,a3,b1 without frames 402 051)
    ctx.tlc("relay", "MC_RelayServer", cfg="MC_RelayServer_reg3.cfg", timeout=ctx.pick(900, 3000),
            constants={"PktCap": 1, "MsgCap": 1, "MaxFrames": 0},
            require_actions=["Register", "Unregister", "Disconnect", "DisconnectKey", "Close", "TakeMsg"])
    ctx.tlc("relay", "MC_RelayServer", cfg="MC_RelayServer_fwd.cfg", timeout=ctx.pick(900, 3000),
            constants={"PktCap": 1, "MsgCap": 1, "MaxFrames": 1, "Classes": '{"normal"}', "FixUndeliverable": "TRUE"},
            require_actions=["Register", "Unregister", "NotifyGone", "ClientFrame", "Close", "TakeMsg"])
    if not ctx.quick:
        ctx.tlc("relay", "MC_RelayServer", cfg="MC_RelayServer_reg3f.cfg", timeout=3000,
                constants={"PktCap": 1, "MsgCap": 1, "MaxFrames": 1},
                require_actions=["Register", "Unregister", "Disconnect", "DisconnectKey", "Close", "TakeMsg", "NotifyGone"])
        ctx.tlc("relay", "MC_RelayServer", cfg="MC_RelayServer_reg.cfg", timeout=3000,
                constants={"PktCap": 1, "MsgCap": 1, "MaxFrames": 0},
                require_actions=["Register", "Unregister", "Disconnect", "DisconnectKey", "Close", "TakeMsg"])
    # 2. behaviours -> implementation
    total = 0
    for pre, steps, ops in ctx.pick(
            [("reg3", 6, '{"connect", "close", "disconnect"}'),
             ("reg", 5, '{"connect", "frame", "close", "disconnect", "disconnectkey"}')],
            [("reg3", 7, '{"connect", "close", "disconnect", "frame"}'),
             ("reg", 6, '{"connect", "frame", "close", "disconnect", "disconnectkey"}')]):
        consts = {"Keys": '{"A", "B"}', "FrameDsts": '{"A", "B"}',
                  "PktCap": 2, "MsgCap": 2, "MaxFrames": 2, "Classes": '{"normal"}', "FixUndeliverable": "TRUE",
                  "MaxSteps": steps, "Ops": ops}
        scen, seen_ops, res = rc.generate(ctx, "Gen_RelayServer_%s.cfg" % pre, consts)
        missing = [o for o in json.loads(ops.replace("{", "[").replace("}", "]")) if o not in seen_ops]
        if missing:
            raise rc.ToolError("vacuity: generator never used calls %s" % missing)
        obs = rc.execute(ctx, "c06-%s" % pre, scen, CONNS, 2)
        bad = rc.judge(ctx, "C06", scen, obs, describe)
        if not ctx.quick and not bad:
            rc.binding_selftest(ctx, "C06", scen, obs)
        for g, o in zip(scen, obs):
            ops_ = [s["op"] for s in g["steps"]]
            if ops_.count("connect") >= 3 and ("close" in ops_ or "disconnect" in ops_):
                ctx.sample(rc.sample_of(g, o, rc.p_c06), limit=3)
        total += len(scen)
        ctx.log("replayed %d call sequences (%d TLC behaviours) of instance %s" % (len(scen), len(res.replays), pre))
    # 3. randomized multi-thread runs -> trace validation (mode B)
    evs, res, kinds = rc.random_traces(ctx, "C06", ctx.pick(8, 40), ctx.pick(60, 100), seed_offset=1000)
    if res.ok and kinds.get("recv-same", 0) + kinds.get("recv-healthy", 0) + kinds.get("recv-gone", 0) == 0:
        raise rc.ToolError("vacuity: no status / peer-gone frame was delivered in the random runs")
    if not ctx.quick and res.ok:
        rc.trace_selftest(ctx, "C06", evs)
    ctx.cov["rule"] = ("every maximal call sequence of the generator instance up to MaxSteps (exhaustive); non-trivial when it "
                       "contains a frame, a close or a disconnect")
    ctx.cov["exhaustive"] = True
    ctx.assume("quiescence: after each call the actors are polled until no stream half is touched for 4 scheduler rounds")
    ctx.assume("keep-alive pings (>= 16 s) and the write timeout do not fire during a replay")
