"""C17 — Relay receive path delivers datagrams in order and never wedges (DESIGN.md §6 C17, A.5).

Spec: specs/socket/RelayRecv.tla — `RelayTransport::poll_recv` split into its per-slot steps
(queue poll / take_segments / fit test / copy or drop / next slot), the mpsc queue with its
single waker, and noq's driver discipline (poll again after Ready or a wake-up, else sleep).

What one run does
  1. TLC model-checks the required loop (Fixed = TRUE: `num_segments.max(1)`, drop-and-continue)
     with arrivals interleaved between the slots of a running poll and channel close:
     OutIsPrefixOfExpected, QuiescentMeansDrained, SleepingHasWaker, DrainedMeansAllDelivered.
  2. TLC refutes OutIsPrefixOfExpected and QuiescentMeansDrained for the loop as written at the
     pinned commit (Fixed = FALSE) — anti-vacuity, and the two counterexamples are the two
     defects below.
  3. TLC emits every sequential behaviour (arrive / close / poll(nb)) up to the step bound with
     the sequence `expect` of datagrams the property requires to be delivered.
  4. The harness (vh_socktx c17) runs each behaviour on the real `RelayTransport::poll_recv`
     through the cfg-guarded `FedRelayTransport` (receive queue fed by the harness, no actor,
     counting waker, position-tagged bytes), then drains it like noq's driver.
  5. Judged on property-level observables only (so a refactor that batches differently does
     not alarm): after every poll the delivered datagrams (slot len/stride split, bytes and
     source checked) must be a prefix of TLC's `expect`; when the driver goes to sleep the
     delivered sequence must equal `expect`; the drain must terminate.  Exact agreement with
     the model's per-poll result is measured and put into the evidence (`exact_conformance`).

Datagram boundaries: the model's `expect` is per datagram ([idx, off, len] = identity, start and length of
each datagram) and the harness cuts every returned slot at `meta.stride` and identifies each piece by its
position-tagged bytes, so a merged / fragmented / mis-strided datagram is a `not_prefix` violation and two
datagrams dropped together a `starved` one.  (An independently written change to
`Datagrams::take_segments` - remainder rule `rest / seg <= 1` - was first missed: not by the judge but by the
generator bounds; no quick alphabet contained a batch whose remainder after a take is one full segment plus a
shorter tail.  The alphabets now contain len 7 / seg 2 / buf 4 and len 7 / seg 3 / buf 3, `tail_split` guards
that, and the spec has the what-if `ExactTail = FALSE`, refuted by `BoundariesKept`.  Verified with bin/seedtest on
scratch worktrees: seeded/_incoming/C17/patch2.diff -> VIOLATION kind not_prefix ("delivered datagram #3 is (1, 4, 3),
the property requires (1, 4, 2)"), seeded/_incoming/C17/patch.diff (whole batch dropped when its segment size exceeds
the buffer) -> VIOLATION kind starved; unchanged /repo -> exit 0.)

Genuine defects found on the pinned tree (known_findings.d/C17.json, proposed_fixes/C17.diff):
  (i)  a batch whose segment_size exceeds the receive buffer makes every poll return
       zero-length datagrams for ever (later datagrams starved);
  (ii) an oversize datagram is dropped with `break`: the poll returns Pending with input still
       queued and no waker registered (the driver sleeps, later datagrams starved).

Self-tests done while building: with proposed_fixes/C17.diff applied to /repo the quick tier
passes with 0 known-finding hits (2 367 behaviours); on top of the fix, `break 'slots` instead of
`continue` after the drop (the design's example mutation; known-findings entry moved away for
that run because the symptom is the one of finding (ii)) -> `VIOLATION property=C17`,
kind starved (driver asleep after 0 of 1 deliverable datagrams); undone -> exit 0.
"""
import json

from vlib import ToolError

META = {
    "level": "model_checking",
    "engine": "socket-recv",
    "technique": "TLA+ spec RelayRecv checked by TLC (per-slot loop, queue waker, driver discipline; as-written loop refuted); "
                 "every TLC behaviour replayed on the real RelayTransport::poll_recv and drained (mode A)",
    "text": "TLC explores every interleaving of batch arrivals (any length / segment size in the bound), channel close and "
            "receive polls (1..2 buffers, several buffer sizes), with arrivals also between the slots of a running poll, and "
            "checks that the delivered datagrams are always a prefix of the fitting datagrams in arrival order, that a driver "
            "that went to sleep has nothing queued and a waker registered, and that a drained transport has delivered exactly "
            "the fitting datagrams; the same invariants are refuted for the loop as written. Every sequential behaviour is then "
            "executed on the real RelayTransport (receive queue fed by the harness, counting waker, position-tagged bytes) and "
            "drained like noq's driver; delivered datagrams must be a prefix of the model's expectation after every poll and equal "
            "to it when the driver sleeps, and the drain must terminate.",
    "note": "Channel close (shutdown) is modelled as the code behaves: the poll that meets the closed queue returns the error and "
            "discards what its earlier slots had copied; C17 does not quantify over shutdown, so only in-order/no-duplication is "
            "required there. Batches have len >= 1 (an empty Datagrams is not modelled). Lengths are abstract units multiplied by a concretisation "
            "factor (1 and 200 quick; up to 8188, i.e. 57 kB batches / 49 kB buffers, thorough). Judged on property-level "
            "observables (what is delivered, in which order, termination, sleep only when drained); how many datagrams one poll "
            "returns is not prescribed. ECN is not modelled (poll_recv discards it).",
    "design_ref": "§6 C17, A.5",
}


def consts(lens, segs, arr, bufs, nbufs, **kw):
    c = {"Lens": lens, "Segs": segs, "MaxArrive": arr, "BufLens": bufs, "NBufs": nbufs}
    c.update(kw)
    return c


def run(ctx):
    if ctx.replay:
        rep = json.load(open(ctx.replay))["replay"]
        judge(ctx, [rep], execute(ctx, [rep], "replay"))
        return
    # 1. required design, all interleavings
    mc = ctx.pick(consts("{1,3,4,7}", "{0,2,5}", 2, "{2,4}", "{1,2}"),
                  consts("{1,2,3,4,5,6,7}", "{0,2,3,5}", 3, "{2,4,6}", "{1,2}"))
    ctx.tlc("socket", "RelayRecv", cfg="RelayRecv.cfg", mode="mc", constants=mc, timeout=3000,
            require_actions=["Arrive", "CloseChan", "PollBegin", "SlotQueueEmpty", "SlotQueueClosed", "SlotDeliver",
                             "SlotDrop", "PollEnd"])
    # 2. the loop as written is refuted on both counts
    small = consts("{1,3,4,7}", "{0,2,5}", 2, "{2,4}", "{1,2}")
    for cfg, inv in (("RelayRecv_aswritten_zero.cfg", "OutIsPrefixOfExpected"), ("RelayRecv_aswritten_wedge.cfg", "QuiescentMeansDrained"),
                     ("RelayRecv_loosetail.cfg", "BoundariesKept")):
        ctx.tlc("socket", "RelayRecv", cfg=cfg, mode="mc", workers=2, coverage=False, constants=small, expect_violation=inv)
    # 3. behaviours
    # Every generator alphabet must contain a batch with a non-dividing tail that is split over >= 2 slots / polls such
    # that the remainder is one full segment + a shorter tail (seg < rest < 2 seg): len 7 / seg 2 with 4-unit buffers
    # (rest 3: fits -> would be handed out merged) and len 7 / seg 3 with 3-unit buffers (rest 4: would be dropped whole).
    gens = ctx.pick(
        [consts("{1,3,7}", "{0,2,5}", 2, "{4}", "{1,2}", MayClose="TRUE", MaxSteps=4),
         consts("{2,7}", "{0,3}", 3, "{2,3}", "{2}", MayClose="TRUE", MaxSteps=5)],
        [consts("{1,3,7,9}", "{0,2,5}", 3, "{2,4,6}", "{1,2}", MayClose="TRUE", MaxSteps=6),      # ~1e5 behaviours
         consts("{2,5,7}", "{0,3}", 3, "{2,3,4}", "{1,2}", MayClose="TRUE", MaxSteps=7)])
    for g in gens:
        tail_split(g)
    scales = ctx.pick([1, 200], [1, 4, 200, 8188])
    cases = []
    for g in gens:
        res = ctx.tlc("socket", "RelayRecv", cfg="Gen_RelayRecv.cfg", mode="gen", constants=g, timeout=3000,
                      require_actions=["Arrive", "PollBegin", "SlotDeliver", "SlotDrop", "PollEnd"])
        if not res.replays:
            raise ToolError("TLC produced no behaviours")
        for i, b in enumerate(res.replays):
            if not any(s["op"] == "arrive" for s in b["steps"]):
                continue
            b["scale"] = scales[(i + ctx.seed) % len(scales)]
            b["drain_nb"] = 1 + (i + ctx.seed) % 2
            cases.append(b)
    judge(ctx, cases, execute(ctx, cases, "all"))
    ctx.cov["exact_conformance"] = "%d of %d scripted polls returned exactly the model's result (ret, number of datagrams)" % (
        ctx.cov.pop("_exact", 0), ctx.cov.pop("_polls", 0))
    ctx.cov["rule"] = ("every reachable sequential behaviour of the RelayRecv spec up to MaxSteps (exhaustive), each followed by a "
                       "driver-discipline drain; non-trivial = at least one datagram that does not fit or a batch with a segment size")
    ctx.cov["exhaustive"] = True
    ctx.assume("tokio mpsc: poll_recv registers the waker only when it returns Pending and a send wakes it (spec variable `waker`)")
    ctx.assume("noq's endpoint driver polls the socket again after Ready and after a wake-up, and only then")


def tail_split(g):
    """Guards the generator bounds: some (len, seg, buflen) must leave `one full segment + shorter tail` after a take."""
    ints = lambda t: [int(x) for x in t.strip("{}").split(",")]
    for l in ints(g["Lens"]):
        for sg in ints(g["Segs"]):
            for b in ints(g["BufLens"]):
                if sg and sg <= b:
                    rest = l
                    while rest > sg:
                        rest -= min((b // sg) * sg, rest)
                        if sg < rest < 2 * sg:
                            return
    raise ToolError("generator constants %s contain no batch whose remainder is one full segment + tail" % g)


def execute(ctx, cases, tag):
    inp = ctx.write_ndjson("c17-%s.in" % tag, [{"buflen": c["buflen"], "steps": c["steps"], "scale": c["scale"],
                                                "drain_nb": c["drain_nb"]} for c in cases])
    outp = ctx.path("c17-%s.out" % tag)
    ctx.run_bin("vh_socktx", ["c17", "--in", inp, "--out", outp])
    obs = ctx.read_ndjson(outp)
    if len(obs) != len(cases):
        raise ToolError("harness returned %d observations for %d cases" % (len(obs), len(cases)))
    return obs


def dgram_lens(length, seg):
    if seg == 0 or length <= seg:
        return [length]
    return [seg] * (length // seg) + ([length % seg] if length % seg else [])


def judge(ctx, cases, obs):
    for c, o in zip(cases, obs):
        F, buflen = c["scale"], c["buflen"]
        arrivals = [(s["len"], s["seg"]) for s in c["steps"] if s["op"] == "arrive"]
        oversize = any(d > buflen for (l, s) in arrivals for d in dgram_lens(l, s))
        seg_gt_buf = any(s > buflen for (l, s) in arrivals)
        ctx.count(case_key=[buflen, [(s["op"], s["len"], s["seg"], s["nb"]) for s in c["steps"]], F, c["drain_nb"]],
                  nontrivial=oversize or any(s for (l, s) in arrivals))
        expect = [(p["idx"], p["off"], p["len"]) for p in c["expect"]]
        base = {"oversize": oversize, "seg_gt_buf": seg_gt_buf}
        if o.get("panic"):
            ctx.report(dict(base, kind="panic"), "poll_recv panicked: %s" % o["panic"], c)
            continue
        # model's view of the scripted polls: the "end" records
        ends = [s for s in c["steps"] if s["op"] == "end"]
        got, bad, k = [], None, 0
        script = [s for s in o["steps"]]
        for phase, steps in (("scripted", script), ("drain", o["drain"])):
            for s in steps:
                if s["op"] != "poll":
                    continue
                if phase == "scripted":
                    m = ends[k]
                    k += 1
                    ctx.cov["_polls"] = ctx.cov.get("_polls", 0) + 1
                if s["ret"].startswith("err:"):
                    bad = bad or ("io_error", "poll_recv returned %s" % s["ret"])
                if s["ret"] == "ready" and not s["pieces"]:
                    bad = bad or ("empty_ready", "poll returned Ready with no datagram")
                for p in s["pieces"]:
                    if p["len"] == 0:
                        bad = bad or ("zero_length_delivery", "a zero-length datagram was handed to QUIC (%s poll, slots=%d)"
                                      % (phase, s["slots"]))
                        continue
                    if p["off"] % F or p["len"] % F:
                        bad = bad or ("not_prefix", "piece %s is not on a datagram boundary" % p)
                        continue
                    t = (p["idx"], p["off"] // F, p["len"] // F)
                    got.append(t)
                    if not p["intact"]:
                        bad = bad or ("not_prefix", "delivered bytes/source of %s differ from what batch %d carried" % (t, t[0]))
                    elif len(got) > len(expect) or expect[len(got) - 1] != t:
                        bad = bad or ("not_prefix", "delivered datagram #%d is %s, the property requires %s"
                                      % (len(got), t, expect[len(got) - 1] if len(got) <= len(expect) else "nothing more"))
                if phase == "scripted" and bad is None and s["ret"] == m["ret"] and len(got) == m["nout"]:
                    ctx.cov["_exact"] = ctx.cov.get("_exact", 0) + 1
        if bad is None and o["livelock"]:
            bad = ("livelock", "the drain did not terminate: %d polls kept returning Ready" % len(o["drain"]))
        polls = [s for s in script if s["op"] == "poll"] + o["drain"]
        closed_err = bool(polls) and polls[-1]["ret"] == "closed"
        # a poll that ends with the closed error discards what its earlier slots had copied (shutdown only; outside
        # the quantifier of C17): then only the prefix requirement applies
        if bad is None and got != expect and not closed_err:
            last = polls[-1]["ret"] if polls else "none"
            bad = ("starved", "the driver went to sleep (last poll: %s, no wake-up) after %d of %d deliverable datagrams; "
                              "missing %s" % (last, len(got), len(expect), expect[len(got):][:3]))
        if len(ctx.cov["samples"]) < 4 and oversize and len(expect) >= 2 and bad is None:
            ctx.sample({"buflen_bytes": buflen * F, "scale": F,
                        "steps": [[s["op"], s["len"], s["seg"], s["nb"]] for s in c["steps"] if s["op"] != "end"],
                        "delivered": got, "drain_polls": len(o["drain"])})
        if bad:
            ctx.report(dict(base, kind=bad[0]), "%s; buffer %d bytes, arrivals (len, segment_size) %s, scale %d"
                       % (bad[1], buflen * F, [(l * F, s * F) for (l, s) in arrivals], F), c)
