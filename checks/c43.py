"""C43 — Relay maps behave as maps and never deadlock (DESIGN.md §6 C43, Appendix A.13).

Spec: specs/relay/RelayMapLocks.tla (+ MC_RelayMapLocks.tla): RelayMap operations as sequences of
RwLock steps over objects shared by clone handles; contents url -> [id of the inserting op, token].
TLC runs
  1. the required design for operation sequences (one thread, ExtendDesign = "alias_check") and checks
     NeverBlocksForever, lock consistency and the map-semantics action properties; every complete
     sequence is printed with the returned value and the contents seen through every handle after
     every operation (the oracle for the binding);
  2. the code as written (ExtendDesign = "as_written"): TLC must refute NeverBlocksForever
     (`Start(extend a a); ExtW; stuck` — anti-vacuity, and the model-level form of the defect);
  3. two threads: "alias_check" still deadlocks by lock-order inversion (a.extend(&b) || b.extend(&a)),
     the "snapshot" design (never two locks) holds.  (Informational: C43 quantifies over sequences.)
Binding (mode A): each TLC sequence runs on the public iroh_relay::RelayMap (handles a, a2 = a.clone(),
b independent) on a watched worker thread; after every operation the return value, get() of every
URL through every handle, the other query methods and `==` for all handle pairs are compared with the
model.  An operation that does not return within the watchdog is "blocks forever".

Found on the pinned tree: `m.extend(&m.clone())` / `m.extend(&m)` never returns
(known finding C43_extend_alias_deadlock, proposed fix proposed_fixes/C43.diff).

Self-tests (private copy of /repo, see checks/c16.py for why): pinned tree -> blocks_forever on extend with
aliased arguments (221 hits of the known finding in the quick tier); with proposed_fixes/C43.diff applied the
check passes with no KNOWN-FINDING hit (so re-introducing the two-lock extend is reported again, as a VIOLATION
once the entry is `fixed`); mutation `insert` keeping an existing entry (`entry().or_insert`) -> VIOLATION
kind=contents op=insert; undone -> exit 0.
"""
import json

from vlib import ToolError
from checks.relayproto_common import binding_selftest

META = {
    "level": "model_checking",
    "engine": "relay-map",
    "technique": "TLA+ spec RelayMapLocks (RwLock acquisition per operation, clone aliasing) checked by TLC; every TLC "
                 "operation sequence replayed on the real RelayMap under a watchdog (mode A)",
    "text": "TLC explores all sequences of insert/remove/with_auth_token/extend/== over three handles (two of them clones "
            "sharing one map) and checks on the model that no operation waits forever for a lock, that locks are released, "
            "and that each operation has map semantics (insert/remove touch one key of one object, extend is the "
            "right-biased union and the identity on aliased arguments, clones always agree). Each sequence is executed on "
            "iroh_relay::RelayMap on a watched thread; return values, contents through every handle, len/is_empty/contains/"
            "urls/relays and == are compared after every operation; an operation that does not return is a violation.",
    "note": "Quick: all sequences of length 2 (exhaustive, 2 URLs) plus seeded random sequences of length 3 (3 URLs); "
            "thorough: all of length 3 plus random of length 4. 'Blocks forever' = no return within the watchdog (2 s quick) "
            "on an otherwise idle private map; each blocking prefix is executed once, and while the known finding "
            "C43_extend_alias_deadlock is open at most 400 (quick) / 600 (thorough) sequences containing an aliased extend "
            "are executed. Concurrency (two threads) is decided on the model only.",
    "design_ref": "§6 C43, A.13",
}

ONE = {"Threads": '{"t1"}', "ExtendDesign": '"alias_check"', "Record": "TRUE"}


def run(ctx):
    if ctx.replay:
        rep = json.load(open(ctx.replay))["replay"]
        execute(ctx, [rep], "replay")
        return
    # 2. the code as written deadlocks on the model
    ctx.tlc("relay", "MC_RelayMapLocks", cfg="RelayMapLocks.cfg", mode="mc", workers=1, coverage=False,
            constants={"Threads": '{"t1"}', "MaxOps": 1, "ExtendDesign": '"as_written"', "Record": "FALSE"},
            expect_violation="NeverBlocksForever")
    # 3. two threads: the alias check is not enough, the snapshot design is
    ctx.tlc("relay", "MC_RelayMapLocks", cfg="RelayMapLocks.cfg", mode="mc", workers=4, coverage=False,
            constants={"Threads": '{"t1", "t2"}', "MaxOps": 2, "ExtendDesign": '"alias_check"', "Record": "FALSE"},
            expect_violation="NeverBlocksForever")
    ctx.tlc("relay", "MC_RelayMapLocks", cfg="RelayMapLocks_snapshot.cfg", mode="mc", workers=4,
            constants={"Threads": '{"t1", "t2"}', "MaxOps": ctx.pick(2, 3), "Record": "FALSE"},
            require_actions=["Start", "Simple", "ExtSnap", "ExtApply", "EqR1", "EqR2"], timeout=1800)
    # 1. required design, one thread: decide + generate
    acts = ["Start", "Simple", "ExtAlias", "ExtW", "ExtR", "EqR1", "EqR2"]
    res = ctx.tlc("relay", "MC_RelayMapLocks", cfg="RelayMapLocks.cfg", mode="gen", timeout=3000,
                  constants=dict(ONE, MaxOps=ctx.pick(2, 3)), require_actions=acts)
    cases = list(res.replays)
    # deeper, sampled (seeded): sequences one longer, three URLs
    sim = ctx.tlc("relay", "MC_RelayMapLocks", cfg="RelayMapLocks_u3.cfg", mode="sim", sim=ctx.pick(600, 6000),
                  depth=ctx.pick(10, 13), constants=dict(ONE, MaxOps=ctx.pick(3, 4)), timeout=3000)
    seen = set()
    for b in sim.replays:
        k = json.dumps(b, sort_keys=True)
        if k not in seen:
            seen.add(k)
            cases.append(b)
    if not cases:
        raise ToolError("TLC produced no operation sequences")
    # Every sequence that runs into the open known finding costs a leaked thread and a watchdog wait.  While that
    # finding is open, at most `cap` sequences containing an extend with aliased arguments are executed (all others
    # always are); without an open finding nothing is capped.
    if any(f.get("status") == "open" and f.get("id") == "C43_extend_alias_deadlock" for f in ctx.findings):
        cap, kept, skipped = ctx.pick(400, 600), [], 0
        for c in cases:
            if any(x["op"] == "extend" and alias_class(x) in ("same_handle", "clone") for x in c["ops"]):
                if cap == 0:
                    skipped += 1
                    continue
                cap -= 1
            kept.append(c)
        cases = kept
        ctx.cov["sequences_not_executed_while_known_finding_open"] = skipped
    execute(ctx, cases, "seqs")
    ctx.cov["rule"] = ("every operation sequence of RelayMapLocks of length %d over 3 handles (2 clones) x 2 URLs (exhaustive) "
                       "plus %d distinct seeded random sequences of length %d over 3 URLs; non-trivial = the sequence has a "
                       "two-handle operation on aliased or a mutation seen through a clone"
                       % (ctx.pick(2, 3), len(seen), ctx.pick(3, 4)))
    ctx.cov["exhaustive"] = True
    ctx.assume("a std::sync::RwLock operation on a private, otherwise idle map that has not returned after the watchdog never returns")


def execute(ctx, cases, name):
    inp = ctx.write_ndjson("c43-%s.in" % name, cases)
    outp = ctx.path("c43-%s.out" % name)
    ctx.run_bin("vh_relayproto", ["c43", "--in", inp, "--out", outp, "--watchdog-ms", ctx.pick(2000, 3000)], timeout=3000)
    obs = ctx.read_ndjson(outp)
    if len(obs) != len(cases):
        raise ToolError("harness returned %d observations for %d cases" % (len(obs), len(cases)))
    copied = 0
    for c, o in zip(cases, obs):
        if o.get("same_as") is not None:
            copied += 1          # identical blocking prefix already executed and judged
            continue
        judge(ctx, c, o)
    for c, o in zip(cases, obs):
        if o.get("same_as") is None and o.get("blocked_at") is None and not o.get("panic") and len(c["ops"]) >= 2 \
                and c["ops"][0]["op"] == "insert":
            def set_after(c_, o_):
                h = sorted(o_["done"][0]["after"])[0]
                u = sorted(o_["done"][0]["after"][h])[0]
                o_["done"][0]["after"][h][u] = {"id": 77, "tok": 0}
            binding_selftest(ctx, judge, c, o, [
                ("contents", set_after),
                ("return value", lambda c_, o_: o_["done"][1].__setitem__("ret", {"id": 99, "tok": 0})),
                ("blocked", lambda c_, o_: o_.__setitem__("blocked_at", 1)),
                ("queries", lambda c_, o_: o_["done"][0].__setitem__("queries_consistent", False)),
                ("eq", lambda c_, o_: o_["done"][1].__setitem__("eq_consistent", False)),
                ("expected return", lambda c_, o_: c_["ops"][0].__setitem__("ret", {"id": 5, "tok": 0})),
                ("panic", lambda c_, o_: o_.__setitem__("panic", "boom"))])
            break
    ctx.cov["sequences_sharing_an_executed_blocking_prefix"] = ctx.cov.get("sequences_sharing_an_executed_blocking_prefix", 0) + copied


def alias_class(op):
    if op["b"] == "-":
        return "n/a"
    if op["a"] == op["b"]:
        return "same_handle"
    if {op["a"], op["b"]} == {"a", "a2"}:
        return "clone"
    return "independent"


def judge(ctx, c, o):
    ops = c["ops"]
    key = [(x["op"], x["a"], x["b"], x["u"]) for x in ops]
    nontrivial = any(alias_class(x) in ("same_handle", "clone") for x in ops) or \
        any(x["op"] in ("insert", "remove", "token") and x["a"] in ("a", "a2") for x in ops)
    ctx.count(case_key=key, nontrivial=nontrivial)
    if len(ops) >= 3 and any(x["op"] == "extend" and alias_class(x) == "independent" for x in ops) and \
            any(x["op"] == "token" for x in ops) and o.get("blocked_at") is None:
        ctx.sample({"ops": [[x["op"], x["a"], x["b"], x["u"], x["tok"]] for x in ops],
                    "final_contents": ops[-1]["after"]})
    if o.get("panic"):
        i = len(o["done"])
        ctx.report({"kind": "panic", "op": ops[min(i, len(ops) - 1)]["op"]}, "RelayMap operation panicked: %s" % o["panic"], c)
        return
    for i, x in enumerate(ops):
        if o.get("blocked_at") == i:
            al = alias_class(x)
            ctx.report({"kind": "blocks_forever", "op": x["op"], "alias": al,
                        "aliased": "yes" if al in ("same_handle", "clone") else "no"},
                       "%s(%s%s) did not return within the watchdog (operation %d of %s)"
                       % (x["op"], x["a"], (", " + x["b"]) if x["b"] != "-" else "", i, [k[:3] for k in key]), c)
            return
        if i >= len(o["done"]):
            raise ToolError("harness stopped after %d of %d operations without reporting why" % (len(o["done"]), len(ops)))
        y = o["done"][i]
        if y["ret"] != x["ret"]:
            ctx.report({"kind": "return_value", "op": x["op"], "alias": alias_class(x)},
                       "operation %d %s returned %s, the model says %s" % (i, x["op"], y["ret"], x["ret"]), c)
            return
        for h, view in x["after"].items():
            got = y["after"][h]
            for u, cfg in got.items():
                exp = view.get(u, {"id": 0, "tok": 0})
                if cfg != exp:
                    ctx.report({"kind": "contents", "op": x["op"], "alias": alias_class(x)},
                               "after operation %d %s: handle %s url %s holds %s, the model says %s" % (i, x["op"], h, u, cfg, exp), c)
                    return
        if not y["queries_consistent"]:
            ctx.report({"kind": "queries", "op": x["op"]}, "len/is_empty/contains/urls/relays disagree with get() after operation %d" % i, c)
            return
        if not y["eq_consistent"]:
            ctx.report({"kind": "eq", "op": x["op"]}, "`==` between handles disagrees with the contents after operation %d" % i, c)
            return
