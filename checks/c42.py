"""C42 — Connection hooks and connect preconditions gate every connection (DESIGN.md §6 C40/C42).

Spec: specs/router/Router.tla (+ MC_Router.tla).  TLC checks the C42 invariants (EstablishedOnlyIfAllAccept,
AcceptOnlyIfAllAccept, BeforeRejectStops, PreconditionsGate, ShortCircuit, RejectCodeSeen) on every behaviour of every
scenario and prints each scenario with each of its complete outcomes.  harness/src/bin/vh_router.rs (e2e) runs every
scenario on two real endpoints on 127.0.0.1 through the public API (`Endpoint::builder().hooks(h)` once per hook,
`connect_with_opts`): recording hooks (before_connect / after_handshake with accept or reject(code 40+i / 50+i)), the
recording handler of the accepting Router (reports the close code it saw).  This check judges the C42 clauses: which
hooks were called in which order, the connect result (LocallyRejected before the handshake / after it, SelfConnect,
InvalidAlpn, Ok), whether the protocol's `accept` ran, and the close codes each side saw.

Where the dialer's own after_handshake hook rejects, how far the accepting side got is a race the model leaves open
(`ServerLost`); where own-id / empty-protocol and a rejecting before_connect hook coincide, the model allows either
error (the property does not order them).

Establishment paths are a scenario dimension: the dialer either awaits its `Connecting` or uses
`Connecting::into_0rtt` + `handshake_completed()` (after a ticket-priming connection); the accepting side is the Router,
or an own accept loop that awaits the `Accepting`, or one that uses `Accepting::into_0rtt` + `handshake_completed()`.
The rule of the model is the same on every path, so the expectation for the extra dimension comes out of TLC as is
(added after seeded/_incoming/C42/patch.diff, which left the hooks out of both 0-RTT paths and was not caught).

Quick: all dialer hook lists (<= 2 hooks, 4 patterns each) x all acceptor hook lists; own id / empty protocol name (also
with an additional protocol) x all dialer hook lists; hooks behind a filter retry / reject; 2 dialer paths x 3 acceptor paths x {no hook, accept, reject} on either side.
Thorough: the path dimension x all hook list pairs x 6 registration/offer patterns (5 292 scenarios),: full product
model-checked, seeded sample run e2e.

Mutation self-tests (2026-09-22), run in the private mirror described in checks/c40.py:
 * /var/tmp/c42-mut-before.diff — EndpointHooksList::before_connect keeps calling hooks after a Reject and returns the
   last outcome -> VIOLATION clause=before_connect_calls (observed [[1,p],[2,p]] where the specification stops at 1);
 * /var/tmp/c42-mut-after.diff — conn_from_noq_conn ignores the after_handshake outcome
   -> VIOLATION clause=connect_result (Ok where the dialer hook rejected) and clause=protocol_accept_invoked (the
   accepting side ran the protocol although its hook rejected);
 * undone -> exit 0, no finding.
"""
import json

from vlib import ToolError
from checks import router_common as rc

META = {
    "level": "model_checking",
    "engine": "router",
    "technique": "TLA+ spec Router checked by TLC over scenario families; every TLC scenario executed end-to-end on real "
                 "endpoints (127.0.0.1, public API) and compared with the TLC outcomes (mode A)",
    "text": "TLC enumerates hook lists on both endpoints (accept / reject patterns for before_connect and after_handshake, "
            "order), dialing one's own id and empty protocol names, and checks on the model that a connection is "
            "established only if every hook accepts, that a before_connect rejection stops the attempt before anything is "
            "sent, that an after_handshake rejection closes with the hook's code, and that hooks are short-circuited.  "
            "Each scenario is run on real endpoints with recording hooks; hook call logs, connect result and the close "
            "codes seen by both sides must match one outcome of the model.",
    "note": "Weak readings: the order of precondition checks and before_connect hooks is not fixed (either error is allowed "
            "when both apply); after a dialer-side after_handshake rejection the progress of the accepting side is left "
            "open; before_connect hooks of the accepting endpoint are not part of an incoming connection.  An "
            "environment timeout is a tool error.",
    "design_ref": "§6 C40/C42",
}

FIELDS = [
    ("before_connect_calls", lambda o: [[e["i"], e["alpn"]] for e in o["c_before"]]),
    ("connect_result", lambda o: o["result"]),
    ("dialer_after_handshake_calls", lambda o: o["c_after"]),
    ("acceptor_after_handshake_calls", lambda o: o["s_after"]),
    ("protocol_accept_invoked", lambda o: any(e["ev"] == "accept" for e in o["hlog"])),
    ("close_code_seen_by_acceptor", lambda o: o["handler_saw"]),
    ("close_code_seen_by_dialer", lambda o: o["client_saw"]),
    ("filter_reached", lambda o: bool(o["filter_log"])),
]


def check_table(ctx, table, tag, selftest):
    obs = rc.run_e2e(ctx, table, tag)
    for k in sorted(table):
        s, outs = table[k]
        o = rc.normalise(obs[k], outs)
        ctx.count(case_key=k, nontrivial=bool(s["ch"] or s["sh"] or s["self"] or s["offers"][0] == ""))
        if len(s["ch"]) == 2 and s["sh"] and o["result"] != "LocallyRejected":
            ctx.sample({"scenario": rc.short(s), "observed": {n: f(o) for n, f in FIELDS}, "tlc_outcomes": len(outs)})
        bad = rc.judge(FIELDS, o, outs)
        if bad:
            clause, got, allowed = bad
            ctx.report({"clause": clause, "got": str(got)[:80], "self": s["self"], "empty_alpn": s["offers"][0] == "",
                    "dialer_path": s.get("cpath", "await"), "acceptor_path": s.get("spath", "router"),
                        "expected_results": ",".join(sorted({x["result"] for x in outs}))},
                       "scenario %s: %s observed %s; the specification allows %s"
                       % (rc.short(s), clause, json.dumps(got), "; ".join(allowed)[:400]),
                       {"scn": s, "observed": {n: f(o) for n, f in FIELDS}})
        elif selftest is not None and selftest["total"] < 60:
            for corrupt in (lambda x: x.update(c_before=x["c_before"] + [{"i": len(x["c_before"]) + 1, "alpn": "p"}]),
                            lambda x: x.update(result="Ok" if x["result"] != "Ok" else "LocallyRejected"),
                            lambda x: x.update(client_saw=x["client_saw"] + 1)):
                o2 = json.loads(json.dumps(o))
                corrupt(o2)
                selftest["total"] += 1
                if rc.judge(FIELDS, o2, outs):
                    selftest["rejected"] += 1


def run(ctx):
    selftest = {"total": 0, "rejected": 0}
    if ctx.replay:
        rep = json.load(open(ctx.replay))["replay"]
        p = ctx.write_ndjson("c42-replay-scn.json", [rep["scn"]])
        table = rc.tlc_outcomes(ctx, "MC_Router_Json.cfg", env={"SCN": p}, require=None)
        check_table(ctx, table, "c42-replay", None)
        return
    table = rc.tlc_outcomes(ctx, "MC_Router_C42Quick.cfg")
    check_table(ctx, table, "c42", selftest)
    if not ctx.quick:
        check_table(ctx, rc.tlc_outcomes(ctx, "MC_Router_C42Paths.cfg", require=None), "c42-paths", selftest)
        ctx.tlc("router", "MC_Router", cfg="MC_Router_Small.cfg", timeout=3000, heap="8g", require_actions=rc.ALL_ACTIONS)
        p = ctx.write_ndjson("c42-sample-scn.json", rc.sample_full(ctx.seed + 1000, 1500))
        table2 = rc.tlc_outcomes(ctx, "MC_Router_Json.cfg", env={"SCN": p})
        check_table(ctx, table2, "c42-sample", selftest)
    if selftest["rejected"] != selftest["total"] or selftest["total"] == 0:
        raise ToolError("binding self-test failed: %s" % selftest)
    ctx.cov["binding_selftests"] = selftest
    ctx.cov["rule"] = ("every scenario of MC_Router!FamC42Quick (21 dialer hook lists x 7 acceptor hook lists; own id / empty "
                       "protocol x 21 dialer hook lists; hooks behind retry/reject filters) run e2e; thorough adds the "
                       "product with <= 1 hook per side model-checked and a seeded sample of 1500 of the full product run "
                       "e2e; a case is non-trivial when a hook is installed or a precondition fails")
    ctx.cov["exhaustive"] = True
    ctx.assume("a close frame sent by Connection::close reaches the peer on loopback")
