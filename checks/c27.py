"""C27 -- Net report aggregation is order-consistent (DESIGN.md §6 C27).

Spec: specs/netreport/NetReport.tla (action Update = Report::update; invariants
GlobalIsFirstObserved, MappingVariesRule, UdpRule, LatencyIsMinimumPerKind over the ghost
sequence of folded probe reports) and specs/netreport/RelayLatencies.tla (MergeCommutes,
MergeIdempotent, MergeKeepsMinima, GetIsLowest over all pairs of tables built with
update_relay).  Binding mode A: every sequence / table pair TLC enumerates is replayed on the
real `Report::update` / `RelayLatencies::{update_relay, merge, get}` (cfg-guarded wrappers in
iroh/src/net_report/report.rs, re-exported by iroh::verif_hooks_netrep) and the report is
compared field by field after every step with the expectation TLC printed.

Mutation self-test (2026-09-22): in report.rs `Report::update`, QadIpv4 arm, `self.global_v4 =
Some(ipp);` added after the if/else ("later observation overwrites global_v4", DESIGN §12)
-> exit 1, `VIOLATION ... Report::update deviates from the spec at step 2: global_v4 expected a,
got b`; undone -> exit 0.
"""
META = {
    "level": "model_checking",
    "engine": "net-report",
    "technique": "TLA+ specs NetReport (Update) and RelayLatencies (merge) checked by TLC; every enumerated probe-report "
                 "sequence and table pair replayed on the real Report::update / RelayLatencies (mode A)",
    "text": "TLC enumerates every sequence of probe reports of a round (kinds https/qad4/qad6, relays, latencies, observed "
            "addresses a/b of the right and of the wrong family) up to the bound and checks on the model: global address = "
            "first observed per family, mapping-varies none/false/true by the number and equality of observations, udp flags, "
            "latency = minimum per (kind, relay); and, for every pair of latency tables built by update_relay, that merge is "
            "commutative, idempotent and the pointwise minimum and that get is the lowest across kinds.  Each sequence is "
            "then executed on Report::update and each pair on RelayLatencies::merge/get; all Report fields are compared with "
            "the model after every step.",
    "note": "Bounded: quick = 3 probe reports per round over (1 relay x 2 latencies) and (2 relays x 1 latency), 2 addresses, "
            "both families; merge: <= 3 update_relay calls over both tables.  Zero latencies are excluded.  'first observed' "
            "is per probe family (qad4 with a v4 address, qad6 with a v6 address); a wrong-family address contributes only "
            "its latency.",
    "design_ref": "§6 C27",
}

from vlib import ToolError


def seq_configs(ctx):
    base = {"Addrs": '{"a", "b"}', "Fams": '{"v4", "v6"}'}
    quick = [
        dict(base, NRelays=1, Lats="{4, 6}", MaxProbes=3),
        dict(base, NRelays=2, Lats="{4}", MaxProbes=3),
    ]
    thorough = [
        dict(base, NRelays=2, Lats="{4, 6}", MaxProbes=3),
        dict(base, NRelays=1, Lats="{4, 6}", MaxProbes=4),
    ]
    return ctx.pick(quick, thorough)


def merge_configs(ctx):
    return ctx.pick([dict(NRelays=2, Lats="{4, 6}", MaxOps=3)],
                    [dict(NRelays=2, Lats="{4, 6}", MaxOps=4), dict(NRelays=3, Lats="{4, 6, 9}", MaxOps=3)])


def run(ctx):
    if ctx.replay:
        import json
        rep = json.load(open(ctx.replay))["replay"]
        kind = "merge" if "merged" in rep else "seq"
        judge(ctx, kind, [rep], run_harness(ctx, kind, [rep], "replay"))
        return
    for n, consts in enumerate(seq_configs(ctx)):
        res = ctx.tlc("netreport", "NetReport", cfg="NetReport_C27.cfg", mode="gen", constants=consts, timeout=3000,
                      require_actions=["Update", "Finish"])
        cases = res.replays
        if not cases:
            raise ToolError("NetReport_C27 produced no cases")
        judge(ctx, "seq", cases, run_harness(ctx, "seq", cases, "seq%d" % n))
    for n, consts in enumerate(merge_configs(ctx)):
        res = ctx.tlc("netreport", "RelayLatencies", mode="gen", constants=consts, timeout=3000,
                      require_actions=["Upd1", "Upd2"])
        seen, cases = set(), []
        for c in res.replays:            # the op counter makes TLC print a pair more than once
            k = repr((c["a"], c["b"]))
            if k not in seen:
                seen.add(k)
                cases.append(c)
        judge(ctx, "merge", cases, run_harness(ctx, "merge", cases, "merge%d" % n))
    rounds(ctx)
    binding_selftest(ctx)
    ctx.cov["rule"] = ("every sequence of MaxProbes probe reports over the configured alphabet (exhaustive), compared after "
                       "every step; every reachable pair of latency tables with <= MaxOps entries (exhaustive).  A sequence is "
                       "non-trivial when it has >= 2 address observations of one family or two latencies for one (kind, relay); "
                       "a pair when both tables are non-empty")
    ctx.cov["exhaustive"] = True
    ctx.assume("the harness maps model addresses a/b to fixed socket addresses and relays r1<r2<r3 to URLs with the same order")


def rounds(ctx):
    """Growth: the aggregation followed by the finishing step (C27 + C28 pipeline, as Client::get_report does):
    two rounds of probe reports on one real Report each, finished through the real report history under the paused
    clock; what was aggregated must survive the finishing step unchanged."""
    consts = ctx.pick(dict(NRelays=1, Lats="{4}", MaxProbes=2), dict(NRelays=1, Lats="{4, 6}", MaxProbes=2))
    res = ctx.tlc("netreport", "NetReport", cfg="NetReport_Rounds.cfg", mode="gen", constants=consts, timeout=3000,
                  require_actions=["Update", "Finish"])
    cases = res.replays
    if not cases:
        raise ToolError("NetReport_Rounds produced no cases")
    inp = ctx.write_ndjson("c27-rounds.in", cases)
    outp = ctx.path("c27-rounds.out")
    ctx.run_bin("vh_netrep", ["c27rounds", "--in", inp, "--out", outp])
    obs = ctx.read_ndjson(outp)
    if len(obs) != len(cases):
        raise ToolError("harness returned %d observations for %d cases" % (len(obs), len(cases)))
    inherit_diff = 0
    for c, o in zip(cases, obs):
        key = ["rounds", [[r["dt"], [[s["p"][f] for f in ("kind", "relay", "lat", "fam", "addr")] for s in r["probes"]]]
                          for r in c["rounds"]]]
        inherited = any(r["var4"] != r["agg"]["var4"] or r["var6"] != r["agg"]["var6"] for r in c["rounds"])
        ctx.count(case_key=key, nontrivial=inherited or any(len(r["probes"]) >= 2 for r in c["rounds"]))
        if not o["ok"]:
            ctx.report({"kind": "rounds", "field": o["what"], "exp": o["exp"], "got": o["got"]},
                       "round %d step %d: %s expected %s, got %s" % (o["round"] + 1, o["step"], o["what"], o["exp"], o["got"]), c)
            continue
        # mapping_varies inherited from the previous report is documented code behaviour outside C27/C28: recorded only
        if [list(v) for v in o["varies"]] != [[r["var4"], r["var6"]] for r in c["rounds"]]:
            inherit_diff += 1
        if inherited:
            ctx.sample({"rounds": key[1], "mapping_varies_after_finish": o["varies"], "preferred": o["prefs"]}, limit=6)
    ctx.log("rounds: %d histories, %d with a mapping_varies inheritance differing from the model (informational)"
            % (len(cases), inherit_diff))


def binding_selftest(ctx):
    """A falsified expectation must be noticed by the harness comparison."""
    case = {"steps": [
        {"p": {"kind": "qad4", "relay": "r1", "lat": 4, "fam": "v4", "addr": "a"},
         "exp": {"udp4": True, "udp6": False, "var4": "none", "var6": "none", "glob4": "a", "glob6": "none", "lat": [0, 4, 0]}},
        {"p": {"kind": "qad4", "relay": "r1", "lat": 6, "fam": "v4", "addr": "b"},
         "exp": {"udp4": True, "udp6": False, "var4": "true", "var6": "none", "glob4": "a", "glob6": "none", "lat": [0, 4, 0]}}]}
    import copy
    flipped = []
    for field, val in (("glob4", "b"), ("var4", "false"), ("lat", [0, 6, 0])):
        c = copy.deepcopy(case)
        c["steps"][1]["exp"][field] = val
        flipped.append(c)
    obs = run_harness(ctx, "seq", [case] + flipped, "selftest")
    if not obs[0]["ok"] or any(o["ok"] for o in obs[1:]):
        raise ToolError("binding self-test: falsified expectations were not all rejected: %s" % obs)
    ctx.log("binding self-test: 3 falsified expectations rejected, the true one accepted")


def run_harness(ctx, kind, cases, tag):
    inp = ctx.write_ndjson("c27-%s.in" % tag, cases)
    outp = ctx.path("c27-%s.out" % tag)
    ctx.run_bin("vh_netrep", ["c27seq" if kind == "seq" else "c27merge", "--in", inp, "--out", outp])
    obs = ctx.read_ndjson(outp)
    if len(obs) != len(cases):
        raise ToolError("harness returned %d observations for %d cases" % (len(obs), len(cases)))
    return obs


def seq_nontrivial(c):
    fam4 = [s for s in c["steps"] if s["p"]["kind"] == "qad4" and s["p"]["fam"] == "v4"]
    fam6 = [s for s in c["steps"] if s["p"]["kind"] == "qad6" and s["p"]["fam"] == "v6"]
    keys = [(s["p"]["kind"], s["p"]["relay"]) for s in c["steps"]]
    return len(fam4) >= 2 or len(fam6) >= 2 or len(set(keys)) < len(keys)


def judge(ctx, kind, cases, obs):
    for c, o in zip(cases, obs):
        if kind == "seq":
            key = [[s["p"][f] for f in ("kind", "relay", "lat", "fam", "addr")] for s in c["steps"]]
            nontrivial = seq_nontrivial(c)
            if nontrivial and len({s["p"]["addr"] for s in c["steps"] if s["p"]["kind"] != "https"}) > 1:
                ctx.sample({"steps": key, "final": c["steps"][-1]["exp"]})
        else:
            key = ["merge", [[e["kind"], e["relay"], e["lat"]] for e in c["a"]], [[e["kind"], e["relay"], e["lat"]] for e in c["b"]]]
            nontrivial = bool(c["a"]) and bool(c["b"])
            if nontrivial and len(c["a"]) + len(c["b"]) >= 3:
                ctx.sample({"a": key[1], "b": key[2], "merged": c["merged"], "get": c["get"]}, limit=6)
        ctx.count(case_key=key, nontrivial=nontrivial)
        if not o["ok"]:
            ctx.report({"kind": kind, "field": o["what"], "exp": o["exp"], "got": o["got"]},
                       "%s deviates from the spec at step %d: %s expected %s, got %s"
                       % ("Report::update" if kind == "seq" else "RelayLatencies", o["step"], o["what"], o["exp"], o["got"]), c)
