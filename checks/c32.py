"""C32 — Signed packets are accepted only if authentic and are safe to inspect (DESIGN.md §6 C32).

Spec: specs/dns/Pkarr.tla — symbolic packets [len, key, sig, ts, pl] (Dolev-Yao signatures),
honest publisher, composing network, the four public constructors of
`iroh_dns::pkarr::SignedPacket`, all accessors.

 1. TLC checks the design the property requires (UncheckedValidatesKey = TRUE): the checked
    constructors accept exactly the authentic packets, nothing is accepted under the honest key
    that was not published, every single-field modification of an accepted packet is rejected,
    every value any constructor returns has total accessors.  The code as written
    (UncheckedValidatesKey = FALSE) is refuted on TotalAccessors.
 2. TLC prints the decision table: every composable abstract packet x constructor -> outcome.
 3. The harness (vh_dns c32) concretises every table row into bytes (real ed25519 keys and
    signatures over its own BEP44 encoding, DNS payloads built by the crate, non-point / weak key
    bytes, junk payload, short / long lengths) and also derives byte-level mutants of an honest
    packet (every byte position x masks, truncations, extensions, seeded pairs, crate-built packets
    from random TXT content), classifying each mutant back into the model's classes with
    independent primitives (ed25519-dalek, simple-dns).  Every constructor is applied; on
    acceptance every accessor, Display and Debug run under catch_unwind.
 4. Verdict from the table: a checked constructor must accept iff the table says "ok"; whatever
    any constructor accepts must be inspectable without panic and show the bytes it was built
    from.  Acceptance by the *unchecked* constructors is not compared (the property only requires
    their results to be safe to inspect).

Relay payload forms (follow-up): besides the bare payload `<sig><ts><dns>`, from_relay_payload(k, ..) is
offered the *complete* wire encoding `<key'><sig><ts><dns>` of every composable packet (action
OfferRelayFull(k), k in {k1, k2}: authentic packets of another key k', of k itself, and everything
else) — abstract rows and, concretely, every byte mutant / truncation / crate-built honest packet.
Invariant RelayBoundToKey (an accepted relay payload yields a packet that carries the requested key
and is authentic under it) is judged on the real result with independent primitives (returned key
bytes = requested key, ed25519-dalek verify_strict); the deviating design LenientRelay = TRUE
("a payload that verifies as a complete packet is returned as it is") is refuted by TLC.  Whether a
complete authentic packet of k *itself* may be taken for k is left open (weak reading: `judge` =
false in the table; the result is still judged).  Seeded changes of the coordinator:
seeded/_incoming/C32/patch.diff (lenient from_relay_payload) => VIOLATION
kind=relay_payload_not_bound_to_key (k2-signed complete packet accepted for k1);
seeded/_incoming/C32/patch2.diff (relative name by string slicing) => VIOLATION kind=panic_on_inspect
(all_txt_records / Display: "attempt to subtract with overflow") on every accepted packet whose
payload class is px — px is concretised as a record at the apex of its zone (name "@"), so this
does not depend on the random TXT pass.  Unchanged tree: exit 0, no KNOWN-FINDING line.

Growth: specs/dns/PkarrOrder.tla models `more_recent_than` (the order behind "keep the newest packet"):
TLC checks it is a strict total order on (timestamp, payload) and the answer for every ordered pair
is compared with the real method on real packets (case kind "order").

Mutation self-test (2026-09-22): signature verification removed from `from_bytes`
(`public_key.verify(..)?` dropped) => VIOLATION kind=accepted_unauthentic (from_bytes and
from_relay_payload accept k1-keyed packets carrying k2's signature); undone => exit 0 (only the known
finding).  With proposed_fixes/C32.diff applied: exit 0, no KNOWN-FINDING line.
"""
import json

from vlib import ToolError

META = {
    "level": "model_checking",
    "engine": "pkarr",
    "technique": "symbolic TLA+ spec Pkarr checked by TLC; TLC's decision table concretised to real packets and byte-level mutants "
                 "offered to the real constructors; accessors under catch_unwind (mode A)",
    "text": "TLC checks on a symbolic packet model (fields as classes, Dolev-Yao signatures) that the checked constructors accept "
            "exactly authentic packets, that any single-field modification of an accepted packet is rejected and that every "
            "returned value is safe to inspect, and emits the decision table. The harness builds real packets for every row, "
            "mutates every byte of an honest packet, truncates/extends it, and builds packets from random TXT content; each is "
            "offered to from_bytes / from_relay_payload / from_bytes_unchecked / from_parts_unchecked and every accessor, "
            "Display and Debug is run under catch_unwind; results are judged by the table.",
    "note": "Byte contents are sampled (one honest packet, every position x 2-3 masks, seeded pairs), not exhaustive; signatures "
            "are assumed unforgeable; acceptance by the unchecked constructors is not judged, only safety of what they return.",
    "design_ref": "§6 C32",
}


def pkey(pkt, ctor, rk="-", form="-"):
    if ctor == "from_relay_payload" and form in ("-", "bare"):
        rk, form = pkt["key"], "bare"
    return json.dumps([pkt["len"], pkt["key"], pkt["sig"]["k"], pkt["sig"]["ts"], pkt["sig"]["pl"], pkt["ts"], pkt["pl"], ctor, rk, form])


def run(ctx):
    acts = ["Publish", "Compose", "Offer", "InspectAll"]
    # required design: invariants hold; the same run prints the decision table
    res = ctx.tlc("dns", "Pkarr", cfg="Gen_Pkarr.cfg", mode="gen", timeout=3000, require_actions=acts,
                  constants={"UncheckedValidatesKey": "TRUE", "LenientRelay": "FALSE", "MaxPublish": 1})
    # code as written: refuted
    ctx.tlc("dns", "Pkarr", cfg="Pkarr.cfg", mode="mc", workers=2, timeout=900, coverage=False,
            constants={"UncheckedValidatesKey": "FALSE", "LenientRelay": "FALSE", "MaxPublish": 0}, expect_violation="TotalAccessors")
    # "a payload that verifies as a complete packet is returned as it is": not bound to the requested key
    ctx.tlc("dns", "Pkarr", cfg="Pkarr.cfg", mode="mc", workers=2, timeout=900, coverage=False,
            constants={"UncheckedValidatesKey": "TRUE", "LenientRelay": "TRUE", "MaxPublish": 0}, expect_violation="RelayBoundToKey")
    # growth beyond C32: the order `more_recent_than` (PkarrOrder.tla): strict total order, expected answer per pair
    ores = ctx.tlc("dns", "PkarrOrder", cfg="PkarrOrder.cfg", mode="gen", timeout=900, coverage=False)
    order = {json.dumps([r["a"], r["b"]], sort_keys=True): r["newer"] for r in ores.replays}
    table = {}
    for r in res.replays:
        table.setdefault(pkey(r["pkt"], r["ctor"], r["rk"], r["form"]), r)
    ctx.log("decision table: %d rows" % len(table))

    cases = []
    if ctx.replay:
        rep = json.load(open(ctx.replay))["replay"]
        cases = [dict(rep["case"], id=0)]
    else:
        for r in table.values():
            cases.append({"id": len(cases), "kind": "abstract", "ctor": r["ctor"], "pkt": r["pkt"], "rk": r["rk"], "form": r["form"]})
        cases.append({"id": len(cases), "kind": "bytemut", "masks": ctx.pick([0x01, 0x80], [0x01, 0x10, 0x80, 0xff])})
        cases.append({"id": len(cases), "kind": "truncext"})
        cases.append({"id": len(cases), "kind": "pairs", "count": ctx.pick(300, 5000)})
        cases.append({"id": len(cases), "kind": "honest", "count": ctx.pick(200, 2000)})
        cases.append({"id": len(cases), "kind": "order", "count": 3})
    inp = ctx.write_ndjson("c32.in", cases)
    outp = ctx.path("c32.out")
    ctx.run_bin("vh_dns", ["c32", "--in", inp, "--out", outp], timeout=1800)
    obs = ctx.read_ndjson(outp)
    bycase = {c["id"]: c for c in cases}
    seen_abstract = set()
    for o in obs:
        case = bycase[o["case"]]
        if o["ctor"] == "order":
            exp = order[json.dumps([o["a"], o["b"]], sort_keys=True)]
            ctx.count(case_key=["order", o["a"], o["b"]], nontrivial=o["a"] != o["b"])
            if o["panic"] is not None or o["newer"] != exp:
                ctx.report({"kind": "order", "ts": "eq" if o["a"]["ts"] == o["b"]["ts"] else "ne"},
                           "more_recent_than(%s, %s) = %s, the spec says %s" % (o["a"], o["b"], o["panic"] or o["newer"], exp),
                           {"case": case, "observed": o})
            continue
        abs_, ctor = o["abs"], o["ctor"]
        replay = {"case": case if case["kind"] != "abstract" else {"kind": "abstract", "ctor": ctor, "pkt": abs_, "rk": o["rk"], "form": o["form"]},
                  "observed": o}
        if ctor == "from_txt_strings":
            ctx.report({"kind": "panic_in_constructor", "ctor": ctor}, "from_txt_strings panicked: %s (%s)" % (o["insp"], o["note"]), replay)
            continue
        row = table.get(pkey(abs_, ctor, o["rk"], o["form"]))
        if row is None:
            raise ToolError("abstract packet not in TLC's table: %s %s (%s)" % (abs_, ctor, o["note"]))
        if case["kind"] == "abstract":
            seen_abstract.add(pkey(abs_, ctor, o["rk"], o["form"]))
        ctx.count(case_key=[abs_, ctor], nontrivial=abs_["len"] == "ok")
        cls = o["cls"]
        if case["kind"] == "honest" and not (cls["len"] == "ok" and cls["point"] and cls["verifies"] and cls["parses"]):
            ctx.report(dict(kind="built_packet_not_wellformed", ctor="from_txt_strings"),
                       "from_txt_strings built a packet that is not authentic by independent check (%s): %s" % (o["note"], cls), replay)
            continue
        if abs_["len"] == "ok" and (cls["len"] != "ok" or cls["point"] != row["point"] or cls["verifies"] != row["verifies"]
                                     or cls["parses"] != row["parses"]):
            raise ToolError("concretisation does not realise the abstract packet: %s classified %s, table %s (%s)"
                            % (abs_, cls, {k: row[k] for k in ("point", "verifies", "parses")}, o["note"]))
        if abs_["len"] != "ok" and cls["len"] != abs_["len"]:
            raise ToolError("concretisation has length class %s for %s (%s)" % (cls["len"], abs_, o["note"]))
        sig = {"ctor": ctor, "checked": "yes" if row["checked"] else "no", "key": abs_["key"], "len": abs_["len"],
               "sigterm": "garbage" if abs_["sig"]["k"] == "none" else "signed", "pl": abs_["pl"], "form": o["form"]}
        if o["err"] == "panic":
            ctx.report(dict(sig, kind="panic_in_constructor"), "%s panicked on %s: %s" % (ctor, o["note"], o["insp"]), replay)
            continue
        exp_ok = row["out"] == "ok"
        if ctor == "from_relay_payload" and o["accepted"] and not (o["val_key_ok"] and o["val_verifies"]):
            # RelayBoundToKey on the real result: the returned packet must carry the requested key and verify under it
            ctx.report(dict(sig, kind="relay_payload_not_bound_to_key", rk=o["rk"]),
                       "from_relay_payload for key %s returned a packet %s (%s; offered packet classes %s, payload form %s)"
                       % (o["rk"], "that carries another key" if not o["val_key_ok"] else "that does not verify", o["note"], abs_, o["form"]),
                       replay)
            continue
        if row["checked"] and row["judge"] and o["accepted"] != exp_ok:
            kind = "accepted_unauthentic" if o["accepted"] else "rejected_authentic"
            ctx.report(dict(sig, kind=kind),
                       "%s %s a packet the spec %s (%s; classes %s; code said %r, spec says %r)"
                       % (ctor, "accepted" if o["accepted"] else "rejected", "rejects" if o["accepted"] else "accepts",
                          o["note"], abs_, o["err"] or "ok", row["out"]), replay)
            continue
        if o["accepted"]:
            panics = sorted(a for a, v in o["insp"].items() if v != "ok")
            if panics:
                ctx.report(dict(sig, kind="panic_on_inspect"),
                           "%s accepted a packet (%s, key class %s) on which %s panic: %s"
                           % (ctor, o["note"], abs_["key"], ", ".join(panics), o["insp"][panics[0]]), replay)
                continue
            if not o["fields_ok"]:
                ctx.report(dict(sig, kind="fields"), "%s accepted a packet (%s) whose accessors do not show the bytes it was built from"
                           % (ctor, o["note"]), replay)
                continue
        if abs_["len"] == "ok" and abs_["key"] in ("np", "weak") and case["kind"] == "abstract" and not row["checked"]:
            ctx.sample({"abstract_packet": abs_, "constructor": ctor, "spec_outcome": row["out"], "accepted": o["accepted"],
                        "error": o["err"], "inspect": o["insp"]})
    if not ctx.replay:
        applicable = {k for k, r in table.items()
                      if not (r["ctor"] == "from_parts_unchecked" and r["pkt"]["len"] == "short")}
        missing = applicable - seen_abstract
        if missing:
            raise ToolError("%d table rows were not executed, e.g. %s" % (len(missing), sorted(missing)[:3]))
    ctx.cov["rule"] = ("every row of TLC's decision table (composable abstract packet x constructor) concretised once; plus every byte "
                       "position of an honest packet x masks, every truncation, extensions, seeded position pairs, crate-built packets "
                       "from random TXT content, each classified back into a table row; non-trivial = length class ok")
    ctx.cov["exhaustive"] = False
    ctx.assume("ed25519 signatures are unforgeable; a byte-mutated signature / signed content does not verify")
