"""C34 — Staggered DNS lookups never panic and return the first success (DESIGN.md §6 C34).

Spec: specs/dns/DnsResolve.tla (stagger_call + add_jitter + Inner::op timeout + the dual-stack /
endpoint-info attempt rules), scenario sets in MC_DnsResolve.tla, trace spec Trace_DnsResolve.tla.

What decides:
 1. TLC model-checks the required design (GuardZeroJitter = TRUE, add_jitter's exact integer
    arithmetic with scaled u64 saturation) on every scenario of the small-scope sets: no panic,
    jitter windows inside +/-20 %, one attempt at 0, none skipped, result = first success in
    completion order else every attempt's error.  The code as written (GuardZeroJitter = FALSE)
    is refuted (NoPanic) — anti-vacuity.
 2. TLC enumerates the scenarios (api x delay list x scripted answers); each is executed on the
    real public functions `lookup_ipv4_staggered`, `lookup_ipv6_staggered`,
    `lookup_ipv4_ipv6_staggered`, `lookup_endpoint_by_id_staggered` of a `DnsResolver::custom`
    with a scripted `Resolver` under tokio's paused clock (harness/src/bin/vh_dns.rs c34).
 3. The observations (instant of every resolver call, instant and value of the result, or
    "still pending at the horizon") are validated as one long trace by TLC against
    Trace_DnsResolve (contract windows, because the jitter is random): a rejected event is a
    property violation (start instant outside tolerance / missing or extra attempt / wrong
    result or error list / no return).  A panic is a violation by itself.

Deviation from DESIGN: because `add_jitter` uses `rand::random` (not seedable from outside),
expected observations cannot be replayed value-for-value; the observation is validated as a
trace (mode B style acceptance) instead of compared with one expected behaviour.  Huge delays:
TLC integers are 32 bit, so u64::MAX is scaled to U64Max = 2*10^7 in the model and the delay
classes max / ovf / half are concretised to u64::MAX, u64::MAX/40+1, u64::MAX/2.

Mutation self-tests (2026-09-22, on a private copy of /repo via VERIF_REPO): (a) `MAX_JITTER_PERCENT * 2`
-> `MAX_JITTER_PERCENT * 4` in add_jitter (jitter range doubled) => VIOLATION: e.g. delay 3 ms started
at 2 ms, trace rejected at that `start` event; (b) `Ok(t) => return Ok(t)` replaced by remembering the
last Ok and returning after the loop => VIOLATION kind=ret (returned k=2 at 5 ms / k=1 at 3000 ms where
the first success was due).  Both undone => exit 0 (only the known finding).  With
proposed_fixes/C34.diff applied: exit 0, no KNOWN-FINDING line.

Binding self-tests (every run): an accepted trace with (i) a result naming an attempt that does not
exist, (ii) an error list missing one attempt's error, (iii) a start instant 100 % late must be rejected
by TLC at exactly that event, else the check fails with a tool error.
"""
import json
import random

from vlib import ToolError

META = {
    "level": "model_checking",
    "engine": "dns-resolver",
    "technique": "TLA+ spec DnsResolve checked by TLC; TLC-enumerated scenarios run on the real staggered lookups under "
                 "virtual time; observed call/return traces validated by TLC against the spec (trace validation)",
    "text": "TLC checks on the model that, for every delay list and answer pattern in scope, add_jitter's integer arithmetic "
            "is defined and stays within +/-20 %, one attempt starts at 0 and one per delay, and the result is the first "
            "success in completion order or else all errors. The same scenarios are executed on DnsResolver's public "
            "lookup_*_staggered functions with a scripted Resolver under tokio's paused clock; panics are violations, and "
            "the recorded call instants and results must be accepted by TLC as a behaviour of the spec.",
    "note": "Bounded: <= 2 delays (3 attempts) from {0,1,2,3,5,10} ms exhaustively, 300 ms and the huge classes in a "
            "smaller set; answers ok/err(/unparsable TXT) after a duration below, at or above the timeout. Jitter is random "
            "in the code: any start instant inside +/-20 % (ms granularity) is accepted, ties at one instant may resolve in "
            "any order. u64 saturation is modelled at a scaled bound.",
    "design_ref": "§6 C34",
}

TIMEOUT = 12          # ms, `timeout` argument of the ip lookups (Trace_DnsResolve.cfg: Timeout)
HORIZON = 100000      # ms of virtual time after which the harness gives up on a call
U64 = 2 ** 64 - 1
CONCRETE = {"max": U64, "ovf": U64 // 40 + 1, "half": U64 // 2}

# scenario families are defined in MC_DnsResolve.tla (Family(name))
QUICK = ["small-v4", "small-v6", "dual", "txt", "big1"]
THOROUGH = ["small-v4-t", "three", "small-v6", "dual-t", "txt-t", "big2"]


def fset(names):
    return "{" + ", ".join('"%s"' % n for n in names) + "}"


def run(ctx):
    fams = QUICK if ctx.quick else THOROUGH
    acts = ["Schedule", "StartSome", "FinishSome", "Return"]
    if ctx.replay:
        rep = json.load(open(ctx.replay))["replay"]
        execute(ctx, [rep["scenario"]], reps=rep.get("reps", 5))
        return

    # 1. the design the property requires holds on the model; the code as written is refuted
    ctx.tlc("dns", "MC_DnsResolve", cfg="DnsResolve.cfg", mode="mc", workers=ctx.pick(4, 8), timeout=3000,
            constants={"Families": fset(fams), "U64Max": 20000000, "GuardZeroJitter": "TRUE"}, require_actions=acts)
    ctx.tlc("dns", "MC_DnsResolve", cfg="DnsResolve.cfg", mode="mc", workers=2, timeout=600,
            constants={"Families": fset(["sat"]), "U64Max": 4000, "GuardZeroJitter": "TRUE"}, require_actions=acts)
    ctx.tlc("dns", "MC_DnsResolve", cfg="DnsResolve.cfg", mode="mc", workers=1, timeout=600, coverage=False,
            constants={"Families": fset(["small-v6", "big1"]), "U64Max": 20000000, "GuardZeroJitter": "FALSE"},
            expect_violation="NoPanic")

    # 2. scenarios out of TLC
    res = ctx.tlc("dns", "MC_DnsResolve", cfg="Gen_DnsResolve.cfg", mode="gen", constants={"Families": fset(fams)},
                  timeout=1800, coverage=False)
    scenarios = res.replays
    for s in scenarios:
        s["family"] = s["api"] + ("-big" if any(d >= 100 for d in s["delays"]) else "")
    total = len(scenarios)
    rnd = random.Random(ctx.seed)
    cap = ctx.pick(1500, 20000)       # per family: all of it, or a seeded sample
    by = {}
    for s in scenarios:
        by.setdefault(s["family"], []).append(s)
    scenarios = []
    for name in sorted(by):
        scenarios += by[name] if len(by[name]) <= cap else rnd.sample(by[name], cap)
    for i, s in enumerate(scenarios):
        s["id"] = i + 1
    ctx.log("scenarios: %d of %d enumerated by TLC" % (len(scenarios), total))
    execute(ctx, scenarios, reps=ctx.pick(2, 4))
    ctx.cov["rule"] = ("scenario = api x delay list x per-call scripted answer (kind, duration vs timeout); enumerated by TLC from "
                       "MC_Scenarios; per family all scenarios or a seeded sample of at most 1500 (quick) / 20000 (thorough); "
                       "non-trivial = at least one delay and at least one failing or timed-out answer")
    ctx.cov["exhaustive"] = len(scenarios) == total
    ctx.assume("tokio paused clock: timers fire at whole milliseconds; virtual time only advances when every task is idle")
    ctx.assume("rand::random jitter is sampled, not enumerated: each scenario is run a few times; the contract window is the oracle")


def concretise(s):
    delays = [CONCRETE[c] if c != "lit" else d for d, c in zip(s["delays"], s["cls"])]
    return {"id": s["id"], "api": s["api"], "delays": delays, "timeout": TIMEOUT, "horizon": HORIZON, "script": s["script"]}


def execute(ctx, scenarios, reps):
    runs = []
    for s in scenarios:
        n = reps if any(d >= 5 for d in s["delays"]) else 1
        for r in range(n):
            c = concretise(s)
            c["id"] = len(runs)
            runs.append((s, c))
    inp = ctx.write_ndjson("c34.in", [c for _, c in runs])
    outp = ctx.path("c34.out")
    ctx.run_bin("vh_dns", ["c34", "--in", inp, "--out", outp])
    obs = ctx.read_ndjson(outp)
    if len(obs) != len(runs):
        raise ToolError("harness returned %d observations for %d runs" % (len(obs), len(runs)))
    traces = []      # (scenario, lines)
    for (s, c), o in zip(runs, obs):
        nontriv = bool(s["delays"]) and any(e["kind"] != "ok" or e["dur"] > TIMEOUT for fam in s["script"].values() for e in fam)
        ctx.count(case_key=[s["api"], s["delays"], s["script"]], nontrivial=nontriv)
        if o["sub_ms"]:
            raise ToolError("an observed instant is not a whole millisecond (scenario %s)" % json.dumps(s))
        if o["panic"] is not None:
            ctx.report({"kind": "panic", "zero_jitter": "yes" if s["zero_jitter"] else "no", "api": s["api"],
                        "msg": "rem_by_zero" if "remainder with a divisor of zero" in o["panic"] else "other"},
                       "staggered lookup panicked (%s) for delays %s" % (o["panic"], s["delays"]),
                       {"scenario": s, "observed": o})
            continue
        lines = [{"ev": "reset", "api": s["api"], "delays": s["delays"], "script": s["script"], "id": c["id"]}] + o["events"]
        traces.append((s, lines, o))
        if len(s["delays"]) == 2 and o["events"] and o["events"][-1]["ev"] == "ret" and o["events"][-1]["kind"] == "err":
            ctx.sample({"api": s["api"], "delays_ms": s["delays"], "script": s["script"], "observed": o["events"]})
    validate(ctx, traces)


def validate(ctx, traces):
    """One TLC run over all runs; a rejected run is reported and the rest is validated again."""
    attempts = 0
    while traces:
        attempts += 1
        flat, owner = [], []
        for idx, (s, lines, o) in enumerate(traces):
            for ln in lines:
                flat.append(ln)
                owner.append(idx)
        tf = ctx.write_ndjson("c34-trace-%d.ndjson" % attempts, flat)
        res = ctx.tlc_trace("dns", "Trace_DnsResolve", tf, timeout=1500)
        if res.violated:
            raise ToolError("trace validation hit invariant %s (guards should have rejected first):\n%s" % (res.violated, res.out[-2000:]))
        if res.ok:
            ctx.log("trace of %d runs (%d events) accepted" % (len(traces), len(flat)))
            if not ctx.replay:
                selftest(ctx, traces)
            return
        at = res.trace_rejected_at
        if at is None or at < 1 or at > len(flat):
            raise ToolError("trace rejected at an unknown position:\n%s" % res.out[-2000:])
        idx = owner[at - 1]
        s, lines, o = traces[idx]
        ev = flat[at - 1]
        if ev["ev"] not in ("start", "ret", "horizon"):
            raise ToolError("trace rejected at a %s event: spec drift, not a property violation: %s" % (ev["ev"], ev))
        what = {"start": "an attempt started at %s ms, which no pending attempt's +/-20%% window allows (or an extra attempt)" % ev.get("t"),
                "ret": "the call returned %s at %s ms, which is not the first success in completion order / not every attempt's error"
                       % (json.dumps({k: ev[k] for k in ("kind", "k", "v4", "v6", "errs")}), ev.get("t")),
                "horizon": "the call was still pending at %s ms although it had to return" % ev.get("t")}[ev["ev"]]
        ctx.report({"kind": ev["ev"], "api": s["api"], "zero_jitter": "yes" if s["zero_jitter"] else "no"},
                   "delays %s, windows %s: %s; observed %s" % (s["delays"], s["windows"], what, json.dumps(o["events"])),
                   {"scenario": s, "observed": o, "reps": 5})
        traces = traces[:idx] + traces[idx + 1:]
        if attempts >= 6 or len(ctx.violations) >= 6:
            ctx.log("stopping trace validation after %d rejected runs" % attempts)
            return


def selftest(ctx, traces):
    """Binding self-test: an accepted trace with one corrupted observation must be rejected at that event."""
    import copy
    sub = copy.deepcopy([lines for (_s, lines, _o) in traces[:120]])
    done = set()
    for lines in sub:
        starts = [e for e in lines if e["ev"] == "start"]
        ret = lines[-1]
        if "ret" not in done and ret["ev"] == "ret" and ret["kind"] == "ok" and len(starts) >= 2:
            ret["k"] = len(starts) + 5                     # an answer no attempt of this call received
            if ret["v4"]:
                ret["v4"] = ret["k"]
            if ret["v6"]:
                ret["v6"] = ret["k"]
            ret["_corrupt"] = "ret"
            done.add("ret")
        elif "start" not in done and len(starts) >= 2 and starts[-1]["t"] >= 3 and ret["ev"] == "ret":
            starts[-1]["t"] += starts[-1]["t"]             # 100 % late
            starts[-1]["t6"] = starts[-1]["t"]
            starts[-1]["_corrupt"] = "start"
            done.add("start")
        elif "errs" not in done and ret["ev"] == "ret" and ret["kind"] == "err" and len(ret["errs"]) >= 2:
            ret["errs"] = ret["errs"][:-1]                 # one attempt's error missing
            ret["_corrupt"] = "errs"
            done.add("errs")
    for want in sorted(done):
        target = None
        # keep only the run with this corruption corrupted: rebuild from the originals for the others
        flat = []
        for (lines, (_s, orig, _o)) in zip(sub, traces[:120]):
            use = lines if any(e.get("_corrupt") == want for e in lines) else orig
            for e in use:
                if e.get("_corrupt") == want:
                    target = len(flat) + 1
                flat.append({k: v for k, v in e.items() if k != "_corrupt"})
        tf = ctx.write_ndjson("c34-selftest-%s.ndjson" % want, flat)
        res = ctx.tlc_trace("dns", "Trace_DnsResolve", tf, timeout=1500)
        # a corrupted start may already be rejected there or at the next event that depends on it
        if res.ok or res.trace_rejected_at is None or not (target <= res.trace_rejected_at <= target + 1 if want == "start" else res.trace_rejected_at == target):
            raise ToolError("binding self-test: a trace with a corrupted %s event (event %s) was not rejected there (rejected at %s)"
                            % (want, target, res.trace_rejected_at))
        ctx.log("binding self-test: corrupted %s event rejected at event %d" % (want, res.trace_rejected_at))
    ctx.cov["binding_selftests"] = sorted(done)
