"""Shared helpers of the relayproto group's checks (C09, C10, C12, C16, C43): binding self-tests.

A binding self-test takes one (case, observation) pair that the judge accepts, corrupts one field of the
observation (or flips one expectation) and requires the judge to report; otherwise the binding would be
vacuous and the check ends with a ToolError.  The probe context swallows the reports."""
import copy

from vlib import ToolError


class Probe:
    """Stands in for vlib.Ctx while a judge is exercised on corrupted data."""

    def __init__(self):
        self.reports = []
        self.cov = {}

    def report(self, sig, what, replay_obj):
        self.reports.append(sig)
        return "violation"

    def count(self, *a, **k):
        pass

    def sample(self, *a, **k):
        pass

    def log(self, *a):
        pass


def binding_selftest(ctx, judge, case, obs, corruptions):
    """corruptions: list of (name, fn(case, obs) -> None mutating deep copies)."""
    p = Probe()
    judge(p, copy.deepcopy(case), copy.deepcopy(obs))
    if p.reports:
        return 0          # not an accepted pair (e.g. a known finding): nothing to learn from it
    n = 0
    for name, fn in corruptions:
        c, o = copy.deepcopy(case), copy.deepcopy(obs)
        fn(c, o)
        p = Probe()
        judge(p, c, o)
        if not p.reports:
            raise ToolError("binding self-test: corruption '%s' of an accepted case was not rejected by the judge" % name)
        n += 1
    ctx.cov["binding_selftests_rejected"] = ctx.cov.get("binding_selftests_rejected", 0) + n
    return n
