"""C37 — DNS server keeps the newest packet per key (DESIGN.md §6 C37).

Spec: specs/dnsserver/DnsServer.tla (PutNoop / PutUpdate with MoreRecent = lexicographic
(timestamp, payload bytes), invariants StoredIsNewest / FlagRule), configurations in
MC_DnsServer.tla (Spec37, packet universe P37).

Binding (mode A): TLC enumerates every publish sequence of the bound (with repetitions, equal and
distinct timestamps, two payload ranks per timestamp); `vh_dnssrv c37` replays each one on the
real `ZoneStore` (cfg-guarded in-memory constructor `verif_hooks::VerifZoneStore`, i.e. the real
cache + SignedPacketStore actor on redb's in-memory backend) with fresh Ed25519 keys per
behaviour, and after every publish compares (a) the flag returned by `ZoneStore::insert`,
(b) the packet returned by `get_signed_packet` for every key (byte-for-byte, mapped back to the
model's (ts, payload rank)), (c) the TXT values `ZoneStore::resolve` serves, with the model.
A seeded sample of the same sequences is also run through the public server (`vh_dnssrv c36` driver:
PUT status, GET /pkarr body, DNS answers over UDP).

Mutation self-test (done while building, /var/tmp/mut-c37.diff, undone afterwards): in
iroh-dns/src/pkarr.rs `more_recent_than` the tie-break `self.encoded_packet() > other.encoded_packet()`
reversed to `<`  ->  VIOLATION (kind "insert flag", step res "noop": equal timestamps, greater payload
published first, smaller second is reported as an update and replaces it).  Undone -> exit 0.
"""
import json

from vlib import ToolError

META = {
    "level": "model_checking",
    "engine": "dns-server",
    "technique": "TLA+ spec DnsServer (upsert order) checked by TLC; every TLC behaviour replayed on the real ZoneStore (mode A)",
    "text": "TLC checks on the DnsServer model that after any publish sequence the stored packet of every key is the maximum "
            "of the accepted ones by (timestamp, payload bytes) and that a publish is flagged as an update exactly when its "
            "packet became the stored one; every publish sequence within the bound is then executed on the real ZoneStore "
            "(cache + SignedPacketStore actor, in-memory redb) and the returned flag, the stored packet of every key and the "
            "resolved TXT records after every step must equal the model's.",
    "note": "Bounded: quick = all sequences of 3 publishes over 2 keys x 3 timestamps x 2 payloads plus all sequences of 4 over "
            "1 key x 3 timestamps x 2 payloads; thorough adds 5 publishes over 1 key (3 timestamps x 3 payloads) and 4 over 3 keys.  "
            "Re-publishing the identical packet counts as 'became the stored packet' (DESIGN §13).  Payload rank = byte order "
            "of the encoded DNS payloads, asserted by the driver.",
    "design_ref": "§6 C37",
}

CONFIGS_QUICK = [
    {"Keys": '{"k1", "k2"}', "Tss": "{1, 2, 3}", "Pls": "{1, 2}", "MaxSteps": 3},
    {"Keys": '{"k1"}', "Tss": "{1, 2, 3}", "Pls": "{1, 2}", "MaxSteps": 4},
]
CONFIGS_THOROUGH = CONFIGS_QUICK + [
    {"Keys": '{"k1"}', "Tss": "{1, 2, 3}", "Pls": "{1, 2, 3}", "MaxSteps": 5},
    {"Keys": '{"k1", "k2", "k3"}', "Tss": "{1, 2}", "Pls": "{1, 2}", "MaxSteps": 4},
]


def run(ctx):
    if ctx.replay:
        rep = json.load(open(ctx.replay))["replay"]
        execute(ctx, [rep], "replay")
        return
    # the design must satisfy its own properties, cache included (Query as an action)
    ctx.tlc("dnsserver", "MC_DnsServer", cfg="C37_mc.cfg", mode="mc",
            constants={"Keys": '{"k1", "k2"}', "Tss": "{1, 2, 3}", "Pls": "{1, 2}", "MaxSteps": ctx.pick(3, 4)},
            require_actions=["PutNoop", "PutUpdate", "Query"], timeout=1800)
    everything = []
    for n, consts in enumerate(ctx.pick(CONFIGS_QUICK, CONFIGS_THOROUGH)):
        res = ctx.tlc("dnsserver", "MC_DnsServer", cfg="C37_gen.cfg", mode="gen", constants=consts,
                      require_actions=["PutNoop", "PutUpdate"], timeout=3000)
        if not res.replays:
            raise ToolError("generator produced no behaviour for %s" % consts)
        execute(ctx, res.replays, "cfg%d" % n)
        everything += [c for c in res.replays if len(c["steps"][0]["stored"]) <= 2]
        if not ctx.quick and n == 0:
            selftest(ctx, res.replays[:40])
    # the same behaviours through the public server: PUT status, GET /pkarr body, DNS answers over UDP
    import random
    rng = random.Random(ctx.seed)
    execute(ctx, rng.sample(everything, min(len(everything), ctx.pick(150, 1500))), "http", http=True)
    ctx.cov["rule"] = ("every publish sequence (with repetition) of exactly MaxSteps packets over the universe "
                       "Keys x Tss x Pls (prefixes are checked step by step); non-trivial = the sequence contains a noop "
                       "or an equal-timestamp pair")
    ctx.cov["exhaustive"] = True
    ctx.assume("ed25519 signatures of the concretised packets verify (SignedPacket::from_bytes accepts them)")


def execute(ctx, cases, tag, http=False):
    inp = ctx.write_ndjson("c37-%s.in" % tag, cases)
    outp = ctx.path("c37-%s.out" % tag)
    if http:
        import os
        ddir = ctx.path("dnsdata-%s" % tag)
        os.makedirs(ddir, exist_ok=True)
        ctx.run_bin("vh_dnssrv", ["c36", "--in", inp, "--out", outp, "--dir", ddir], timeout=3000)
    else:
        ctx.run_bin("vh_dnssrv", ["c37", "--in", inp, "--out", outp], timeout=3000)
    obs = ctx.read_ndjson(outp)
    if len(obs) != len(cases):
        raise ToolError("harness returned %d observations for %d cases" % (len(obs), len(cases)))
    for c, o in zip(cases, obs):
        steps = c["steps"]
        key = [(s["k"], s["ts"], s["pl"]) for s in steps]
        ress = [s["res"] for s in steps]
        tss = [(s["k"], s["ts"]) for s in steps]
        nontrivial = "noop" in ress or len(set(tss)) < len(tss)
        ctx.count(case_key=key if not http else ["http", key], nontrivial=nontrivial)
        if nontrivial and "noop" in ress and len(set(tss)) < len(tss):
            ctx.sample({"steps": [[s["k"], s["ts"], s["pl"], s["res"]] for s in steps],
                        "stored_after": steps[-1]["stored"]})
        if not o["ok"]:
            st = steps[o["step"]] if o["step"] < len(steps) else steps[-1]
            kind = o["what"].split(" for ")[0]
            ctx.report({"kind": kind, "res": st["res"], "via": "http+dns" if http else "zonestore"},
                       "ZoneStore deviates from the spec at step %d of %s (%s): expected %s, got %s"
                       % (o["step"], [(s["k"], s["ts"], s["pl"]) for s in steps], o["what"], o["exp"], o["got"]), c)


def selftest(ctx, cases):
    """Binding self-test: flip one expectation per behaviour; the driver must reject every one."""
    import copy
    flipped = []
    for i, c in enumerate(cases):
        c = copy.deepcopy(c)
        st = c["steps"][-1]
        if i % 2 == 0:
            st["res"] = "noop" if st["res"] == "updated" else "updated"
        else:
            k = st["k"]
            st["stored"][k]["pl"] = 3 - st["stored"][k]["pl"] if st["stored"][k]["pl"] in (1, 2) else 1
        flipped.append(c)
    inp = ctx.write_ndjson("c37-selftest.in", flipped)
    outp = ctx.path("c37-selftest.out")
    ctx.run_bin("vh_dnssrv", ["c37", "--in", inp, "--out", outp])
    rejected = sum(1 for o in ctx.read_ndjson(outp) if not o["ok"])
    ctx.cov["binding_selftests"] = {"flipped_expectations": len(flipped), "rejected": rejected}
    if rejected != len(flipped):
        raise ToolError("binding self-test: only %d of %d flipped expectations were rejected" % (rejected, len(flipped)))
