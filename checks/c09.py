"""C09 — Relay per-client receive rate stays within the configured bucket (DESIGN.md §6 C09).

Spec: specs/relay/RateLimit.tla — token bucket over integer time with the code's two 32-bit
truncations modelled by a scaled word size W (x % W); one model time unit = 2^32/W ms and one
model byte = 2^32/W bytes, which makes the scaled model exact for the real arithmetic.
Trunc32 = FALSE is the required design (exact arithmetic): TLC checks RateBound (bytes read since
the limit took effect <= burst + accrued refill + one chunk, every prefix), DeadlineExact (a refill
wait ends at the earliest instant with a positive bucket), NoStall, ThrottledIffEmpty, NoPanic,
BucketSane, for the bare bucket (Consume by a caller that honours the deadline) and for the limited
reader (Poll / SetLimit with valid, absent and invalid live limits).  Trunc32 = TRUE (the code as
written) is refuted by TLC (RateBound; anti-vacuity and model-level form of the defect).

Binding (mode A, tokio paused clock): every TLC behaviour is replayed
  * on the public Bucket::{new, consume}: Ok / Err(deadline) compared exactly at every step;
  * on the crate-private RateLimited reader (hook constructor over RateLimited::from_watcher) around a
    scripted AsyncRead with watch-driven limit changes: Ready(n) / Pending and the value of the
    limited_watcher() counter compared at every poll;
plus a table of extreme parameters (i64::MAX, usize::MAX, period 2^32+-1 ms) where only panics count.

Found on the pinned tree (known findings, proposed fix proposed_fixes/C09.diff):
  C09_period_truncated   refill_period >= 2^32 ms passes Bucket::new and is then truncated in
                         update_state (17 units -> 1 unit): refills far too fast, then last_fill
                         runs ahead of the clock and the bucket stops refilling.
  C09_idle_truncated     more than 2^32 ms between two refills: the elapsed time is truncated, the
                         bucket under-refills and later deadlines lie in the past.
  C09_refill_mul_overflow  rates around i64::MAX / 1000 and more: `refill_periods as i64 * self.refill`
                         overflows after a few thousand periods (panic with overflow checks, wrap without).
A configuration with period >= 2^32 ms may also simply be rejected by `new` (accepted outcome).

Mutation self-tests (private copy of /repo): (a) `update_state` no longer advances `last_fill` =>
VIOLATION layer=bucket kind=consume_result cause=none (ok where the model says err / early deadline)
and layer=reader kind=poll_result; (b) live limit change keeps the refill wait
(`this.bucket_refilled = None` removed) => VIOLATION layer=reader kind=poll_result.  Undone => exit 0.
"""
import json

from vlib import ToolError
from checks.relayproto_common import binding_selftest

META = {
    "level": "model_checking",
    "engine": "relay-ratelimit",
    "technique": "TLA+ spec RateLimit (token bucket over integer time, scaled word size for the u32 truncations, live "
                 "reconfiguration) checked by TLC; every TLC behaviour replayed under tokio's paused clock on Bucket and on "
                 "the RateLimited reader (mode A)",
    "text": "TLC explores all histories of time advances, consumes / polls with 0..5 byte units and live limit changes "
            "(valid, none, invalid) for buckets with burst 1..3, rate 1..2 and refill periods 1, 2 and 2^32 ms + 1 unit, and "
            "checks every prefix against burst + accrued refill + one chunk, exact earliest refill deadlines, no stall, no "
            "undefined arithmetic. Each history is replayed on the real Bucket::{new, consume} (exact Ok / Err(deadline)) "
            "and on the real RateLimited reader wrapped around a scripted reader with a watch channel (Ready(n) / Pending "
            "per poll) under virtual time.",
    "note": "One model time unit is 2^28 ms for the bucket layer (W = 16) and 100 ms for the reader layer (fixed period). "
            "Refill periods >= 2^32 ms may be rejected by Bucket::new instead of being handled exactly. Extreme parameters "
            "(i64::MAX, usize::MAX) are only checked for panics; absurd periods beyond 2^33 ms are not exercised.",
    "design_ref": "§6 C09",
}

W = 16
UNIT = (1 << 32) // W
BUCKET = {"Trunc32": "FALSE", "Maxes": "{1, 3}", "Rates": "{1, 2}", "Periods": "{1, 2, 17}",
          "Dts": "{1, 2, 5, 16, 17}", "Chunks": "{0, 1, 2, 5}"}
READER = {"Trunc32": "FALSE", "Maxes": "{1, 3}", "Rates": "{1, 2}", "Periods": "{1}",
          "Dts": "{1, 2, 3}", "Chunks": "{0, 1, 2, 4}"}
I64 = (1 << 63) - 1
EXTREMES = [
    {"name": "max_i64", "cls": "huge_burst", "max": I64, "rate": 1000, "period_ms": 100, "script": [I64, 100, 1, 1000, (1 << 64) - 1, 100000, 5]},
    {"name": "rate_i64", "cls": "huge_rate", "max": 1000, "rate": I64, "period_ms": 1000, "script": [2000, 2000000, 10, 1000, 10]},
    {"name": "rate_big_many_periods", "cls": "huge_rate", "max": I64, "rate": 1 << 52, "period_ms": 1000, "script": [I64, 4000000, 10, 1000, 10]},
    {"name": "consume_usize_max", "cls": "huge_consume", "max": 10, "rate": 10000, "period_ms": 100, "script": [(1 << 64) - 1, 100, (1 << 64) - 1, 1 << 33, 1]},
    {"name": "period_2^32-1", "cls": "period_lt_2^32ms", "max": 10, "rate": 1, "period_ms": (1 << 32) - 1, "script": [20, 1 << 32, 1, 1 << 33, 1]},
    {"name": "tiny", "cls": "tiny", "max": 1, "rate": 1, "period_ms": 1000, "script": [1, 1, 1, 999, 1, 1, 0]},
]


def run(ctx):
    if ctx.replay:
        rep = json.load(open(ctx.replay))["replay"]
        execute(ctx, rep["layer"], [rep["behaviour"]], "replay")
        return
    # the code as written is refuted on the model
    ctx.tlc("relay", "RateLimit", cfg="RateLimit_ratebound.cfg", mode="mc", workers=4, coverage=False,
            constants=dict(BUCKET, Trunc32="TRUE", MaxSteps=6, Periods="{17}", Dts="{1}", Chunks="{2}"), expect_violation="RateBound")
    # bucket layer: exhaustive short histories + seeded longer ones
    res = ctx.tlc("relay", "RateLimit", cfg="RateLimit_bucket.cfg", mode="gen", workers=4, constants=dict(BUCKET, MaxSteps=ctx.pick(4, 5)), timeout=3000,
                  require_actions=["Advance", "Consume"])
    sim = ctx.tlc("relay", "RateLimit", cfg="RateLimit_bucket.cfg", mode="sim", sim=ctx.pick(1500, 30000), depth=ctx.pick(7, 10),
                  constants=dict(BUCKET, MaxSteps=ctx.pick(7, 10)), timeout=3000)
    execute(ctx, "bucket", dedupe(res.replays + sim.replays), "bucket")
    # reader layer
    res = ctx.tlc("relay", "RateLimit", cfg="RateLimit_reader.cfg", mode="gen", workers=4, constants=dict(READER, MaxSteps=ctx.pick(4, 5)), timeout=3000,
                  require_actions=["Advance", "SetLimit", "Poll"])
    sim = ctx.tlc("relay", "RateLimit", cfg="RateLimit_reader.cfg", mode="sim", sim=ctx.pick(1500, 30000), depth=ctx.pick(9, 12),
                  constants=dict(READER, MaxSteps=ctx.pick(9, 12)), timeout=3000)
    execute(ctx, "reader", dedupe(res.replays + sim.replays), "reader")
    execute(ctx, "extreme", EXTREMES, "extreme")
    if ctx.violations:
        import collections
        for sig, n in collections.Counter(json.dumps(v[0], sort_keys=True) for v in ctx.violations).most_common():
            ctx.log("violations with sig %s: %d" % (sig, n))
    ctx.cov["rule"] = ("every history of RateLimit up to %d steps for the bucket layer and the reader layer (exhaustive) plus "
                       "seeded random longer histories; non-trivial = at least one consume/poll that is throttled"
                       % ctx.pick(4, 5))
    ctx.cov["exhaustive"] = True
    ctx.assume("tokio paused clock: Instant::now() advances exactly by tokio::time::advance; sleep_until(d) is ready iff now >= d")


def dedupe(bs):
    seen, out = set(), []
    for b in bs:
        k = json.dumps(b, sort_keys=True)
        if k not in seen:
            seen.add(k)
            out.append(b)
    return out


def execute(ctx, layer, cases, name):
    if not cases:
        raise ToolError("no cases for layer %s" % layer)
    inp = ctx.write_ndjson("c09-%s.in" % name, cases)
    outp = ctx.path("c09-%s.out" % name)
    ctx.run_bin("vh_relayproto", ["c09", "--layer", layer, "--w", W, "--in", inp, "--out", outp], timeout=3000)
    obs = ctx.read_ndjson(outp)
    if len(obs) != len(cases):
        raise ToolError("harness returned %d observations for %d cases" % (len(obs), len(cases)))
    if layer != "extreme":
        selftest(ctx, layer, cases, obs)
    for c, o in zip(cases, obs):
        if layer == "bucket":
            judge_bucket(ctx, c, o)
        elif layer == "reader":
            judge_reader(ctx, c, o)
        else:
            ctx.count(case_key=["extreme", c["name"]], nontrivial=True)
            if o.get("panic"):
                ctx.report({"layer": "extreme", "kind": "panic", "input": c["cls"], "panic": "mul_overflow" if "multiply with overflow" in o["panic"] else "other"},
                           "Bucket panicked with extreme parameters %s: %s" % (c["name"], o["panic"]), {"layer": layer, "behaviour": c})


def selftest(ctx, layer, cases, obs):
    """Corrupt one observed step of an accepted behaviour: the judge must reject it."""
    for c, o in zip(cases, obs):
        st = c["steps"]
        if layer == "bucket" and cause_class(st) == "none" and not o.get("panic") and not o["new_rejected"]:
            errs = [i for i, s in enumerate(st) if s["op"] == "consume" and s["res"] == "err"]
            oks = [i for i, s in enumerate(st) if s["op"] == "consume" and s["res"] == "ok"]
            if errs and oks:
                e, k = errs[0], oks[0]
                binding_selftest(ctx, judge_bucket, c, o, [
                    ("deadline later", lambda c_, o_: o_["steps"][e].__setitem__("val", o_["steps"][e]["val"] + UNIT)),
                    ("deadline earlier", lambda c_, o_: o_["steps"][e].__setitem__("val", o_["steps"][e]["val"] - 1)),
                    ("ok instead of err", lambda c_, o_: o_["steps"][e].__setitem__("res", "ok")),
                    ("err instead of ok", lambda c_, o_: o_["steps"][k].__setitem__("res", "err")),
                    ("expectation flipped", lambda c_, o_: c_["steps"][k].__setitem__("res", "err")),
                    ("rejected", lambda c_, o_: o_.__setitem__("new_rejected", True)),
                    ("panic", lambda c_, o_: o_.__setitem__("panic", "boom"))])
                return
        if layer == "reader" and not o.get("panic") and not o["new_rejected"]:
            pend = [i for i, s in enumerate(st) if s["op"] == "poll" and s["res"] == "pending" and s["arg"] > 0]
            ready = [i for i, s in enumerate(st) if s["op"] == "poll" and s["res"] == "ready"]
            if pend and ready:
                p, r = pend[0], ready[0]
                binding_selftest(ctx, judge_reader, c, o, [
                    ("ready instead of pending", lambda c_, o_: o_["steps"][p].__setitem__("res", "ready")),
                    ("pending instead of ready", lambda c_, o_: o_["steps"][r].__setitem__("res", "pending")),
                    ("bytes returned", lambda c_, o_: o_["steps"][r].__setitem__("val", o_["steps"][r]["val"] + 1)),
                    ("limited counter", lambda c_, o_: o_["steps"][r].__setitem__("lim", o_["steps"][r]["lim"] + 1)),
                    ("expectation flipped", lambda c_, o_: c_["steps"][p].__setitem__("res", "ready")),
                    ("panic", lambda c_, o_: o_.__setitem__("panic", "boom"))])
                return


def cause_class(steps):
    period = steps[0]["now"]
    if period >= W:
        return "period_ge_2^32ms"
    gap = 0
    for s in steps[1:]:
        if s["op"] == "advance":
            gap += s["arg"]
            if gap + period >= W:
                return "idle_ge_2^32ms"
        elif s["op"] == "consume":
            gap = 0
    return "none"


def judge_bucket(ctx, c, o):
    steps = c["steps"]
    throttled = any(s["op"] == "consume" and s["res"] == "err" for s in steps)
    ctx.count(case_key=[[s["op"], s["arg"]] for s in steps] + [steps[0]["val"], steps[0]["now"]], nontrivial=throttled)
    cause = cause_class(steps)
    rep = {"layer": "bucket", "behaviour": c}
    if throttled and len(steps) >= 4 and cause == "none":
        ctx.sample({"layer": "bucket", "unit_ms": UNIT, "max": steps[0]["arg"], "rate": steps[0]["val"], "period": steps[0]["now"],
                    "steps": [[s["op"], s["arg"], s["res"], s["val"]] for s in steps[1:]]})
    if o.get("panic"):
        ctx.report({"layer": "bucket", "kind": "panic", "cause": cause}, "Bucket panicked: %s" % o["panic"], rep)
        return
    if o["new_rejected"]:
        if cause == "period_ge_2^32ms":
            ctx.cov["bucket_configs_with_period_ge_2^32ms_rejected"] = ctx.cov.get("bucket_configs_with_period_ge_2^32ms_rejected", 0) + 1
            return
        ctx.report({"layer": "bucket", "kind": "new_rejected", "cause": cause}, "Bucket::new rejected a valid configuration %s" % steps[0], rep)
        return
    for i, (s, y) in enumerate(zip(steps, o["steps"])):
        if i == 0:
            continue
        if y["now_ms"] != s["now"] * UNIT:
            raise ToolError("virtual clock mismatch at step %d: %s vs %s" % (i, y["now_ms"], s["now"] * UNIT))
        if s["op"] != "consume":
            continue
        if y["res"] != s["res"] or (s["res"] == "err" and y["val"] != s["val"] * UNIT):
            if y["res"] != s["res"]:
                wrong = "ok_instead_of_err" if y["res"] == "ok" else "err_instead_of_ok"
            else:
                wrong = "deadline_early" if y["val"] < s["val"] * UNIT else "deadline_late"
            ctx.report({"layer": "bucket", "kind": "consume_result", "cause": cause, "wrong": wrong},
                       "bucket(max %d, rate %d, period %d units) step %d consume(%d) at t=%d: got %s %s, the model says %s %s (deadlines in units of %d ms)"
                       % (steps[0]["arg"], steps[0]["val"], steps[0]["now"], i, s["arg"], s["now"], y["res"],
                          y["val"] / UNIT if y["res"] == "err" else "", s["res"], s["val"] if s["res"] == "err" else "", UNIT), rep)
            return


def judge_reader(ctx, c, o):
    steps = c["steps"]
    throttled = any(s["op"] == "poll" and s["res"] == "pending" and s["arg"] > 0 for s in steps)
    ctx.count(case_key=[[s["op"], s["arg"], s["res"], s["val"]] for s in steps], nontrivial=throttled)
    rep = {"layer": "reader", "behaviour": c}
    if throttled and any(s["op"] == "set" for s in steps) and len(steps) >= 6:
        ctx.sample({"layer": "reader", "unit_ms": 100, "burst": steps[0]["arg"], "rate_bytes_per_s": 10 * steps[0]["val"],
                    "steps": [[s["op"], s["arg"], s["res"], s["val"]] for s in steps[1:]]}, limit=6)
    if o.get("panic"):
        ctx.report({"layer": "reader", "kind": "panic"}, "RateLimited panicked: %s" % o["panic"], rep)
        return
    if o["new_rejected"]:
        ctx.report({"layer": "reader", "kind": "new_rejected"}, "from_watcher rejected a valid limit %s" % steps[0], rep)
        return
    for i, (s, y) in enumerate(zip(steps, o["steps"])):
        if i == 0 or s["op"] != "poll":
            continue
        if y["now_ms"] != s["now"] * 100:
            raise ToolError("virtual clock mismatch at step %d" % i)
        if y["res"] == s["res"] and y.get("lim", s["lim"]) != s["lim"]:
            ctx.report({"layer": "reader", "kind": "limited_count"},
                       "reader step %d: the rate-limited counter is %s, the model says %s; history %s"
                       % (i, y["lim"], s["lim"], [[x["op"], x["arg"], x["res"], x["val"]] for x in steps[:i + 1]]), rep)
            return
        if y["res"] != s["res"] or (s["res"] == "ready" and y["val"] != s["val"]):
            ctx.report({"layer": "reader", "kind": "poll_result", "exp": s["res"], "got": y["res"].split(":")[0]},
                       "reader step %d poll with %d bytes ready at t=%d: got %s %s, the model says %s %s; history %s"
                       % (i, s["arg"], s["now"], y["res"], y["val"], s["res"], s["val"],
                          [[x["op"], x["arg"], x["res"], x["val"]] for x in steps[:i + 1]]), rep)
            return
