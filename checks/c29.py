"""C29 — Address lookup results stream follows its documented protocol (DESIGN.md §6 C29).

Spec: specs/lookup/AddressLookup.tla.  Services are scripts (decline / finite sequences over
{item, err}); the spec has one action per way `AddressLookupStream::poll_next` returns and
records everything yielded in `out`.  TLC checks over every service configuration and every
interleaving of the services' outputs: all items and errors are yielded once, in service
order, before the end (`AllYielded`, `PerServiceOrder`); the end is NoServiceConfigured iff
no service is configured, NoResults carrying all errors (in yield order) iff no item was
produced, a plain end otherwise (`TerminalRule`); nothing but `None` after the end
(`NothingAfterEnd`, `OneTerminal`).  Beyond C29 the spec also models the consumer dropping
the stream early (`DropStream`) and when the per-service streams are released
(`ReleasedOnlyWhenDone`, `AllReleasedAtEnd`); the harness observes releases through Drop guards
and a difference there is reported as non-conformance (exit 2).  A deliberately wrong variant (`EarlyTerminal`) is
refuted first to show that the invariants bite.

Binding (mode A): every finished behaviour of the model is executed on the real
`AddressLookupServices::{add, resolve}` with scripted `AddressLookup` implementations under
tokio's paused clock:
  * forced run — output number k of the behaviour becomes available at virtual instant k ms,
    so the real merge must yield exactly the model's `out` (same labels, same order, same
    terminal item, `None` for each of the 3 polls after the end);
  * free run — per configuration, all outputs are available at once; what the real stream
    yields must be one of the model's behaviours for that configuration.
Any difference is a violation: the stream's yields are exactly what the property fixes.

Mutation self-test (2026-09-22): `if !this.did_emit` replaced by
`if !this.did_emit || !this.errors.is_empty()` in `AddressLookupStream::poll_next` (terminal
NoResults although items were yielded, DESIGN §12 C29) -> VIOLATION (sig kind=terminal
expected=end got=noresults, first hit: services [item] and [err]); undone -> exit 0.
"""
import json

from vlib import ToolError

META = {
    "level": "model_checking",
    "engine": "address-lookup",
    "technique": "TLA+ spec AddressLookup (services as scripts, one action per poll_next outcome) checked by TLC; every model "
                 "behaviour replayed on the real AddressLookupServices::{add, resolve} with scripted services under paused time",
    "text": "TLC explores all configurations of up to 3 lookup services (none, declining, empty, items, errors, mixed multi-output) "
            "and all interleavings of their outputs, and checks the stream protocol: every item and error yielded, then a single "
            "NoResults (with all errors) exactly if no item, a single NoServiceConfigured exactly if no service, nothing after the "
            "end.  Each behaviour is forced on the real stream by virtual-time delays and must be reproduced yield by yield; with "
            "all outputs ready at once the real stream must produce one of the model's behaviours.",
    "note": "Bounded: quick <= 3 services x 1 output and 2 services x <= 2 outputs; thorough 3 x <= 2 and 2 x <= 3; the stream is polled 3 more "
            "times after its end.  'Carrying all errors' is read as: the same errors, in the order in which they were yielded.",
    "design_ref": "§6 C29",
}

EXTRA = 3


def cfg_key(svcs):
    return json.dumps([[s["decl"], s["outs"]] for s in svcs])


def norm(out):
    return [[y["k"], y["s"], y["i"], [list(e) for e in y["errs"]]] for y in out]


def forced_case(idx, b):
    at = {}
    drop_after = None
    for pos, y in enumerate(b["out"]):
        if y["k"] in ("item", "err"):
            at[(y["s"], y["i"])] = pos + 1
        elif y["k"] == "dropped":
            drop_after = pos
    # outputs the model never yields (the consumer dropped the stream first) stay pending
    svcs = [{"decl": s["decl"], "outs": s["outs"],
             "at": [at.get((n + 1, j + 1), 1000 + j) for j in range(len(s["outs"]))] if not s["decl"] else []}
            for n, s in enumerate(b["svcs"])]
    return {"case": idx, "svcs": svcs, "extra": EXTRA, "drop_after": drop_after}


def free_case(idx, svcs):
    return {"case": idx, "svcs": [{"decl": s["decl"], "outs": s["outs"], "at": [0] * len(s["outs"])} for s in svcs], "extra": EXTRA}


def classify(exp, got):
    """Short description of the first difference (signature of a violation)."""
    for j in range(max(len(exp), len(got))):
        e = exp[j] if j < len(exp) else None
        g = got[j] if j < len(got) else None
        if e != g:
            ek = e[0] if e else "nothing"
            gk = g[0] if g else "nothing"
            if ek in ("noresults", "noservice", "end") or gk in ("noresults", "noservice", "end"):
                return {"kind": "terminal", "expected": ek, "got": gk}
            return {"kind": "yield", "expected": ek, "got": gk}
    return {"kind": "none"}


def run_cases(ctx, cases, name):
    inp = ctx.write_ndjson(name + ".in", cases)
    outp = ctx.path(name + ".out")
    ctx.run_bin("vh_lookup", ["c29", "--in", inp, "--out", outp])
    obs = ctx.read_ndjson(outp)
    if len(obs) != len(cases):
        raise ToolError("harness returned %d observations for %d cases" % (len(obs), len(cases)))
    return obs


def check_common(ctx, case, o, replay, mode):
    if o.get("panic"):
        ctx.report({"kind": "panic", "mode": mode}, "resolve stream: %s" % o["panic"][:200], replay)
        return False
    for y in o["out"]:
        if y["k"] == "item" and y["prov"] != "svc%d" % y["s"]:
            raise ToolError("harness labelling broken: item %s has provenance %s" % (y, y["prov"]))
    want_calls = [1] * len(case["svcs"])
    if o["resolve_calls"] != want_calls:
        ctx.report({"kind": "resolve_calls", "mode": mode},
                   "each configured service must be asked exactly once: calls %s" % o["resolve_calls"], replay)
        return False
    return True


def judge_forced(ctx, b, case, o):
    replay = {"mode": "forced", "behaviour": b, "case": case, "observed": o}
    nontrivial = any(not s["decl"] and s["outs"] for s in b["svcs"])
    ctx.count(case_key=["forced", cfg_key(b["svcs"]), [[y["s"], y["i"]] for y in b["out"] if y["k"] in ("item", "err")]],
              nontrivial=nontrivial)
    if not check_common(ctx, case, o, replay, "forced"):
        return
    exp, got = norm(b["out"]), norm(o["out"])
    if exp != got:
        sig = classify(exp, got)
        sig["mode"] = "forced"
        ctx.report(sig, "stream yielded %s, the model's behaviour is %s" % (got, exp), replay)
        return
    for pos, y in enumerate(o["out"]):
        if y["k"] in ("item", "err") and y["t"] != pos + 1:
            raise ToolError("forced schedule not realised: yield %d at virtual %d ms" % (pos + 1, y["t"]))
    check_released(b["released"], case, o)
    if len(b["svcs"]) >= 2 and len(exp) >= 7 and len(ctx.cov["samples"]) < 3 and case["case"] % 11 == 0:
        ctx.sample({"mode": "forced", "services": [("decline" if s["decl"] else s["outs"]) for s in b["svcs"]],
                    "yields": [[y["k"], y["s"], y["i"], y["t"]] for y in o["out"]]})


def check_released(model_released, case, o):
    """Growth beyond C29 (resource release): a difference is non-conformance, not a violation."""
    if sorted(o["released"]) != sorted(model_released):
        raise ToolError("NONCONFORMANCE (not a C29 violation): service streams dropped at the end %s, model %s; case %s"
                        % (sorted(o["released"]), sorted(model_released), json.dumps(case)))
    if o["released_early"]:
        raise ToolError("NONCONFORMANCE (not a C29 violation): streams of services %s were dropped while they still had "
                        "outputs and the consumer held the stream; case %s" % (o["released_early"], json.dumps(case)))


def judge_free(ctx, svcs, allowed, case, o):
    replay = {"mode": "free", "svcs": svcs, "case": case, "observed": o}
    ctx.count(case_key=["free", cfg_key(svcs)], nontrivial=any(not s["decl"] and s["outs"] for s in svcs))
    if not check_common(ctx, case, o, replay, "free"):
        return
    got = norm(o["out"])
    if got not in allowed:
        # closest behaviour for the signature: longest common prefix
        best = max(allowed, key=lambda e: next((j for j in range(min(len(e), len(got))) if e[j] != got[j]), min(len(e), len(got))))
        sig = classify(best, got)
        sig["mode"] = "free"
        ctx.report(sig, "stream yielded %s, which is none of the model's %d behaviours for this configuration (closest: %s)"
                   % (got, len(allowed), best), replay)
        return
    check_released([n + 1 for n, s in enumerate(svcs) if not s["decl"]] if svcs else [], case, o)
    if len(svcs) == 3 and len(ctx.cov["samples"]) < 4 and sum(len(s["outs"]) for s in svcs) >= 4:
        ctx.sample({"mode": "free", "services": [("decline" if s["decl"] else s["outs"]) for s in svcs],
                    "yields": [[y["k"], y["s"], y["i"]] for y in o["out"]]})


def run(ctx):
    if ctx.replay:
        rep = json.load(open(ctx.replay))["replay"]
        o = run_cases(ctx, [rep["case"]], "c29-replay")[0]
        if rep["mode"] == "forced":
            judge_forced(ctx, rep["behaviour"], rep["case"], o)
        else:
            res = ctx.tlc("lookup", "AddressLookup", mode="gen", timeout=1800,
                          constants={"MaxSvcs": 3, "MaxLen": 3, "EarlyTerminal": "FALSE", "AllowDrop": "FALSE"})
            allowed = [norm(b["out"]) for b in res.replays if cfg_key(b["svcs"]) == cfg_key(rep["svcs"])]
            judge_free(ctx, rep["svcs"], allowed, rep["case"], o)
        return
    # anti-vacuity: a design that reports NoResults although items were yielded is refuted
    ctx.tlc("lookup", "AddressLookup", cfg="AddressLookup_mc.cfg", mode="mc", workers=2, coverage=False, timeout=900,
            constants={"MaxSvcs": 2, "MaxLen": 2, "EarlyTerminal": "TRUE", "AllowDrop": "FALSE"}, expect_violation="TerminalRule")
    bounds = ctx.pick([(3, 1), (2, 2)], [(3, 2), (2, 3)])
    behaviours = []
    for (ns, ln) in bounds:
        res = ctx.tlc("lookup", "AddressLookup", mode="gen", timeout=3000,
                      constants={"MaxSvcs": ns, "MaxLen": ln, "EarlyTerminal": "FALSE", "AllowDrop": "TRUE"},
                      require_actions=["Resolve", "PollItem", "PollErr", "PollEnd", "PollNoService", "PollClosed", "DropStream"])
        behaviours += res.replays
    # the two bounds overlap: keep each behaviour once
    seen, uniq = set(), []
    for b in behaviours:
        k = cfg_key(b["svcs"]) + json.dumps(norm(b["out"]))
        if k not in seen:
            seen.add(k)
            uniq.append(b)
    behaviours = uniq
    if not behaviours:
        raise ToolError("TLC printed no behaviours")
    cases = [forced_case(i, b) for i, b in enumerate(behaviours)]
    by_cfg = {}
    for b in behaviours:
        if not any(y["k"] == "dropped" for y in b["out"]):          # free runs are polled to the end
            by_cfg.setdefault(cfg_key(b["svcs"]), (b["svcs"], []))[1].append(norm(b["out"]))
    cfgs = list(by_cfg.values())
    fcases = [free_case(len(cases) + i, svcs) for i, (svcs, _) in enumerate(cfgs)]
    allobs = run_cases(ctx, cases + fcases, "c29")
    obs, fobs = allobs[:len(cases)], allobs[len(cases):]
    for b, c, o in zip(behaviours, cases, obs):
        judge_forced(ctx, b, c, o)
    for (svcs, allowed), c, o in zip(cfgs, fcases, fobs):
        judge_free(ctx, svcs, allowed, c, o)
    if not ctx.quick:
        selftest(ctx, behaviours, cases, obs)
    ctx.cov["rule"] = ("every finished behaviour of the AddressLookup spec within the bounds (all service configurations x all "
                       "interleavings), forced on the real stream; plus one free run per configuration; non-trivial = some "
                       "service produces an output")
    ctx.cov["exhaustive"] = True
    ctx.assume("tokio paused clock orders the scripted outputs by their virtual instants")


def selftest(ctx, behaviours, cases, obs):
    """Binding self-tests: corrupt one field of an accepted observation / drop one yield -> must be rejected."""
    import copy, contextlib, io, os
    n = 0
    for b, c, o in zip(behaviours, cases, obs):
        if sum(1 for y in b["out"] if y["k"] in ("item", "err")) < 2 or any(y["k"] == "dropped" for y in b["out"]):
            continue
        for variant in ("swap", "drop", "terminal"):
            sub = type(ctx)(ctx.prop, ctx.tier, ctx.seed)
            sub.scratch, sub.quiet, sub.findings = ctx.scratch, True, []
            sub.replay = ctx.path("selftest-replay.json")   # report() then writes no replay file
            oo = copy.deepcopy(o)
            if variant == "swap":
                oo["out"][0], oo["out"][1] = oo["out"][1], oo["out"][0]
                if norm(oo["out"]) == norm(o["out"]):
                    continue
            elif variant == "drop":
                del oo["out"][0]
            else:
                last = [j for j, y in enumerate(oo["out"]) if y["k"] != "end"]
                j = (last[-1] + 1) if last else 0
                oo["out"][j]["k"] = "noresults" if oo["out"][j]["k"] == "end" else "end"
            with contextlib.redirect_stdout(io.StringIO()):
                judge_forced(sub, b, c, oo)
            if not sub.violations:
                raise ToolError("binding self-test: corrupted observation (%s) was accepted" % variant)
            n += 1
        if n >= 9:
            break
    ctx.cov["binding_selftests"] = n
