"""C12 — Relay auth token extraction follows its documented rules (DESIGN.md §6 C12).

Spec: specs/relay/RelayAuthToken.tla (+ MC_RelayAuthToken.tla with the header / query-parameter
alphabets).  The spec models the loop of ClientRequest::auth_token (one action per header iteration,
the `?` early return, the query fallback) and, separately, the documented rules (Documented);
TLC checks on every input that the loop computes exactly the documented result
(LoopMatchesDocumentation) and the single clauses (FirstBearerWins, CaseInsensitive,
NonTextEndsSearch, QueryOnlyAsFallback, NoneMeansNone).  Two slips are refuted as anti-vacuity
(case-sensitive scheme; query consulted after a non-text header).  The terminal states are the
decision table: (header sequence, query) -> accepted result(s); every row is concretised to raw
header bytes and a URI and evaluated on the real `ClientRequest::new(..).auth_token()`.

Reading written down: "malformed (non-text)" header value = contains bytes that are not valid UTF-8
-> must end the search.  A value with valid UTF-8 non-ASCII text ("utf8" class) may either end the
search (http's HeaderValue::to_str is visible-ASCII only — what the code does) or be read as text;
the table accepts both for that class only.

Mutation self-tests (private copy of /repo): (a) `scheme == "Bearer"` instead of eq_ignore_ascii_case
=> VIOLATION (input bearer_case=noncanonical, kind=expected_some_got_none / wrong_source);
(b) `let Ok(value) = value.to_str() else { break }` (query consulted after a malformed header)
=> VIOLATION (has_binary=yes kind=expected_none_got_some).  Undone => exit 0.
"""
import json
import random

from vlib import ToolError
from checks.relayproto_common import binding_selftest

META = {
    "level": "model_checking",
    "engine": "relay-http",
    "technique": "TLA+ spec RelayAuthToken (header-scan loop vs. documented rules) checked by TLC; the resulting decision "
                 "table evaluated row by row on the real ClientRequest::auth_token (mode A)",
    "text": "TLC enumerates every sequence of up to 3 Authorization header values from 14 classes (Bearer in four casings, "
            "double space, no space, empty token, other schemes, leading space, empty, malformed bytes, UTF-8 text) combined "
            "with absent/empty/one/two query parameters from 10 classes (encoded values, encoded name, wrong case, valueless, "
            "duplicates) and checks that the scan loop yields exactly the documented result: first Bearer header wins, a "
            "malformed value ends the search with none, the first form-decoded `token` parameter is the fallback. Every row "
            "is turned into real header bytes and a URI and ClientRequest::auth_token must return the table's value.",
    "note": "Alphabets are finite (classes); each row is concretised with seeded variations (casing, position of the "
            "non-ASCII bytes). Valid-UTF-8 non-ASCII header values may end the search or be read as text (both accepted).",
    "design_ref": "§6 C12",
}

BINARY = b"\xff\xfe"
UTF8 = "é".encode()

# (header alphabet, parameter alphabet, MaxH, MaxQ); a cfg RelayAuthToken_<h>_<p>.cfg exists per alphabet pair
CONFIGS_QUICK = [("all", "all", 2, 1), ("all", "few", 3, 1), ("few", "all", 1, 2)]
CONFIGS_THOROUGH = [("all", "all", 2, 2), ("all", "few", 3, 2), ("few", "all", 3, 2)]


def run(ctx):
    if ctx.replay:
        rep = json.load(open(ctx.replay))["replay"]
        execute(ctx, [rep])
        return
    rng = random.Random(ctx.seed)
    # anti-vacuity: both slips of DESIGN §12 are refuted on the model
    run_tlc(ctx, "all", "few", 1, 1, mode="mc", strict=True, expect="LoopMatchesDocumentation")
    run_tlc(ctx, "all", "few", 1, 1, mode="mc", qant=True, expect="LoopMatchesDocumentation")
    table = {}
    for (h, p, mh, mq) in ctx.pick(CONFIGS_QUICK, CONFIGS_THOROUGH):
        res = run_tlc(ctx, h, p, mh, mq, mode="gen")
        for r in res.replays:
            key = json.dumps([[x["id"] for x in r["headers"]], r["query"]["present"], [x["id"] for x in r["query"]["params"]]])
            row = table.setdefault(key, {"headers": r["headers"], "query": r["query"], "allowed": []})
            if r["result"] not in row["allowed"]:
                row["allowed"].append(r["result"])
    if not table:
        raise ToolError("TLC produced no decision table")
    cases = []
    variants = ctx.pick(2, 6)
    for key in sorted(table):
        row = table[key]
        for v in range(variants):
            cases.append(concretise(row, v, rng))
    execute(ctx, cases)
    ctx.cov["rule"] = ("every (Authorization header sequence, query) over the class alphabets up to the configured lengths "
                       "(exhaustive per configuration), %d concretisations each; non-trivial = at least one header or a query"
                       % variants)
    ctx.cov["exhaustive"] = True
    ctx.cov["table_rows"] = len(table)


def run_tlc(ctx, h, p, mh, mq, mode, strict=False, qant=False, expect=None):
    name = "RelayAuthToken_%s_%s.cfg" % (h, p)
    kw = dict(cfg=name, mode=mode, timeout=3000,
              constants={"MaxH": mh, "MaxQ": mq, "StrictCase": "TRUE" if strict else "FALSE",
                         "QueryAfterNonText": "TRUE" if qant else "FALSE"})
    if expect:
        return ctx.tlc("relay", "MC_RelayAuthToken", workers=1, coverage=False, expect_violation=expect, **kw)
    return ctx.tlc("relay", "MC_RelayAuthToken", require_actions=["ScanText", "ScanNonText", "ScanEnd", "QueryLookup"], **kw)


def randcase(s, rng):
    return "".join(ch.upper() if rng.random() < 0.5 else ch.lower() for ch in s)


def concretise(row, variant, rng):
    hs, exp_rest = [], {}
    for k, h in enumerate(row["headers"], 1):
        scheme = h["scheme"]
        if variant > 0 and h["lname"] == "bearer" and scheme != "Bearer":
            scheme = randcase("bearer", rng)
            if scheme == "Bearer":
                scheme = "bEARER"
        rest = h["rest"].encode()
        extra = {"ascii": b"", "binary": BINARY, "utf8": UTF8}[h["text"]]
        if h["hasRest"]:
            pos = len(rest) if variant == 0 else rng.randrange(len(rest) + 1)
            rest = rest[:pos] + extra + rest[pos:]
            raw = scheme.encode() + b" " + rest
        else:
            raw = scheme.encode() + extra
        hs.append(raw.hex())
        exp_rest[k] = rest
    q = row["query"]
    params = [p["raw"] for p in q["params"]]
    if variant > 0 and params and rng.random() < 0.5:
        params = list(params)          # order is significant: keep it; add a neutral parameter in front
        params.insert(0, "v=%d" % rng.randrange(1000))
    uri = "/relay" + ("?" + "&".join(params) if q["present"] else "")
    allowed = []
    for r in row["allowed"]:
        if not r["some"]:
            allowed.append([False, ""])
        elif r["from"] == "header":
            allowed.append([True, exp_rest[r["idx"]].decode("utf-8")])
        else:
            allowed.append([True, r["val"]])
    return {"headers": hs, "uri": uri, "allowed": allowed,
            "abstract": {"headers": [h["id"] for h in row["headers"]], "present": q["present"], "params": [p["id"] for p in q["params"]]},
            "classes": {"has_binary": "yes" if any(h["text"] == "binary" for h in row["headers"]) else "no",
                        "has_utf8": "yes" if any(h["text"] == "utf8" for h in row["headers"]) else "no",
                        "bearer_case": ("noncanonical" if any(h["lname"] == "bearer" and h["scheme"] != "Bearer" and h["hasRest"]
                                                              for h in row["headers"]) else "canonical"),
                        "has_token_param": "yes" if any(p["name"] == "token" for p in q["params"]) else "no"}}


def execute(ctx, cases):
    inp = ctx.write_ndjson("c12.in", cases)
    outp = ctx.path("c12.out")
    ctx.run_bin("vh_relayproto", ["c12", "--in", inp, "--out", outp])
    obs = ctx.read_ndjson(outp)
    if len(obs) != len(cases):
        raise ToolError("harness returned %d observations for %d cases" % (len(obs), len(cases)))
    for c, o in zip(cases, obs):
        if o.get("build_error"):
            raise ToolError("could not build the request for %s: %s" % (c["abstract"], o["build_error"]))
        judge(ctx, c, o)
    for c, o in zip(cases, obs):
        if len(c["abstract"]["headers"]) >= 2 and o["some"] and not o.get("panic"):
            binding_selftest(ctx, judge, c, o, [
                ("token value", lambda c_, o_: o_.__setitem__("token", o_["token"] + "x")),
                ("none instead of some", lambda c_, o_: o_.__setitem__("some", False) or o_.__setitem__("token", "")),
                ("expectation flipped", lambda c_, o_: c_.__setitem__("allowed", [[False, ""]])),
                ("panic", lambda c_, o_: o_.__setitem__("panic", "boom"))])
            break


def judge(ctx, c, o):
    a = c["abstract"]
    ctx.count(case_key=[a, c["headers"], c["uri"]], nontrivial=bool(a["headers"] or a["present"]))
    if len(a["headers"]) >= 2 and a["params"] and c["classes"]["has_binary"] == "yes":
        ctx.sample({"authorization_headers": [bytes.fromhex(h).decode("latin-1") for h in c["headers"]], "uri": c["uri"],
                    "expected": c["allowed"], "got": [o["some"], o["token"]]})
    if o.get("panic"):
        ctx.report(dict(c["classes"], kind="panic"), "auth_token panicked: %s" % o["panic"], c)
        return
    got = [o["some"], o["token"]]
    if got in c["allowed"]:
        return
    exp = c["allowed"][0]
    if exp[0] and not got[0]:
        kind = "expected_some_got_none"
    elif got[0] and not exp[0]:
        kind = "expected_none_got_some"
    else:
        kind = "wrong_token"
    ctx.report(dict(c["classes"], kind=kind),
               "auth_token for headers %s uri %s: the table allows %s, got %s"
               % ([bytes.fromhex(h) for h in c["headers"]], c["uri"], c["allowed"], got), c)
