"""C01 — Dialing by public key authenticates the remote endpoint (DESIGN.md §6 C01).

Spec: specs/identity/TlsAuth.tla — symbolic (Dolev-Yao style) model of iroh's TLS 1.3
raw-public-key authentication: the peer holds a set of secret keys and presents an arbitrary
offer (server-name form, end-entity class, number of intermediates, signer, signature scheme);
actions PeerOffer / VerifyCert / VerifySig / Complete follow verify_server_cert (checks in code
order), verify_client_cert, verify_tls13_signature and remote_id_from_noq_conn; the name
encode/decode pair is modelled over the label structure.
TLC (1) proves DialAuth / ClientAuth / ServerAuth / HonestCompletes / NameRoundTrip /
NameShapeRule over every offer x every set of held keys, (2) must refute DialAuth when the SPKI
comparison or the signature check is dropped (CheckSpki / CheckSig = FALSE: anti-vacuity), and
(3) prints every offer with the expected verdict of each verifier call.
Binding (mode A), two layers:
  (i) verifier layer: harness `vh_ident c01v` concretises every offer N times (real Ed25519
      keys from the seed, hand-built SPKI / X.509-shaped / malformed blobs, names derived from the
      real name::encode output, signatures by ed25519-dalek over a TLS 1.3 CertificateVerify
      transcript, honest offers taken from the real ResolveRawPublicKeyCert) and calls the real
      ServerCertificateVerifier / ClientCertificateVerifier / name::{encode,decode} through the
      cfg-guarded wrappers `iroh::verif_hooks_ident`; accept/reject must equal the spec's.
 (ii) end-to-end: `vh_ident c01e` binds real endpoints on 127.0.0.1 (presets::Minimal, relay
      disabled, no address lookup) and dials EndpointAddr{id: d, addrs: [addr of the endpoint
      holding a]} for every (dialer c, d, a) the spec's honest offers give; the connect must
      succeed iff the spec's handshake completes (d = a), and then Connection::remote_id() must be
      d on the dialer and c on the acceptor.

Readings (DESIGN §13): case variants of a name (upper-case label, .IROH.INVALID) are DNS-equivalent
spellings: decoding them to the key or refusing them are both allowed ("either"); a name that is not
a presentable ServerName at all counts as rejected; verifier error *kinds* are not compared.
A timeout of an honest dial is an environment problem (exit 2); any other failure of an honest
dial is reported, because the statement's second sentence needs established connections.

Mutation self-tests done while building (each gave VIOLATION; undo -> exit 0):
  * verify_server_cert without the SPKI comparison -> verifier layer: offers <<Enc(k1), Spki(k2)>>
    accepted; e2e: dialing k1 at the endpoint holding k2 connects;
  * name::decode accepting any suffix (`[label, ..]`) -> name::decode / verify_server_cert accept
    the wrongTld / wrongMid forms.
"""
import json

from vlib import ToolError

META = {
    "level": "model_checking",
    "engine": "identity",
    "technique": "symbolic TLA+ handshake model (TlsAuth) model-checked by TLC over all offers x held-key sets, with refuted "
                 "weakened variants; every offer concretised and executed on iroh's real TLS verifiers (mode A), honest "
                 "offers also end-to-end between real endpoints on 127.0.0.1",
    "text": "TLC proves on the model that a handshake for dialed id K completes only if the peer holds K's secret key and "
            "that both sides then report the key the other side holds, for every combination of server-name form, "
            "end-entity blob class, intermediates, signer (held key, foreign key, replayed signature, garbage) and "
            "signature scheme; each such offer is built from real Ed25519 material and given to iroh's "
            "ServerCertificateVerifier / ClientCertificateVerifier / name::decode, whose accept/reject must equal the "
            "model's; every (dialer, dialed id, key actually held) triple is dialed between real endpoints and must "
            "connect iff the model completes, with remote_id() on both sides as the model says.",
    "note": "Symbolic cryptography: unforgeability of Ed25519 is assumed; rustls/noq are trusted to call the verifiers and "
            "to bind the CertificateVerify signature to the transcript (the e2e layer samples that contract).  Byte-level "
            "fidelity (DER blobs, names, signatures) is only *sampled* by N concretisations per abstract offer (DESIGN §9). "
            "Case variants of the TLS name may decode or be refused; error kinds are not compared.",
    "design_ref": "§6 C01",
}

ACTIONS = ["PeerOffer", "VerifyCert", "VerifySig", "Complete"]


def okey(c):
    return {"side": c["side"], "o": c["o"]}


def judge_verifier(ctx, cases, n, tag):
    inp = ctx.write_ndjson("c01v-%s.in" % tag, cases)
    outp = ctx.path("c01v-%s.out" % tag)
    ctx.run_bin("vh_ident", ["c01v", "--in", inp, "--out", outp, "--n", n])
    obs = ctx.read_ndjson(outp)
    if len(obs) != len(cases):
        raise ToolError("harness returned %d observations for %d cases" % (len(obs), len(cases)))
    for c, o in zip(cases, obs):
        o_ = c["o"]
        nontrivial = c["cert_ok"] or c["sig_ok"] or o_["ee"] == "spki" or o_["form"] in ("enc", "encUpper", "upperSuffix")
        ctx.count(okey(c), nontrivial=nontrivial, n=o["runs"])
        for f in o["fails"]:
            if f["what"].startswith("encode(id)") or f["what"] == "panic" and "harness" in f["got"]:
                pass
            ctx.report({"layer": "verifier", "side": c["side"], "what": f["what"], "form": o_["form"], "ee": o_["ee"],
                        "signer": "own" if o_["signer"] == o_["ekey"] else o_["signer"], "scheme": o_["scheme"],
                        "exp": f["exp"] if len(f["exp"]) < 24 else "value"},
                       "offer %s, concretisation %d: %s: spec says %s, implementation gave %s (%s)"
                       % (json.dumps(okey(c), sort_keys=True), f["rep"], f["what"], f["exp"], f["got"], f["input"]),
                       {"layer": "verifier", "case": c, "n": n, "fail": f})
            break


def judge_e2e(ctx, cases, tag, seed=None):
    inp = ctx.write_ndjson("c01e-%s.in" % tag, cases)
    outp = ctx.path("c01e-%s.out" % tag)
    ctx.run_bin("vh_ident", ["c01e", "--in", inp, "--out", outp], env=({"VERIF_SEED": seed} if seed is not None else None),
                timeout=1200)
    obs = ctx.read_ndjson(outp)
    if len(obs) != len(cases):
        raise ToolError("e2e harness returned %d observations for %d cases" % (len(obs), len(cases)))
    for c, o in zip(cases, obs):
        if o.get("env_error"):
            raise ToolError("e2e environment problem: %s" % o["env_error"])
        ctx.count({"e2e": [c["dialer"], c["dial"], c["actual"], c.get("again", False)]}, nontrivial=True)
        base = {"layer": "e2e", "dial_eq_actual": c["dial"] == c["actual"]}
        rep = {"layer": "e2e", "case": c}
        desc = "dialer %s dials id %s at the endpoint holding %s" % (c["dialer"], c["dial"], c["actual"])
        if c["connects"]:
            if not o["connected"]:
                if o["client_error"] == "timeout":
                    raise ToolError("e2e: honest dial timed out (%s)" % desc)
                ctx.report(dict(base, kind="honest_dial_failed"), "%s: spec completes, connect failed: %s" % (desc, o["client_error"]), rep)
                continue
            if o["client_remote"] != c["client_remote"]:
                ctx.report(dict(base, kind="client_remote_id"), "%s: dialer's remote_id() is %s, spec says %s"
                           % (desc, o["client_remote"], c["client_remote"]), rep)
            if not o["server_accepted"] or o["server_remote"] != c["server_remote"]:
                ctx.report(dict(base, kind="server_remote_id"), "%s: acceptor saw %s (%s), spec says remote_id %s"
                           % (desc, o["server_remote"] or "nothing", o["server_error"], c["server_remote"]), rep)
            if c.get("again") and (o.get("second_connected") is not True or o["second_remote"] != c["client_remote"]):
                if o.get("second_connected") is not True:
                    raise ToolError("e2e: second honest dial did not connect (%s)" % desc)
                ctx.report(dict(base, kind="client_remote_id_second"), "%s: second connection reports %s, spec says %s"
                           % (desc, o["second_remote"], c["client_remote"]), rep)
        else:
            if o["connected"]:
                ctx.report(dict(base, kind="connected_to_wrong_key"),
                           "%s: the spec's handshake fails (peer does not hold %s) but connect succeeded, remote_id() = %s"
                           % (desc, c["dial"], o["client_remote"]), rep)
            elif o["server_accepted"]:
                ctx.report(dict(base, kind="acceptor_established"), "%s: dial failed but the acceptor has an established "
                           "connection from %s" % (desc, o["server_remote"]), rep)
            elif c.get("again") and o.get("second_connected"):
                ctx.report(dict(base, kind="connected_to_wrong_key_second"), "%s: second dial connected, remote_id() = %s"
                           % (desc, o["second_remote"]), rep)
        if o["connected"] and c["connects"]:
            ctx.sample({"e2e": desc, "connected": True, "client_remote_id": o["client_remote"],
                        "server_remote_id": o["server_remote"], "ms": o["elapsed_ms"]}, limit=6)
        elif not o["connected"] and not c["connects"]:
            ctx.sample({"e2e": desc, "connected": False, "client_error": o["client_error"][:160], "ms": o["elapsed_ms"]}, limit=6)


def e2e_cases(replays, again):
    client = {(c["o"]["nkey"], c["o"]["ekey"]): c for c in replays if c["honest"] and c["side"] == "client"}
    server = {c["o"]["ekey"]: c for c in replays if c["honest"] and c["side"] == "server"}
    keys = sorted(server)
    if len(client) != len(keys) ** 2:
        raise ToolError("expected %d honest client offers, TLC printed %d" % (len(keys) ** 2, len(client)))
    out = []
    for (d, a), c in sorted(client.items()):
        for dialer in keys:
            if dialer in (d, a):
                continue          # dialing oneself is refused before TLS; two endpoints do not share a key
            s = server[dialer]
            if not s["complete"]:
                raise ToolError("spec: honest client offer of %s does not complete on the server side" % dialer)
            out.append({"dialer": dialer, "dial": d, "actual": a, "connects": c["complete"],
                        "client_remote": c["remote_id"], "server_remote": s["remote_id"], "again": again})
    for i, c in enumerate(out):
        c["idx"] = i
    return out


def run(ctx):
    if ctx.replay:
        rep = json.load(open(ctx.replay))["replay"]
        if rep["layer"] == "verifier":
            judge_verifier(ctx, [rep["case"]], rep["n"], "replay")
        else:
            judge_e2e(ctx, [rep["case"]], "replay")
        return
    inter = ctx.pick(1, 2)
    base = {"MaxInter": inter, "CheckSpki": "TRUE", "CheckSig": "TRUE"}
    # 1. the proof: every offer x every set of keys the peer may hold
    ctx.tlc("identity", "TlsAuth", mode="mc", constants=dict(base, HeldMode='"all"'), require_actions=ACTIONS, timeout=1500)
    # 2. anti-vacuity: without the SPKI comparison / without the signature check authentication is refuted
    for weak in ({"CheckSpki": "FALSE", "CheckSig": "TRUE"}, {"CheckSpki": "TRUE", "CheckSig": "FALSE"}):
        ctx.tlc("identity", "TlsAuth", cfg="TlsAuth_refute.cfg", mode="mc", workers=1, constants=weak, coverage=False,
                expect_violation="DialAuth", timeout=600)
    # 3. every offer with the expected verdicts
    res = ctx.tlc("identity", "TlsAuth", cfg="TlsAuth_gen.cfg", mode="gen", constants={"MaxInter": inter},
                  require_actions=ACTIONS, timeout=1500)
    cases = res.replays
    cases.sort(key=lambda c: json.dumps(okey(c), sort_keys=True))
    for i, c in enumerate(cases):
        c["idx"] = i
    n = ctx.pick(2, 20)
    judge_verifier(ctx, cases, n, "all")
    for c in cases:
        o = c["o"]
        if (c["side"] == "client" and o["form"] == "enc" and o["ee"] == "spki" and o["nkey"] != o["ekey"]
                and o["signer"] == o["ekey"] and o["inter"] == 0 and o["scheme"] == "ed25519" and o["nkey"] == "k1"
                and o["ekey"] == "k2") or \
           (c["honest"] and o["ekey"] == "k1" and o.get("nkey") in ("k1", "none")) or \
           (c["side"] == "client" and o["signer"] == "replay" and c["cert_ok"] and o["scheme"] == "ed25519" and o["nkey"] == "k3"):
            ctx.sample({k: c[k] for k in ("side", "o", "cert_ok", "sig_ok", "complete", "remote_id")}, limit=4)
    # 4. end to end
    e2e = e2e_cases(cases, again=not ctx.quick)
    seeds = [ctx.seed] if ctx.quick else [ctx.seed, ctx.seed + 1, ctx.seed + 2]
    for s in seeds:
        judge_e2e(ctx, e2e, "s%d" % s, seed=s)
    ctx.cov["rule"] = ("every offer of TlsAuth.tla (name form x end-entity class x intermediates 0..%d x signer x scheme, both sides; "
                       "enumerated exhaustively by TLC), each concretised %d times at the verifier layer; every (dialer, dialed id, "
                       "held key) triple over 3 keys end to end; an offer is non-trivial when a check accepts, the end entity is a "
                       "well-formed SPKI or the name is a spelling of an encoded id" % (inter, n))
    ctx.cov["exhaustive"] = True
    ctx.cov["e2e_cases"] = len(e2e) * len(seeds)
    ctx.assume("Ed25519 signatures are unforgeable; a replayed signature is one over a different transcript")
    ctx.assume("rustls/noq call verify_server_cert / verify_client_cert and verify_tls13_signature and abort the handshake on Err")
    ctx.assume("byte-level forms of names, DER blobs and signatures are sampled (N concretisations per offer), not enumerated")
