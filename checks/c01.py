"""C01 — Dialing by public key authenticates the remote endpoint (DESIGN.md §6 C01).

Spec: specs/identity/TlsAuth.tla — symbolic (Dolev-Yao style) model of iroh's TLS 1.3
raw-public-key authentication: the peer holds a set of secret keys and presents an arbitrary
offer (server-name form, end-entity class, number of intermediates, signer, signature scheme);
actions PeerOffer / VerifyCert / VerifySig / Complete follow verify_server_cert (checks in code
order), verify_client_cert, verify_tls13_signature and remote_id_from_noq_conn; the name
encode/decode pair is modelled over the label structure.
TLC (1) proves DialAuth / ClientAuth / ServerAuth / HonestCompletes / NameRoundTrip /
NameShapeRule over every offer x every set of held keys, (2) must refute DialAuth when the SPKI
comparison or the signature check is dropped (CheckSpki / CheckSig = FALSE: anti-vacuity), and
(3) prints every offer with the expected verdict of each verifier call.
Binding (mode A), two layers:
  (i) verifier layer: harness `vh_ident c01v` concretises every offer N times (real Ed25519
      keys from the seed, hand-built SPKI / X.509-shaped / malformed blobs, names derived from the
      real name::encode output, signatures by ed25519-dalek over a TLS 1.3 CertificateVerify
      transcript, honest offers taken from the real ResolveRawPublicKeyCert) and calls the real
      ServerCertificateVerifier / ClientCertificateVerifier / name::{encode,decode} through the
      cfg-guarded wrappers `iroh::verif_hooks_ident`; accept/reject must equal the spec's.
 (ii) end-to-end: `vh_ident c01e` binds real endpoints on 127.0.0.1 (presets::Minimal, relay
      disabled, no address lookup) and dials EndpointAddr{id: d, addrs: [addr of the endpoint
      holding a]} for every (dialer c, d, a) the spec's honest offers give; the connect must
      succeed iff the spec's handshake completes (d = a), and then Connection::remote_id() must be
      d on the dialer and c on the acceptor.

Weak keys (added after an independently written breaking change slipped through): an endpoint id
only has to be a curve point, and the small-order points are curve points for which nobody holds a
secret.  The spec has a key class WeakKeys and an adversary-constructible signature term Forgery
(s = 0, R small-order: satisfies the permissive Ed25519 equation for a small-order key and every
transcript); `Verifies` is the strict check (constant Strict, FALSE = dalek's plain verify, refuted
by TLC with exactly the impostor offer <<Enc(w), Spki(w), 0, Forgery>> against held = {}); DialAuth /
ClientAuth range over weak ids too and NoWeakIdentity says nobody is ever authenticated as one.
The verifier layer runs every offer that involves the weak key once per small-order encoding that
EndpointId::from_bytes accepts (all 8 torsion points and their other spellings, exhaustively) as
dialed id and presented SPKI, and every Forgery offer with the whole list of forged signatures
(s = 0 with R each small-order encoding and R = the presented key), on the server-cert and the
client-cert side; `vh_ident c01i` adds the end-to-end impostor: a hand-rolled noq/rustls peer without
any secret key against a real endpoint, dialing and accepting.

Growth: specs/identity/TlsSession.tla models several dials of one endpoint with rustls' session cache
(resumed handshakes skip the certificate check; the cache is bucketed by the id-derived server name);
TLC proves SessionAuth / BucketsPartitioned, refutes the constant-server-name variant, and a seeded
selection of its behaviours (attack-shaped first: authenticated dial, then another id at the same
endpoint) is replayed on one real dialer endpoint (`vh_ident c01s`).
Binding self-test (every run): ~60 verifier expectations and 3 e2e expectations are flipped and the
comparison must object to every one.

Readings (DESIGN §13): case variants of a name (upper-case label, .IROH.INVALID) are DNS-equivalent
spellings: decoding them to the key or refusing them are both allowed ("either"); a name that is not
a presentable ServerName at all counts as rejected; verifier error *kinds* are not compared.
A timeout of an honest dial is an environment problem (exit 2); any other failure of an honest
dial is reported, because the statement's second sentence needs established connections.

Mutation self-tests done while building (each gave VIOLATION and exit 1, the unmutated tree exit 0;
run in a private copy of /repo + /verif under /var/tmp/ident-mut, see checks/c02.py for why):
  * verify_server_cert comparing only the length of the SPKI -> verifier layer: offers <<Enc(k1), any
    44-byte blob / Spki(k2)>> accepted (VIOLATION what=verify_server_cert); the e2e layer, run on that
    build, connected all six (dial d at the holder of a != d) cases with remote_id() = a;
  * name::decode accepting any suffix (`[label, "iroh", ..]`) -> name::decode accepts the trailingDot /
    wrongTld forms (VIOLATION what=name::decode);
  * verify_client_cert tolerating one intermediate -> server-side offers with inter = 1 accepted
    (VIOLATION what=verify_client_cert).
  * seeded/_incoming/C01/patch.diff (Ed25519Dalek::verify_signature through dalek's permissive
    `Verifier::verify`): not caught before the weak-key classes existed; now VIOLATION
    what=verify_tls13_signature for the Forgery offers on both sides and kind=keyless_peer_authenticated
    in the impostor layer (bin/seedtest, scratch worktree);
  * seeded/_incoming/C01/patch2.diff (name::decode matching labels from the TLD downwards, extra
    leading labels tolerated) -> VIOLATION what=name::decode for the subdomain form.
"""
import json

from vlib import ToolError

META = {
    "level": "model_checking",
    "engine": "identity",
    "technique": "symbolic TLA+ handshake model (TlsAuth) model-checked by TLC over all offers x held-key sets, with refuted "
                 "weakened variants; every offer concretised and executed on iroh's real TLS verifiers (mode A), honest "
                 "offers also end-to-end between real endpoints on 127.0.0.1",
    "text": "TLC proves on the model that a handshake for dialed id K completes only if the peer holds K's secret key and "
            "that both sides then report the key the other side holds, for every combination of server-name form, "
            "end-entity blob class, intermediates, signer (held key, foreign key, replayed signature, garbage, the universal "
            "forgery for small-order keys) and "
            "signature scheme; each such offer is built from real Ed25519 material and given to iroh's "
            "ServerCertificateVerifier / ClientCertificateVerifier / name::decode, whose accept/reject must equal the "
            "model's; every (dialer, dialed id, key actually held) triple is dialed between real endpoints and must "
            "connect iff the model completes, with remote_id() on both sides as the model says.",
    "note": "Symbolic cryptography: unforgeability of Ed25519 is assumed; rustls/noq are trusted to call the verifiers and "
            "to bind the CertificateVerify signature to the transcript (the e2e layer samples that contract).  Byte-level "
            "fidelity (DER blobs, names, signatures) is only *sampled* by N concretisations per abstract offer (DESIGN §9). "
            "Case variants of the TLS name may decode or be refused; error kinds are not compared.",
    "design_ref": "§6 C01",
}

ACTIONS = ["PeerOffer", "VerifyCert", "VerifySig", "Complete"]


def okey(c):
    return {"side": c["side"], "o": c["o"]}


def judge_verifier(ctx, cases, n, tag):
    inp = ctx.write_ndjson("c01v-%s.in" % tag, cases)
    outp = ctx.path("c01v-%s.out" % tag)
    ctx.run_bin("vh_ident", ["c01v", "--in", inp, "--out", outp, "--n", n])
    obs = ctx.read_ndjson(outp)
    if len(obs) != len(cases):
        raise ToolError("harness returned %d observations for %d cases" % (len(obs), len(cases)))
    for c, o in zip(cases, obs):
        o_ = c["o"]
        nontrivial = c["cert_ok"] or c["sig_ok"] or o_["ee"] == "spki" or o_["form"] in ("enc", "encUpper", "upperSuffix")
        ctx.count(okey(c), nontrivial=nontrivial, n=o["runs"])
        for f in o["fails"]:
            if f["what"].startswith("harness-assumption"):
                raise ToolError("harness could not concretise %s: %s" % (json.dumps(okey(c)), f["got"]))
            ctx.report({"layer": "verifier", "side": c["side"], "what": f["what"], "form": o_["form"], "ee": o_["ee"],
                        "signer": "own" if o_["signer"] == o_["ekey"] else o_["signer"], "scheme": o_["scheme"],
                        "exp": f["exp"] if len(f["exp"]) < 24 else "value"},
                       "offer %s, concretisation %d: %s: spec says %s, implementation gave %s (%s)"
                       % (json.dumps(okey(c), sort_keys=True), f["rep"], f["what"], f["exp"], f["got"], f["input"]),
                       {"layer": "verifier", "case": c, "n": n, "fail": f})
            break


def judge_e2e(ctx, cases, tag, seed=None):
    inp = ctx.write_ndjson("c01e-%s.in" % tag, cases)
    outp = ctx.path("c01e-%s.out" % tag)
    ctx.run_bin("vh_ident", ["c01e", "--in", inp, "--out", outp], env=({"VERIF_SEED": seed} if seed is not None else None),
                timeout=1200)
    obs = ctx.read_ndjson(outp)
    if len(obs) != len(cases):
        raise ToolError("e2e harness returned %d observations for %d cases" % (len(obs), len(cases)))
    for c, o in zip(cases, obs):
        if o.get("env_error"):
            raise ToolError("e2e environment problem: %s" % o["env_error"])
        ctx.count({"e2e": [c["dialer"], c["dial"], c["actual"], c.get("again", False)]}, nontrivial=True)
        base = {"layer": "e2e", "dial_eq_actual": c["dial"] == c["actual"]}
        rep = {"layer": "e2e", "case": c}
        desc = "dialer %s dials id %s at the endpoint holding %s" % (c["dialer"], c["dial"], c["actual"])
        if c["connects"]:
            if not o["connected"]:
                if o["client_error"] == "timeout":
                    raise ToolError("e2e: honest dial timed out (%s)" % desc)
                ctx.report(dict(base, kind="honest_dial_failed"), "%s: spec completes, connect failed: %s" % (desc, o["client_error"]), rep)
                continue
            if o["client_remote"] != c["client_remote"]:
                ctx.report(dict(base, kind="client_remote_id"), "%s: dialer's remote_id() is %s, spec says %s"
                           % (desc, o["client_remote"], c["client_remote"]), rep)
            if not o["server_accepted"] or o["server_remote"] != c["server_remote"]:
                ctx.report(dict(base, kind="server_remote_id"), "%s: acceptor saw %s (%s), spec says remote_id %s"
                           % (desc, o["server_remote"] or "nothing", o["server_error"], c["server_remote"]), rep)
            if c.get("again") and (o.get("second_connected") is not True or o["second_remote"] != c["client_remote"]):
                if o.get("second_connected") is not True:
                    raise ToolError("e2e: second honest dial did not connect (%s)" % desc)
                ctx.report(dict(base, kind="client_remote_id_second"), "%s: second connection reports %s, spec says %s"
                           % (desc, o["second_remote"], c["client_remote"]), rep)
        else:
            if o["connected"]:
                ctx.report(dict(base, kind="connected_to_wrong_key"),
                           "%s: the spec's handshake fails (peer does not hold %s) but connect succeeded, remote_id() = %s"
                           % (desc, c["dial"], o["client_remote"]), rep)
            elif o["server_accepted"]:
                ctx.report(dict(base, kind="acceptor_established"), "%s: dial failed but the acceptor has an established "
                           "connection from %s" % (desc, o["server_remote"]), rep)
            elif c.get("again") and o.get("second_connected"):
                ctx.report(dict(base, kind="connected_to_wrong_key_second"), "%s: second dial connected, remote_id() = %s"
                           % (desc, o["second_remote"]), rep)
        if o["connected"] and c["connects"]:
            ctx.sample({"e2e": desc, "connected": True, "client_remote_id": o["client_remote"],
                        "server_remote_id": o["server_remote"], "ms": o["elapsed_ms"]}, limit=6)
        elif not o["connected"] and not c["connects"]:
            ctx.sample({"e2e": desc, "connected": False, "client_error": o["client_error"][:160], "ms": o["elapsed_ms"]}, limit=6)


def judge_impostor(ctx, cases, tag):
    """A peer without any secret key presents a small-order point and the universal forgery (noq/rustls by hand)."""
    inp = ctx.write_ndjson("c01i-%s.in" % tag, cases)
    outp = ctx.path("c01i-%s.out" % tag)
    ctx.run_bin("vh_ident", ["c01i", "--in", inp, "--out", outp], timeout=600)
    obs = ctx.read_ndjson(outp)
    if len(obs) != len(cases):
        raise ToolError("impostor harness returned %d observations for %d cases" % (len(obs), len(cases)))
    for c, o in zip(cases, obs):
        if o.get("env_error"):
            raise ToolError("e2e environment problem (impostor): %s" % o["env_error"])
        role = "dials the weak id at" if c["side"] == "client" else "accepts a connection from"
        desc = "a real endpoint %s a peer that holds no secret key (weak point + universal forgery)" % role
        ctx.count({"impostor": c["side"]}, nontrivial=True)
        if o["established"] != c["complete"]:
            ctx.report({"layer": "impostor", "side": c["side"], "kind": "keyless_peer_authenticated" if o["established"] else "refused"},
                       "%s: spec says complete = %s, the endpoint has %s (remote_id() = %s; %s)"
                       % (desc, c["complete"], "an established connection" if o["established"] else "no connection",
                          o["remote"] or "-", o["error"][:160]), {"layer": "impostor", "case": c})
        else:
            ctx.sample({"impostor": desc, "established": o["established"], "error": o["error"][:160]}, limit=10)


def e2e_cases(replays, again):
    server = {c["o"]["ekey"]: c for c in replays if c["honest"] and c["side"] == "server"}
    keys = sorted(server)
    # ids that somebody can hold (dialing a weak id is the impostor layer's business)
    client = {(c["o"]["nkey"], c["o"]["ekey"]): c for c in replays
              if c["honest"] and c["side"] == "client" and c["o"]["nkey"] in server}
    if len(client) != len(keys) ** 2:
        raise ToolError("expected %d honest client offers, TLC printed %d" % (len(keys) ** 2, len(client)))
    out = []
    for (d, a), c in sorted(client.items()):
        for dialer in keys:
            if dialer in (d, a):
                continue          # dialing oneself is refused before TLS; two endpoints do not share a key
            s = server[dialer]
            if not s["complete"]:
                raise ToolError("spec: honest client offer of %s does not complete on the server side" % dialer)
            out.append({"dialer": dialer, "dial": d, "actual": a, "connects": c["complete"],
                        "client_remote": c["remote_id"], "server_remote": s["remote_id"], "again": again})
    for i, c in enumerate(out):
        c["idx"] = i
    return out


def judge_sessions(ctx, behaviours, tag):
    """Behaviours of TlsSession.tla (several dials of one endpoint, session cache in play) on real endpoints."""
    inp = ctx.write_ndjson("c01s-%s.in" % tag, behaviours)
    outp = ctx.path("c01s-%s.out" % tag)
    ctx.run_bin("vh_ident", ["c01s", "--in", inp, "--out", outp], timeout=1800)
    obs = ctx.read_ndjson(outp)
    if len(obs) != len(behaviours):
        raise ToolError("session harness returned %d observations for %d behaviours" % (len(obs), len(behaviours)))
    for b, o in zip(behaviours, obs):
        if o.get("env_error"):
            raise ToolError("e2e environment problem: %s" % o["env_error"])
        word = [[d["dial"], d["at"]] for d in b["dials"]]
        ctx.count({"sessions": word}, nontrivial=True)
        rep = {"layer": "sessions", "case": b}
        for i, (d, got) in enumerate(zip(b["dials"], o["dials"])):
            desc = "dial %d of %s (id %s at the endpoint holding %s)" % (i + 1, word, d["dial"], d["at"])
            if d["ok"] and not got["ok"]:
                if got["error"] == "timeout":
                    raise ToolError("e2e: honest dial timed out: %s" % desc)
                ctx.report({"layer": "sessions", "kind": "honest_dial_failed"}, "%s: spec connects, got %s" % (desc, got["error"]), rep)
            elif not d["ok"] and got["ok"]:
                ctx.report({"layer": "sessions", "kind": "connected_to_wrong_key", "after_honest": any(x["ok"] for x in b["dials"][:i])},
                           "%s: the spec refuses (the peer does not hold %s) but connect succeeded with remote_id() = %s"
                           % (desc, d["dial"], got["remote"]), rep)
            elif d["ok"] and got["remote"] != d["remote"]:
                ctx.report({"layer": "sessions", "kind": "client_remote_id"}, "%s: remote_id() is %s, spec says %s"
                           % (desc, got["remote"], d["remote"]), rep)
            elif d["ok"] and got["server_remote"] != "dialer":
                ctx.report({"layer": "sessions", "kind": "server_remote_id"}, "%s: acceptor reports %s, not the dialer's key"
                           % (desc, got["server_remote"] or "nothing"), rep)
        ctx.sample({"sessions": word, "expected_ok": [d["ok"] for d in b["dials"]], "got_ok": [g["ok"] for g in o["dials"]],
                    "remote": [g["remote"] for g in o["dials"]], "ms": o["elapsed_ms"]}, limit=8)


def pick_sessions(ctx, behaviours, k):
    """Prefer the attack shape: an authenticated dial, then another id at the same endpoint."""
    import random

    def attack(b):
        ds = b["dials"]
        return any(ds[i]["ok"] and ds[j]["at"] == ds[i]["at"] and ds[j]["dial"] != ds[i]["dial"]
                   for i in range(len(ds)) for j in range(i + 1, len(ds)))

    def again(b):
        ds = b["dials"]
        return any(ds[i]["ok"] and ds[j]["ok"] and ds[j]["dial"] == ds[i]["dial"] for i in range(len(ds)) for j in range(i + 1, len(ds)))
    behaviours.sort(key=lambda b: json.dumps(b, sort_keys=True))
    rnd = random.Random(ctx.seed)
    a = [b for b in behaviours if attack(b)]
    r = [b for b in behaviours if again(b) and not attack(b)]
    rest = [b for b in behaviours if not attack(b) and not again(b)]
    for lst in (a, r, rest):
        rnd.shuffle(lst)
    out = a[:max(1, k // 2)] + r[:max(1, k // 4)]
    out += rest[:max(0, k - len(out))]
    for i, b in enumerate(out):
        b["idx"] = i
    return out


def binding_selftest(ctx, cases, e2e):
    """Flip one expectation per layer: the harness-side comparison must object to every flipped case."""
    flipped = []
    seen = set()
    for c in cases:
        o = c["o"]
        tag = (c["side"], o["form"], o["ee"], c["cert_ok"], c["sig_ok"])
        if tag in seen or len(flipped) >= 60 or len(c["decode"]) > 1:
            continue
        seen.add(tag)
        f = dict(c)
        if len(flipped) % 2 == 0:
            f["cert_ok"] = not c["cert_ok"]
        else:
            f["sig_ok"] = not c["sig_ok"]
        f["honest"] = False
        flipped.append(f)
    # names: a decodable name whose allowed set no longer contains its id
    for c in cases:
        if c["side"] == "client" and c["o"]["form"] == "enc" and c["o"]["ee"] == "empty" and c["o"]["signer"] == "none" \
                and c["o"]["inter"] == 0 and c["o"]["scheme"] == "other":
            flipped.append(dict(c, decode=["none"]))
    inp = ctx.write_ndjson("c01v-selftest.in", flipped)
    outp = ctx.path("c01v-selftest.out")
    ctx.run_bin("vh_ident", ["c01v", "--in", inp, "--out", outp, "--n", 2])
    obs = ctx.read_ndjson(outp)
    missed = [okey(c) for c, o in zip(flipped, obs) if o["ok"]]
    if len(obs) != len(flipped) or missed:
        raise ToolError("binding self-test: %d flipped verifier expectations were not detected, e.g. %s" % (len(missed), missed[:3]))
    # e2e: the judge must object when the expectation of one honest and one dishonest dial is turned around
    probe = Probe(ctx)
    yes = next(c for c in e2e if c["connects"])
    no = next(c for c in e2e if not c["connects"])
    for c in (dict(yes, connects=False), dict(no, connects=True, client_remote=no["dial"]), dict(yes, client_remote="k?")):
        c = dict(c, again=False)
        before = len(probe.violations)
        judge_e2e(probe, [c], "selftest")
        if len(probe.violations) == before:
            raise ToolError("binding self-test: flipped e2e expectation not detected: %s" % c)
    ctx.log("binding self-test: %d flipped verifier expectations and 3 flipped e2e expectations, all detected" % len(flipped))
    ctx.cov["binding_selftest_flips_detected"] = len(flipped) + 3


class Probe:
    """A ctx look-alike for the self-test: runs the harness through the real ctx, keeps reports to itself."""

    def __init__(self, ctx):
        self._ctx = ctx
        self.violations = []

    def __getattr__(self, name):
        return getattr(self._ctx, name)

    def report(self, sig, what, replay_obj):
        self.violations.append((sig, what))

    def count(self, *a, **k):
        pass

    def sample(self, *a, **k):
        pass


def run(ctx):
    if ctx.replay:
        rep = json.load(open(ctx.replay))["replay"]
        if rep["layer"] == "verifier":
            judge_verifier(ctx, [rep["case"]], rep["n"], "replay")
        elif rep["layer"] == "sessions":
            judge_sessions(ctx, [rep["case"]], "replay")
        elif rep["layer"] == "impostor":
            judge_impostor(ctx, [rep["case"]], "replay")
        else:
            judge_e2e(ctx, [rep["case"]], "replay")
        return
    inter = ctx.pick(1, 2)
    base = {"MaxInter": inter, "CheckSpki": "TRUE", "CheckSig": "TRUE", "Strict": "TRUE"}
    # 1. the proof: every offer x every set of keys the peer may hold
    ctx.tlc("identity", "TlsAuth", mode="mc", constants=dict(base, HeldMode='"all"'), require_actions=ACTIONS, timeout=1500)
    # 2. anti-vacuity: without the SPKI comparison / without the signature check authentication is refuted
    #    ... and with the permissive Ed25519 check a key-less peer is authenticated as a small-order id
    for weak in ({"CheckSpki": "FALSE", "CheckSig": "TRUE", "Strict": "TRUE"}, {"CheckSpki": "TRUE", "CheckSig": "FALSE", "Strict": "TRUE"},
                 {"CheckSpki": "TRUE", "CheckSig": "TRUE", "Strict": "FALSE"}):
        ctx.tlc("identity", "TlsAuth", cfg="TlsAuth_refute.cfg", mode="mc", workers=1, constants=weak, coverage=False,
                expect_violation="DialAuth", timeout=600)
    # 3. every offer with the expected verdicts
    res = ctx.tlc("identity", "TlsAuth", cfg="TlsAuth_gen.cfg", mode="gen", constants={"MaxInter": inter},
                  require_actions=ACTIONS, timeout=1500)
    cases = res.replays
    cases.sort(key=lambda c: json.dumps(okey(c), sort_keys=True))
    for i, c in enumerate(cases):
        c["idx"] = i
    n = ctx.pick(2, 20)
    judge_verifier(ctx, cases, n, "all")
    for c in cases:
        o = c["o"]
        if (c["side"] == "client" and o["form"] == "enc" and o["ee"] == "spki" and o["nkey"] != o["ekey"]
                and o["signer"] == o["ekey"] and o["inter"] == 0 and o["scheme"] == "ed25519" and o["nkey"] == "k1"
                and o["ekey"] == "k2") or \
           (c["honest"] and o["ekey"] == "k1" and o.get("nkey") in ("k1", "none")) or \
           (c["side"] == "client" and o["signer"] == "replay" and c["cert_ok"] and o["scheme"] == "ed25519" and o["nkey"] == "k3"):
            ctx.sample({k: c[k] for k in ("side", "o", "cert_ok", "sig_ok", "complete", "remote_id")}, limit=4)
    # 4. end to end
    e2e = e2e_cases(cases, again=not ctx.quick)
    seeds = [ctx.seed] if ctx.quick else [ctx.seed, ctx.seed + 1, ctx.seed + 2]
    for s in seeds:
        judge_e2e(ctx, e2e, "s%d" % s, seed=s)
    # 4b. the key-less impostor (weak id + universal forgery) against a real endpoint, both directions
    imp = [dict(c, idx=i) for i, c in enumerate(x for x in cases if x["impostor"])]
    if sorted(c["side"] for c in imp) != ["client", "server"]:
        raise ToolError("expected one impostor offer per side from TLC, got %d" % len(imp))
    judge_impostor(ctx, imp, "all")
    binding_selftest(ctx, cases, e2e)
    # 5. growth: several dials of one endpoint with the TLS session cache in play (TlsSession.tla)
    dials = ctx.pick(3, 4)
    sres = ctx.tlc("identity", "TlsSession", mode="gen", constants={"MaxDials": dials, "NamePerId": "TRUE"},
                   require_actions=["Dial"], timeout=900)
    ctx.tlc("identity", "TlsSession", cfg="TlsSession_refute.cfg", mode="mc", workers=1, constants={"MaxDials": dials},
            coverage=False, expect_violation="SessionAuth", timeout=600)
    picked = pick_sessions(ctx, sres.replays, ctx.pick(6, 60))
    judge_sessions(ctx, picked, "all")
    ctx.cov["session_behaviours"] = {"generated_by_tlc": len(sres.replays), "replayed_e2e": len(picked)}
    ctx.cov["rule"] = ("every offer of TlsAuth.tla (name form x end-entity class x intermediates 0..%d x signer x scheme, both sides; "
                       "enumerated exhaustively by TLC), each concretised %d times at the verifier layer; every (dialer, dialed id, "
                       "held key) triple over 3 keys end to end; a seeded selection of the TlsSession behaviours (attack-shaped ones first) on one "
                       "real dialer endpoint; an offer is non-trivial when a check accepts, the end entity is a "
                       "well-formed SPKI or the name is a spelling of an encoded id" % (inter, n))
    ctx.cov["exhaustive"] = True
    ctx.cov["e2e_cases"] = len(e2e) * len(seeds)
    ctx.assume("Ed25519 signatures are unforgeable; a replayed signature is one over a different transcript")
    ctx.assume("rustls/noq call verify_server_cert / verify_client_cert and verify_tls13_signature and abort the handshake on Err")
    ctx.assume("byte-level forms of names, DER blobs and signatures are sampled (N concretisations per offer), not enumerated")
