"""C13 — Captive-portal probe echoes only well-formed challenges (DESIGN.md §6 C13).

Spec: specs/relay/CaptivePortal.tla (decision table with the request's three stages Parse / Route /
Handle).  TLC checks the property on the model (echo iff 1..63 good characters, echo = challenge,
204, nothing but GET /generate_204 echoes) and prints the expected response of every abstract case.
This module concretises each case into request bytes (independent character tables below), the
harness (vh_relaynet c13) sends them over real TCP connections to the two real deployments of the
probe (dedicated plain-HTTP listener of a TLS relay, request handler of a non-TLS relay, both from
`iroh_relay::server::Server::spawn`), and the observed status / `X-Iroh-Response` header must equal
TLC's.

Deviation from DESIGN: the spec is its own module (CaptivePortal) instead of a section of one
RelayHttp module (C11, C12, C13 are built by different people).  The table is larger than the sketch:
boundary characters next to the good ranges, optional-whitespace trimming by the HTTP layer, control
bytes, header absent / twice / other spellings, other methods and paths, both deployments.

Mutation self-test (2026-09-22; run against a private copy of /repo with the same harness and judge, because
a rebuild takes ~10 min on the shared machine and /repo must not stay mutated that long): `c.len() < 64` ->
`c.len() <= 64` in serve_no_content_handler is reported as VIOLATION (kind=echo-unexpected, len 64, both
listeners); `|| c == '/'` added to is_challenge_char is reported (kind=echo-unexpected, bad=slash); `--replay`
of the written replay file reproduces it; undoing returns to exit 0.
"""
import random

from vlib import ToolError

META = {
    "level": "model_checking",
    "engine": "relay-http",
    "technique": "TLA+ decision-table spec CaptivePortal checked by TLC; every abstract case concretised into raw HTTP "
                 "request bytes and sent to the real captive-portal listeners of Server::spawn (mode A)",
    "text": "TLC enumerates every abstract probe request (challenge length x fill class x one deviating byte class x its "
            "position, plus header-occurrence / method / path variants, for both deployments of the handler), checks on the "
            "model that a response header is produced exactly for challenges of 1..63 letters, digits, '.', '-', '_' and "
            "that it carries the challenge, and prints the expected response of each case; each case is then sent as raw "
            "bytes over TCP to real servers started with Server::spawn and status and X-Iroh-Response must equal the model's.",
    "note": "Challenge = the header's field value, i.e. after the HTTP layer removed leading/trailing spaces and tabs (RFC "
            "9110 5.5): a 64-byte wire value that starts with a space is a well-formed 63-character challenge.  Bytes that "
            "HTTP does not allow in a field value (0x01, 0x7f) are outside the property's quantifier: for them only "
            "'no response header' is compared, not the status hyper chooses; likewise for requests that are not GET /generate_204 "
            "(the model says 404, only the absence of the echo is compared).  One deviating byte per challenge; lengths from a "
            "boundary set up to 80 (thorough: every length 0..80); concrete bytes of a class drawn with the seed.",
    "design_ref": "§6 C13",
}

# class -> candidate bytes (independent of the code under test and of the spec's rule)
CLASS_BYTES = {
    "lower": b"abcdefghijklmnopqrstuvwxyz",
    "upper": b"ABCDEFGHIJKLMNOPQRSTUVWXYZ",
    "digit": b"0123456789",
    "dot": b".", "dash": b"-", "underscore": b"_",
    "space": b" ", "tab": b"\t", "at": b"@", "lbracket": b"[", "backtick": b"`", "lbrace": b"{", "slash": b"/",
    "colon": b":", "comma": b",", "plus": b"+", "tilde": b"~", "bang": b"!",
    "high80": bytes([0x80]), "highff": bytes([0xFF]),
    "punct": bytes(b for b in range(0x21, 0x7F) if not (chr(b).isalnum() or chr(b) in ".-_@[`{/:,+~!")),
    "high": bytes(range(0x81, 0xFF)),
    "ctl01": bytes([0x01]), "del7f": bytes([0x7F]),
}
CTL = ("ctl01", "del7f")
HDR = {"once": b"X-Iroh-Challenge", "twice": b"X-Iroh-Challenge", "lowername": b"x-iroh-challenge",
       "uppername": b"X-IROH-CHALLENGE"}

ALL_BADS = ["space", "tab", "at", "lbracket", "backtick", "lbrace", "slash", "colon", "comma", "plus", "tilde", "bang",
            "high80", "highff", "punct", "high", "ctl01", "del7f"]


def tla_set(items):
    return "{" + ", ".join(('"%s"' % i) if isinstance(i, str) else str(i) for i in items) + "}"


def concretise(req, raw, rng):
    """Abstract case (+ the spec's class sequence of the challenge) -> (request bytes, challenge bytes on the wire)."""
    chal = bytes(rng.choice(CLASS_BYTES[k]) for k in raw)
    lines = [("%s %s HTTP/1.1" % (req["method"], req["path"])).encode(), b"Host: localhost"]
    if req["hdr"] != "absent":
        # one space of optional whitespace after the colon, as every client writes it
        lines.append(HDR[req["hdr"]] + b": " + chal)
    if req["hdr"] == "twice":
        lines.append(b"X-Iroh-Challenge: second.value")
    lines.append(b"Connection: close")
    return b"\r\n".join(lines) + b"\r\n\r\n", chal


def run(ctx):
    if ctx.replay:
        import json
        rep = json.load(open(ctx.replay))["replay"]
        judge(ctx, [rep["case"]], execute(ctx, [rep["case"]], [bytes.fromhex(rep["request"])]), [bytes.fromhex(rep["request"])],
              [bytes.fromhex(rep["challenge"])])
        return
    consts = {
        "Lens": tla_set(ctx.pick([0, 1, 2, 3, 62, 63, 64, 65, 80], list(range(0, 81)))),
        "Fills": tla_set(ctx.pick(["lower", "digit", "underscore", "mixed"],
                                  ["lower", "upper", "digit", "dot", "dash", "underscore", "mixed"])),
        "Bads": tla_set(ALL_BADS),
        "Listeners": tla_set(["portal", "relay"]),
    }
    res = ctx.tlc("relay", "CaptivePortal", mode="gen", constants=consts, timeout=1500,
                  require_actions=["Parse", "Route", "Handle"])
    cases = res.replays
    if not cases:
        raise ToolError("TLC printed no case")
    rng = random.Random(ctx.seed)
    reqs, chals = [], []
    for c in cases:
        r, ch = concretise(c["req"], c["raw"], rng)
        reqs.append(r)
        chals.append(ch)
    obs = execute(ctx, cases, reqs)
    judge(ctx, cases, obs, reqs, chals)
    if not ctx.violations:
        selftest(ctx, cases, obs, reqs, chals)
    ctx.cov["rule"] = ("every case of the CaptivePortal decision table at the tier's constants (exhaustive): listener x "
                       "challenge shape (len, fill, deviating byte class, position) plus method/path/header-occurrence "
                       "variants; non-trivial = the request reaches the handler with a challenge header")
    ctx.cov["exhaustive"] = True
    ctx.assume("HTTP/1.1 request-head parsing (hyper): field values are trimmed of leading/trailing SP/HTAB; header names are "
               "case-insensitive; the first of repeated headers is the one `HeaderMap::get` returns")
    ctx.assume("one deviating byte per challenge; the classes' concrete bytes are drawn with the seed")


def execute(ctx, cases, reqs):
    inp = ctx.write_ndjson("c13.in", [{"listener": c["req"]["listener"], "request": r.hex()} for c, r in zip(cases, reqs)])
    outp = ctx.path("c13.out")
    try:
        ctx.run_bin("vh_relaynet", ["c13", "--in", inp, "--out", outp], timeout=1200)
    except ToolError as e:
        raise ToolError("environment problem in the harness (not a property violation): %s" % e)
    obs = ctx.read_ndjson(outp)
    if len(obs) != len(cases):
        raise ToolError("harness returned %d observations for %d cases" % (len(obs), len(cases)))
    return obs


def mismatch(c, o, chal):
    """Compares one observation with TLC's expectation; returns None or (kind, expected, got)."""
    req, exp = c["req"], c["exp"]
    got_vals = [bytes.fromhex(v) for v in o["response_headers"]]
    if o.get("err"):
        return ("io-error", "a response", o["err"])
    if exp["echo"]:
        want = b"response " + chal[exp["from"] - 1:exp["to"]]
        if got_vals != [want]:
            return ("echo-missing" if not got_vals else "echo-wrong", repr(want), repr(got_vals))
    elif got_vals:
        return ("echo-unexpected", "no X-Iroh-Response header", repr(got_vals))
    if req["bad"] in CTL and req["hdr"] != "absent":
        return None           # status is hyper's choice for bytes HTTP forbids (see META note)
    if exp["status"] != 204:
        return None           # not the probe (other method / path): the property only forbids an echo, any status will do
    if o["status"] != exp["status"]:
        return ("status", str(exp["status"]), str(o["status"]))
    return None


def judge(ctx, cases, obs, reqs, chals, report=True):
    bad = 0
    for c, o, r, ch in zip(cases, obs, reqs, chals):
        req = c["req"]
        reaches = req["method"] == "GET" and req["path"] == "/generate_204" and req["hdr"] != "absent"
        key = [req[k] for k in ("listener", "method", "path", "hdr", "len", "fill", "bad", "pos")]
        if report:
            ctx.count(case_key=key, nontrivial=reaches)
            if c["exp"]["echo"] and req["bad"] == "space" and req["len"] == 64:
                ctx.sample({"case": req, "expected": c["exp"], "challenge_on_wire": ch.decode("latin-1"),
                            "observed_status": o["status"],
                            "observed_header": [bytes.fromhex(v).decode("latin-1") for v in o["response_headers"]]}, limit=2)
            elif not c["exp"]["echo"] and req["len"] == 64 and req["bad"] == "none" and req["hdr"] == "once":
                ctx.sample({"case": req, "expected": c["exp"], "observed_status": o["status"],
                            "observed_header": o["response_headers"]}, limit=4)
        m = mismatch(c, o, ch)
        if m:
            bad += 1
            if report:
                kind, want, got = m
                ctx.report({"kind": kind, "listener": req["listener"], "hdr": req["hdr"], "len": req["len"], "bad": req["bad"],
                            "pos": req["pos"], "method": req["method"], "path": req["path"]},
                           "captive-portal probe deviates from the spec for %s: expected %s, got %s" % (req, want, got),
                           {"case": c, "request": r.hex(), "challenge": ch.hex()})
    return bad


def selftest(ctx, cases, obs, reqs, chals):
    """Binding self-test: flipping TLC's expectation of a case, or corrupting the observed header, must be noticed."""
    import copy
    idx = [i for i, c in enumerate(cases) if c["exp"]["echo"]][:3] + [i for i, c in enumerate(cases) if not c["exp"]["echo"]
                                                                      and c["exp"]["status"] == 204][:3]
    if len(idx) < 6:
        raise ToolError("self-test: table has no echo / no-echo cases")
    for i in idx:
        c = copy.deepcopy(cases[i])
        c["exp"]["echo"] = not c["exp"]["echo"]
        if c["exp"]["echo"]:
            c["exp"]["from"], c["exp"]["to"] = 1, c["req"]["len"]
        if judge(ctx, [c], [obs[i]], [reqs[i]], [chals[i]], report=False) != 1:
            raise ToolError("binding self-test failed: flipped expectation of case %s was not noticed" % c["req"])
    for i in idx[:3]:
        o = copy.deepcopy(obs[i])
        v = bytearray(bytes.fromhex(o["response_headers"][0]))
        v[-1] ^= 1
        o["response_headers"] = [bytes(v).hex()]
        if judge(ctx, [cases[i]], [o], [reqs[i]], [chals[i]], report=False) != 1:
            raise ToolError("binding self-test failed: corrupted echo of case %s was not noticed" % cases[i]["req"])
    ctx.log("binding self-test: 9 corrupted expectations/observations all rejected")
