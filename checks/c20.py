"""C20 — Endpoint builder accepts bind addresses independent of order (DESIGN.md §6 C20).

Spec: specs/socket/BindAddrs.tla (the design named the module SendDispatch; split so that
C19 and C20 have their own modules).  TLC (i) proves on the required design (Fixed = TRUE)
that acceptance is a function of the multiset of requests (`OrderIndependent`, checked over
every permutation of every reachable request sequence) and equals the declarative rule
(`AcceptIffValid`); (ii) refutes `OrderIndependent` for the duplicate test as written at the
pinned commit (Fixed = FALSE) — anti-vacuity; (iii) emits every maximal behaviour with the
expected result of each call.  The harness (vh_socktx c20) executes every behaviour call by
call on the real public `iroh::endpoint::Builder::{bind_addr, bind_addr_with_opts}` under
several concretisations (prefix lengths inside each class, addresses, ports, is_required,
SocketAddr vs. string argument) and the per-call accept/reject result must equal TLC's.

Genuine defect found by this check on the pinned tree (known_findings.d/C20.json,
proposed_fixes/C20.diff): `[default, non-default]` of one family is rejected with
DuplicateDefaultAddr, the reverse order is accepted.

Self-tests done while building: with proposed_fixes/C20.diff applied to /repo the quick tier
passes with 0 known-finding hits (34 708 evaluations); on top of the fix, dropping the IPv6
duplicate-default test (`if false && ...`) -> `VIOLATION property=C20`, kind accepted_invalid
(e.g. bind [fd00::1]:40000 /0 then bind_addr([fd00:0:0:1::1]:40001): two IPv6 default routes
accepted), a signature different from the known finding; undone -> exit 0 (KNOWN-FINDING only).
"""
import json

from vlib import ToolError

META = {
    "level": "model_checking",
    "engine": "socket-send",
    "technique": "TLA+ spec BindAddrs checked by TLC (order-independence over all permutations, declarative acceptance rule); "
                 "every TLC behaviour replayed on the real endpoint Builder (mode A)",
    "text": "TLC enumerates every sequence of bind requests (family x prefix-length class x default-route flag) up to the bound, "
            "proves that the required acceptance rule is independent of the order of the calls and equals 'at most one effective "
            "default route per family and no invalid prefix length', and refutes the same invariant for the duplicate test as "
            "written in the pinned code. Every generated sequence is then executed call by call on the real "
            "iroh::endpoint::Builder (bind_addr / bind_addr_with_opts, no socket is bound) and each call's accept/reject result "
            "must equal the model's.",
    "note": "Only accept/reject is compared: when a request is both a duplicate default and has an invalid prefix the statement "
            "does not say which error is returned (the error kind is recorded in the signature only). Bounded: <= 3 calls over both "
            "families plus <= 4 calls per single family (quick); <= 4 calls over both families (thorough). The pre-configured "
            "wildcard sockets of Builder::empty() are part of every run (they are not user-defined and never count as defaults).",
    "design_ref": "§6 C20",
}

ALL_PFX = '{"zero", "mid", "max", "over"}'


def run(ctx):
    if ctx.replay:
        rep = json.load(open(ctx.replay))["replay"]
        judge(ctx, [rep], execute(ctx, [rep], "replay"))
        return
    # (ii) anti-vacuity: the pinned code's rule is order dependent
    ctx.tlc("socket", "BindAddrs", cfg="BindAddrs_aswritten.cfg", mode="mc", workers=2, coverage=False,
            constants={"PrefixClasses": '{"zero", "mid"}', "MaxLen": 2}, expect_violation="OrderIndependent")
    # (i) + (iii): exhaustive check of the required design, behaviours printed
    runs = ctx.pick(
        [('{"v4", "v6"}', 3), ('{"v4"}', 4), ('{"v6"}', 4)],
        [('{"v4", "v6"}', 4)])
    variants = ctx.pick(2, 4)
    seen = set()
    cases = []
    for fams, maxlen in runs:
        res = ctx.tlc("socket", "BindAddrs", cfg="Gen_BindAddrs.cfg", mode="gen", timeout=3000,
                      constants={"Families": fams, "PrefixClasses": ALL_PFX, "MaxLen": maxlen, "Fixed": "TRUE"},
                      require_actions=["BindAddr"])
        if not res.replays:
            raise ToolError("TLC produced no behaviours for %s" % fams)
        for b in res.replays:
            key = json.dumps(b["reqs"], sort_keys=True)
            if key in seen:
                continue
            seen.add(key)
            for v in range(variants):
                cases.append({"reqs": b["reqs"], "res": b["res"], "valid": b["valid"], "variant": (ctx.seed + v) % 12})
    judge(ctx, cases, execute(ctx, cases, "all"))
    ctx.cov["rule"] = ("every maximal call sequence of the BindAddrs spec up to the length bound (exhaustive), each under %d "
                       "concretisations; a case is non-trivial when it has two or more calls of one family" % variants)
    ctx.cov["exhaustive"] = True
    ctx.assume("prefix-length classes {0, 0<p<max, max, >max} are uniform: the builder only looks at validity and (through "
               "is_default_route) at p = 0; concretisations sample 5 mid values and 3 invalid values per family")


def execute(ctx, cases, tag):
    inp = ctx.write_ndjson("c20-%s.in" % tag, [{"reqs": c["reqs"], "variant": c["variant"]} for c in cases])
    outp = ctx.path("c20-%s.out" % tag)
    ctx.run_bin("vh_socktx", ["c20", "--in", inp, "--out", outp])
    obs = ctx.read_ndjson(outp)
    if len(obs) != len(cases):
        raise ToolError("harness returned %d observations for %d cases" % (len(obs), len(cases)))
    return obs


def eff_default(r):
    return r["pfx"] == "zero" if r["def"] == "unset" else r["def"] == "true"


def judge(ctx, cases, obs):
    for c, o in zip(cases, obs):
        reqs, exp, got = c["reqs"], c["res"], o["res"]
        fams = [r["fam"] for r in reqs]
        ctx.count(case_key=[reqs, c["variant"]], nontrivial=any(fams.count(f) >= 2 for f in set(fams)))
        if len(reqs) >= 3 and not c["valid"] and len(exp) == len(reqs):
            ctx.sample({"calls": o["calls"], "expected": exp, "observed": got})
        if got and got[0].startswith("panic:"):
            ctx.report({"kind": "panic"}, "Builder panicked on %s: %s" % (reqs, got[0]), c)
            continue
        # first call whose accept/reject differs (the real builder stops at its first Err)
        for i, (e, g) in enumerate(zip(exp, got)):
            if (e == "ok") != (g == "ok"):
                r = reqs[i]
                earlier = [x for x in reqs[:i] if x["fam"] == r["fam"]]
                sig = {
                    "kind": "rejected_valid" if e == "ok" else "accepted_invalid",
                    "err": g if e == "ok" else e,
                    # input class: what the new entry is, and whether an earlier accepted entry of the family is a default
                    "new_is_default": eff_default(r),
                    "new_prefix_ok": r["pfx"] != "over",
                    "earlier_default_same_family": any(eff_default(x) for x in earlier),
                }
                ctx.report(sig, "call %d (%s) %s: the spec says %s, the builder returned %s; sequence %s"
                           % (i + 1, o["calls"][i] if i < len(o["calls"]) else r,
                              "was rejected although the set of binds is valid" if e == "ok" else "was accepted although the set is invalid",
                              e, g, o["calls"]), c)
                break
            if g.startswith("other:"):
                ctx.report({"kind": "unexpected_error", "err": g}, "call %d returned an unexpected error %s" % (i + 1, g), c)
                break
        else:
            if len(got) != len(exp):
                raise ToolError("harness executed %d calls, the behaviour has %d: %s" % (len(got), len(exp), c))
