"""Shared scenario runner for C40 / C42 (specs/router/Router.tla, MC_Router.tla; harness vh_router e2e).

TLC enumerates, for every scenario of a family, every complete behaviour of Router.tla and prints the scenario with
the outcome (connect result, negotiated protocol, close codes, handler / hook / filter call logs).  The set of outcomes
TLC prints for a scenario is the oracle: the harness runs the scenario on two real endpoints on 127.0.0.1 and each
check compares *its* projection of what was recorded with the projections of those outcomes.  Nothing here
re-implements a rule: python only groups TLC's lines by scenario and tests membership.
"""
import itertools
import json
import random

from vlib import ToolError

ENV_WAIT_MS = 20000     # bound for "the environment did not answer" (tool error, never a violation)
IGNORE_WAIT_MS = 400    # how long the dialer is watched when the model says it gets no response

ALL_ACTIONS = ["ClosedCheck", "BeforeConnect", "BeforeDone", "Precheck", "Incoming", "Filter", "RetryRoundTrip", "Handshake", "CAfter",
               "CEstablished", "Dispatch", "SAfter", "HandlerAccept", "ServerLost", "HandlerSees", "ClientSees"]


def norm_scn(s):
    s = dict(s)
    s["reg"] = sorted(s["reg"])
    return s


def skey(s):
    return json.dumps(norm_scn(s), sort_keys=True)


def short(s):
    """one-line rendering of a scenario for messages"""
    f = s["filt"]
    hk = lambda hs: "[" + ",".join("%s/%s" % (h["before"], h["after"]) for h in hs) + "]"
    return "reg={%s} offers=%s%s paths=%s/%s filter=%s dialer_hooks=%s acceptor_hooks=%s" % (
        ",".join(sorted(s["reg"])), "+".join(repr(o) for o in s["offers"]),
        (" SELF" if s["self"] else "") + (" CLOSED" if s.get("closed") else ""), s.get("cpath", "await"), s.get("spath", "router"),
        ("%s/%s" % (f["v1"], f["v2"])) if f["on"] else "none", hk(s["ch"]), hk(s["sh"]))


def tlc_outcomes(ctx, cfg, env=None, require=ALL_ACTIONS):
    """Runs the generator; returns {scenario key: (scenario, [outcome, ...])}."""
    res = ctx.tlc("router", "MC_Router", cfg=cfg, mode="gen", env=env, timeout=1800, require_actions=require,
                  coverage=require is not None)
    table = {}
    for b in res.replays:
        k = skey(b["scn"])
        table.setdefault(k, (norm_scn(b["scn"]), []))[1].append(b["out"])
    if not table:
        raise ToolError("TLC produced no scenario outcomes with %s" % cfg)
    return table


def full_product():
    """The parameter space of MC_Router!FamFull, as inputs for a seeded sample (inputs only; outcomes come from TLC)."""
    alpns = ["p", "q", "r"]
    regs = [sorted(c) for n in range(4) for c in itertools.combinations(alpns, n)]
    offers = [[a] for a in alpns + [""]] + [[a, b] for a in alpns + [""] for b in alpns if a != b]
    verdicts = ["Accept", "Retry", "Reject", "Ignore"]
    filts = [{"on": False, "v1": "Accept", "v2": "Accept"}] + [{"on": True, "v1": a, "v2": b} for a in verdicts for b in verdicts]

    def lists(mk):
        return [[]] + [[h] for h in mk(1)] + [[h1, h2] for h1 in mk(1) for h2 in mk(2)]
    chook = lambda i: [{"before": b, "after": a} for b in "AR" for a in (0, 40 + i)]
    shook = lambda i: [{"before": "A", "after": 0}, {"before": "A", "after": 50 + i}, {"before": "R", "after": 0}]
    return regs, offers, [False, True], filts, lists(chook), lists(shook)


def sample_full(seed, n):
    regs, offers, selfs, filts, chs, shs = full_product()
    rnd = random.Random(seed)
    seen, out = set(), []
    while len(out) < n:
        s = {"reg": rnd.choice(regs), "offers": rnd.choice(offers), "self": rnd.random() < 0.1, "closed": rnd.random() < 0.04,
             "filt": rnd.choice(filts),
             "ch": rnd.choice(chs), "sh": rnd.choice(shs)}
        s["cpath"] = rnd.choice(["await", "await", "zrtt"])
        s["spath"] = rnd.choice(["router", "router", "await", "zrtt"])
        if s["cpath"] == "zrtt" or s["spath"] != "router":
            s["filt"] = filts[0]          # the filter is a Router feature; a primed dialer may arrive validated
        k = skey(s)
        if k not in seen:
            seen.add(k)
            out.append(s)
    return out


def run_e2e(ctx, table, tag, par=4):
    """Executes every scenario of `table` on real endpoints; returns {scenario key: observation}."""
    keys = sorted(table)
    scen = []
    for i, k in enumerate(keys):
        s, outs = table[k]
        silent = all(o["result"] == "NoResponse" for o in outs)
        scen.append(dict(s, id=i, wait_ms=IGNORE_WAIT_MS if silent else ENV_WAIT_MS))
    inp = ctx.write_ndjson("%s.in" % tag, scen)
    outp = ctx.path("%s.out" % tag)
    ctx.run_bin("vh_router", ["e2e", "--in", inp, "--out", outp, "--par", par], timeout=3000)
    obs = ctx.read_ndjson(outp)
    if len(obs) != len(scen):
        raise ToolError("harness returned %d observations for %d scenarios" % (len(obs), len(scen)))
    return {keys[o["id"]]: o for o in obs}


def normalise(obs, outs):
    """Tolerances of the binding (documented in the checks' META notes):
    * a dialer that is being ignored retransmits its first packet, so the filter may be consulted again with the same
      answer: repeats of the last expected filter call are dropped;
    * an environment timeout is a tool error."""
    if obs.get("tool_error"):
        raise ToolError("e2e driver: %s" % obs["tool_error"])
    o = dict(obs)
    if obs.get("zrtt_wanted") and not obs.get("zrtt_used") and o["result"] in ("Ok", "LocallyRejectedAfter"):
        raise ToolError("the dialer could not use 0-RTT although a priming connection had been made (no session ticket)")
    exp_silent = all(x["result"] == "NoResponse" for x in outs)
    if o["result"] == "NoResponse" and not exp_silent:
        raise ToolError("environment timeout: the dialer got no answer within %d ms where the model expects one of %s"
                        % (ENV_WAIT_MS, sorted({x["result"] for x in outs})))
    if exp_silent and outs:
        exp = outs[0]["filter_log"]
        got = o["filter_log"]
        if len(got) > len(exp) and exp and got[:len(exp)] == exp and all(g == exp[-1] for g in got[len(exp):]):
            o["filter_log"] = exp
    return o


def freeze(x):
    return json.dumps(x, sort_keys=True)


def first_deviation(fields, obs, outs):
    """Names the first projected field whose observed value no TLC outcome (agreeing on the earlier fields) has."""
    cands = list(outs)
    for name, fn in fields:
        v = freeze(fn(obs))
        nxt = [c for c in cands if freeze(fn(c)) == v]
        if not nxt:
            return name, fn(obs), sorted({freeze(fn(c)) for c in cands})
        cands = nxt
    return None


def judge(fields, obs, outs):
    """None if the projection of the observation is the projection of some TLC outcome, else (field, got, allowed)."""
    proj = lambda x: freeze([fn(x) for _, fn in fields])
    if proj(obs) in {proj(c) for c in outs}:
        return None
    return first_deviation(fields, obs, outs)
