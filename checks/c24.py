"""C24 — Path selection prefers primary paths and resists flapping (DESIGN.md §6 C24, Appendix A.11).

Spec: specs/socket/PathSelect.tla.  `Select` is the documented rule of BiasedRttPathSelector::select (tier,
biased rtt, 5 ms stickiness, IPv6 credited 3 ms), `Allowed` is what the statement of C24 alone permits, `Apply`
is RemoteStateActor::select_path's glue.  TLC enumerates *every* candidate list up to the bound (kinds v4 / v6 /
relay / custom, duplicates of an address, unreadable stats) and every current selection (none, live, stale),
checks Select within Allowed plus the clause invariants (only live paths, empty keeps, primary preferred, never
stay on a live backup, sticky within a tier, no flapping when applied twice) and prints each case with both sets.

Binding (mode A): vh_remote c24 runs the real BiasedRttPathSelector::default().select() on each case through the
cfg-guarded PathSelectionContext::for_verif with synthetic PathStats (model unit -> Duration; one configuration in
milliseconds, one in nanoseconds with rtts one nanosecond around both thresholds), and feeds the selector's answer
through the real RemoteStateActor::select_path (actor without connections) to check the glue
("changes nothing when there are none").  Verdict per case:
  real output in `expect`            -> conforms
  in `allowed` but not in `expect`   -> the property holds but the documented rule was left: NONCONFORMANCE (exit 2)
  not in `allowed`                   -> VIOLATION (sig names the clause: backup_over_primary / stays_on_backup /
                                        not_a_live_path / switch_without_5ms_gain / selects_with_no_stats)
  select_path result # Apply(cur, output) -> VIOLATION (glue)

Self-tests run on 2026-09-22 (private snapshot copy of /repo, patches in seeded/remote/):
  * RTT_SWITCHING_MIN = 4 ms -> VIOLATION sig {kind: selection_outside_property, clause: switch_without_5ms_gain}
    (first hit: candidates v4a 15000001 ns, v4b 20000000 ns, current v4b -> v4a);
  * `best + MIN < current` instead of `<=` (DESIGN §12) -> no clause of the statement is broken ("only to a path at
    least 5 ms better" still holds), reported as NONCONFORMANCE, exit 2, 314 deviating cases;
  * reverted -> exit 0.
"""
import json

from vlib import ToolError

META = {
    "level": "model_checking",
    "engine": "remote-state",
    "technique": "TLA+ spec PathSelect checked by TLC (all candidate lists up to the bound); every enumerated case replayed on "
                 "the real BiasedRttPathSelector::select and RemoteStateActor::select_path (mode A)",
    "text": "TLC enumerates all lists of up to 3 candidate paths over 5 addresses of the four kinds (IPv4, IPv6, relay, "
            "custom) with rtts from a small set or unreadable stats, times every current selection, computes the documented "
            "selection rule and the set of outputs the property permits, and checks the clauses of C24 on the rule. Each case "
            "is executed on the real selector with synthetic PathStats (millisecond scale, and nanosecond scale one ns around "
            "the 5 ms and 3 ms thresholds); an output outside the permitted set is a violation.",
    "note": "Weak reading: the statement only forbids (a) picking a path that is not live / has no readable stats, (b) picking or "
            "staying on a relay path while a direct path with stats exists, (c) moving within a tier to a path less than 5 ms "
            "better (IPv6 credited 3 ms), (d) changing anything when no path has stats. It does not demand that the best path be "
            "picked when there is no current path, nor that a 5 ms better path must be taken; deviations from the documented "
            "rule inside that room are reported as NONCONFORMANCE (exit 2), not as a violation.",
    "design_ref": "§6 C24, A.11",
}

NOSTATS = 2000000000


def configs(ctx):
    ns = {"V4": '{"v4a", "v4b"}', "V6": '{"v6a"}', "Relay": '{"rla"}', "Custom": "{}",
          "Rtts": "{20000000, 15000000, 14999999, 15000001, 18000000, 17999999, 18000001}",
          "SwitchMin": 5000000, "V6Adv": 3000000, "MaxLen": ctx.pick(2, 3)}
    if ctx.quick:
        a = {"V4": '{"v4a", "v4b"}', "V6": '{"v6a"}', "Relay": '{"rla"}', "Custom": "{}",
             "Rtts": "{2, 7, 10}", "SwitchMin": 5, "V6Adv": 3, "MaxLen": 3}
        b = {"V4": '{"v4a"}', "V6": "{}", "Relay": '{"rla"}', "Custom": '{"cua"}',
             "Rtts": "{2, 7, 10}", "SwitchMin": 5, "V6Adv": 3, "MaxLen": 3}
        return [("ms", 1000000, a), ("ms-custom", 1000000, b), ("ns", 1, ns)]
    full = {"V4": '{"v4a", "v4b"}', "V6": '{"v6a"}', "Relay": '{"rla"}', "Custom": '{"cua"}',
            "Rtts": "{0, 2, 5, 7, 10}", "SwitchMin": 5, "V6Adv": 3, "MaxLen": 3}
    return [("ms", 1000000, full), ("ns", 1, ns)]


def run(ctx):
    if ctx.replay:
        rep = json.load(open(ctx.replay))["replay"]
        execute(ctx, [rep])
        return
    total = 0
    for name, unit_ns, consts in configs(ctx):
        res = ctx.tlc("socket", "PathSelect", cfg="PathSelect.cfg", mode="gen", constants=consts, timeout=2400, coverage=False)
        cases = []
        for r in res.replays:
            cases.append({"case": total + len(cases) + 1, "scale": name, "unit_ns": unit_ns, "nostats": NOSTATS,
                          "cs": r["cs"], "cur": r["cur"], "expect": sorted(r["expect"]), "allowed": sorted(r["allowed"])})
        if not cases:
            raise ToolError("PathSelect produced no cases for %s" % name)
        execute(ctx, cases)
        total += len(cases)
        if name == "ms" and not ctx.violations:
            selftest(ctx, cases)
    # growth: no flapping over time (PathSelectDyn): the rule applied repeatedly under rtt jitter
    dyn = {"Cands": ctx.pick('{"v4a", "v6a", "rla"}', '{"v4a", "v4b", "v6a", "rla"}'), "Bases": ctx.pick("{8, 10, 13}", "{8, 10, 12, 15}")}
    ctx.tlc("socket", "PathSelectDyn", cfg="PathSelectDyn.cfg", constants=dict(dyn, Jit=2), timeout=2400,
            require_actions=["Measure", "Reselect"])
    ctx.tlc("socket", "PathSelectDyn", cfg="PathSelectDyn.cfg", constants=dict(dyn, Jit=3), timeout=2400, coverage=False,
            expect_violation="NoReturn")
    ctx.cov["no_flapping_under_jitter"] = "2*Jit < SwitchMin: NoReturn and BoundedChanges hold (Jit = 2); refuted for Jit = 3"
    ctx.cov["rule"] = ("every candidate list up to MaxLen over the address set x every current selection (each case = one TLC "
                       "initial state, exhaustive within the constants); non-trivial = at least one candidate has stats")
    ctx.cov["exhaustive"] = True
    ctx.assume("PathStats other than rtt do not influence BiasedRttPathSelector (only stats.rtt is read)")
    ctx.assume("FourTuple local address is None in all synthetic candidates (equality of the current path is by remote address)")


def selftest(ctx, cases):
    """Binding self-test: with the two rtts of a case swapped on the way to the harness, the real selector must follow the
    swapped input (the model's answer for the swapped case), not the original expectation."""
    key = lambda cs, cur: json.dumps([[x["addr"], x["rtt"]] for x in cs] + [cur])
    table = {key(c["cs"], c["cur"]): c for c in cases}
    picked = []
    for c in cases:
        cs = c["cs"]
        if len(cs) == 2 and cs[0]["addr"] != cs[1]["addr"] and c["nostats"] not in (cs[0]["rtt"], cs[1]["rtt"]) and cs[0]["rtt"] != cs[1]["rtt"]:
            sw = [{"addr": cs[0]["addr"], "rtt": cs[1]["rtt"]}, {"addr": cs[1]["addr"], "rtt": cs[0]["rtt"]}]
            other = table.get(key(sw, c["cur"]))
            if other and not (set(other["expect"]) & set(c["expect"])):
                picked.append((c, sw, other))
        if len(picked) >= ctx.pick(20, 200):
            break
    if not picked:
        raise ToolError("binding self-test: no case whose answer changes when the rtts are swapped")
    inp = ctx.write_ndjson("c24-selftest.in", [{"case": i + 1, "cs": sw, "cur": c["cur"], "unit_ns": c["unit_ns"], "nostats": c["nostats"]}
                                               for i, (c, sw, other) in enumerate(picked)])
    outp = ctx.path("c24-selftest.out")
    ctx.run_bin("vh_remote", ["c24", "--in", inp, "--out", outp])
    obs = ctx.read_ndjson(outp)
    for (c, sw, other), o in zip(picked, obs):
        if o["out"] in c["expect"] or o["out"] not in other["expect"]:
            raise ToolError("binding self-test: swapped rtts %s (current %s) gave %s; original expectation %s, swapped %s"
                            % (sw, c["cur"], o["out"], c["expect"], other["expect"]))
    ctx.cov["binding_selftests"] = {"cases_with_swapped_rtts": len(picked), "rejected_against_original_expectation": len(picked)}


def execute(ctx, cases):
    inp = ctx.write_ndjson("c24.in", [{"case": c["case"], "cs": c["cs"], "cur": c["cur"], "unit_ns": c["unit_ns"],
                                       "nostats": c["nostats"]} for c in cases])
    outp = ctx.path("c24.out")
    ctx.run_bin("vh_remote", ["c24", "--in", inp, "--out", outp])
    obs = ctx.read_ndjson(outp)
    if len(obs) != len(cases):
        raise ToolError("harness returned %d observations for %d cases" % (len(obs), len(cases)))
    nonconf = []
    for c, o in zip(cases, obs):
        live = [x for x in c["cs"] if x["rtt"] != c["nostats"]]
        ctx.count(case_key=[c["scale"], [(x["addr"], x["rtt"]) for x in c["cs"]], c["cur"]], nontrivial=bool(live))
        if len(c["cs"]) >= 2 and len(live) >= 2 and c["cur"] != "none" and c["expect"] != ["keep"] and c["case"] % 97 == 0:
            ctx.sample({"cs": [[x["addr"], x["rtt"]] for x in c["cs"]], "unit": c["scale"], "cur": c["cur"],
                        "model": c["expect"], "real": o["out"]})
        if o["panic"]:
            ctx.report({"kind": "panic"}, "BiasedRttPathSelector::select panicked: %s" % o["panic"], c)
            continue
        out = o["out"]
        if out not in c["allowed"]:
            ctx.report({"kind": "selection_outside_property", "clause": clause(c, out)},
                       "candidates %s, current %s: selector returned %s; C24 permits only %s (documented rule: %s)"
                       % ([(x["addr"], x["rtt"]) for x in c["cs"]], c["cur"], out, c["allowed"], c["expect"]), c)
        elif out not in c["expect"]:
            nonconf.append((c, out))
        want = c["cur"] if out == "keep" else out
        if o["applied"] != want:
            ctx.report({"kind": "select_path_glue", "selector_output": "keep" if out == "keep" else "path"},
                       "select_path with current %s and selector output %s left %s selected (expected %s)"
                       % (c["cur"], out, o["applied"], want), c)
        if o["applied_empty"] != c["cur"]:
            ctx.report({"kind": "select_path_glue", "selector_output": "no_candidates"},
                       "select_path without any live path changed the selection from %s to %s" % (c["cur"], o["applied_empty"]), c)
    if nonconf and not ctx.violations:
        c, out = nonconf[0]
        raise ToolError("NONCONFORMANCE (no clause of C24 violated): %d cases deviate from the documented selection rule, e.g. "
                        "candidates %s current %s -> %s, rule says %s"
                        % (len(nonconf), [(x["addr"], x["rtt"]) for x in c["cs"]], c["cur"], out, c["expect"]))


def clause(c, out):
    kind = lambda a: {"v4": "primary", "v6": "primary", "cu": "primary", "rl": "backup"}[a[:2]]
    live = {x["addr"] for x in c["cs"] if x["rtt"] != c["nostats"]}
    if not live:
        return "selects_with_no_stats"
    if out == "keep" or out == c["cur"]:
        return "stays_on_backup"
    if out not in live:
        return "not_a_live_path"
    if kind(out) == "backup" and any(kind(a) == "primary" for a in live):
        return "backup_over_primary"
    return "switch_without_5ms_gain"
