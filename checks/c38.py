"""C38 — DNS answers never go back behind an acknowledged publish (DESIGN.md §6 C38, Appendix A.4).

Spec: specs/dnsserver/DnsCache.tla — ZoneStore::resolve = RCheck; RGet; RFill and ZoneStore::insert =
PUpsert; PInval; PAck for one key, with `Design` selecting the pinned code ("aswritten") or one of
two designs that satisfy the property ("lock": cache lock held across the miss path and across
upsert + invalidate; "gen": an invalidation counter lets RFill skip a fill that raced with an
invalidation).  TLC proves NoStaleAnswer for "lock" and "gen" and refutes it for "aswritten".

Binding (mode C): TLC enumerates every complete interleaving (word) of the as-written step structure;
`vh_dnssrv c38` forces each word onto the real `ZoneStore` (hooked in-memory constructor) through
the cfg-guarded pause points "dnssrv.resolve.miss/got:<name>" and "dnssrv.insert.upserted/
invalidated:<packet tag>" in store.rs, adds a follow-up lookup after everything returned, and logs
the client-visible events.  The verdict comes from TLC: Trace_DnsCache.tla replays the logged
events of all words and evaluates DnsCache!NoStaleAnswer after every answer.  In addition the
answers / flags observed for every word must equal the predictions of the as-written model or of
the "gen" design for all words (the model is a model of this code); a step that cannot reach its next
pause point because somebody holds the lock is recorded as blocked (what a "lock" fix does).

Genuine defect found by this check on the pinned tree (known_findings.d/C38.json, C38_stale_cache_fill):
RCheck(r1) miss; RGet(r1)=old; PUpsert(new); PInval; [PAck]; RFill(r1) caches old -> every later lookup
(r2 / follow-up), started after the acknowledgement, answers old.  proposed_fixes/C38.diff = the "gen" design.

Mutation self-tests (done while building, undone afterwards):
 * /var/tmp/mut-c38.diff: `self.cache.lock().await.remove(&pubkey)` removed from ZoneStore::insert
   -> VIOLATION (schedule class "no_racing_fill": a warm cache keeps answering the old version after the ack).
 * with proposed_fixes/C38.diff applied: exit 0 without KNOWN-FINDING; removing the generation test from the
   fixed RFill again -> KNOWN-FINDING pattern returns (it is the same defect).
"""
import json

from vlib import ToolError

META = {
    "level": "model_checking",
    "engine": "dns-server",
    "technique": "TLA+ spec DnsCache checked by TLC; every TLC interleaving forced onto the real ZoneStore through pause points (mode C); "
                 "client-visible events judged by a TLC trace monitor",
    "text": "TLC checks on the DnsCache model (lookup = cache check / store get / cache fill, publish = upsert / invalidate / ack) "
            "that no lookup started after an acknowledged update answers with an older packet, for the two repaired designs, and "
            "refutes it for the step structure of the pinned code; every complete interleaving of that step structure is then forced "
            "onto the real ZoneStore::resolve / ZoneStore::insert with pause points, and TLC evaluates the same invariant on the "
            "logged starts, answers and acknowledgements of every execution.",
    "note": "One key, and one scenario with a publish for a second key; <= 2 concurrent lookups + 1 follow-up lookup, <= 2 concurrent publishes, distinct and equal timestamps, cold and warm "
            "cache (quick: 2 lookups x 1 publish exhaustively, 1 lookup x 2 publishes exhaustively; thorough adds sampled 2 x 2 and 3 x 1).  "
            "'Acknowledged' = ZoneStore::insert returned Ok(true) (the HTTP 204 comes later).  The store actor is trusted to be "
            "linearizable (Get / Upsert are handled one at a time).",
    "design_ref": "§6 C38, Appendix A.4",
}

R2 = '{"r1", "r2"}'
R1 = '{"r1"}'
R3 = '{"r1", "r2", "r3"}'
P1 = '{"p1"}'
P2 = '{"p1", "p2"}'
# (scenario, resolvers, publishers, warm cache, mode)
# scenario "ab": lookups for key a, publisher p1 for key a, publisher p2 for ANOTHER key b
QUICK = [("p1", R2, P1, "FALSE", "gen"), ("p1", R2, P1, "TRUE", "gen"), ("p1eq", R2, P1, "FALSE", "gen"),
         ("p2", R1, P2, "FALSE", "gen"), ("p2eq", R1, P2, "TRUE", "gen"), ("ab", R1, P2, "FALSE", "gen")]
THOROUGH = QUICK + [("p2old", R1, P2, "FALSE", "gen"), ("p2", R2, P2, "FALSE", "sim"), ("p2eq", R2, P2, "FALSE", "sim"),
                    ("p2old", R2, P2, "TRUE", "sim"), ("p1", R3, P1, "FALSE", "sim"), ("p1eq", R3, P1, "TRUE", "sim"),
                    ("ab", R2, P2, "FALSE", "sim"), ("ab", R1, P2, "TRUE", "gen")]
ACTIONS = ["RCheck", "RGet", "RFill", "PUpsert", "PInval", "PAck"]


def consts(design, sc, rs, ps, warm):
    return {"Design": '"%s"' % design, "Scenario": '"%s"' % sc, "Resolvers": rs, "Publishers": ps, "WarmCache": warm,
            "Keys": '{"a", "b"}' if sc == "ab" else '{"a"}'}


def wkey(case):
    return tuple((s["p"], s["a"]) for s in case["word"])


def run(ctx):
    if ctx.replay:
        rep = json.load(open(ctx.replay))["replay"]
        execute(ctx, [rep], "replay")
        return
    # 1. the two repaired designs satisfy C38, the pinned step structure does not
    mc = (("p2eq", R2, P2, "FALSE"), ("p1eq", R2, P1, "TRUE"), ("ab", R2, P2, "FALSE")) + ctx.pick((), (
        ("p2eq", R2, P2, "TRUE"), ("p1eq", R2, P1, "FALSE"), ("p2", R2, P2, "FALSE"), ("p2old", R2, P2, "FALSE"), ("p1", R3, P1, "FALSE")))
    for design in ("lock", "gen"):
        for sc, rs, ps, warm in mc:
            ctx.tlc("dnsserver", "MC_DnsCache", cfg="DnsCache_mc.cfg", mode="mc", constants=consts(design, sc, rs, ps, warm),
                    require_actions=ACTIONS if warm == "FALSE" else ["RCheck", "PUpsert", "PInval", "PAck"], workers=2)
    ctx.tlc("dnsserver", "MC_DnsCache", cfg="DnsCache_refute.cfg", mode="mc", constants=consts("aswritten", "p1", R2, P1, "FALSE"),
            expect_violation="NoStaleAnswer", workers=2)
    # "remember only the key of the last invalidation" is refuted as soon as publishes for two keys interleave
    ctx.tlc("dnsserver", "MC_DnsCache", cfg="DnsCache_refute.cfg", mode="mc", constants=consts("genlast", "ab", R2, P2, "FALSE"),
            expect_violation="NoStaleAnswer", workers=2)
    # 2. words of the as-written step structure, forced onto the real code
    scenarios = ctx.pick(QUICK, THOROUGH)

    def words_of(design):
        cases = []
        for n, (sc, rs, ps, warm, mode) in enumerate(scenarios):
            kw = dict(sim=4000, depth=14) if mode == "sim" else {}
            res = ctx.tlc("dnsserver", "MC_DnsCache", cfg="DnsCache_gen.cfg", mode=mode, constants=consts(design, sc, rs, ps, warm),
                          timeout=1800, **kw)
            words = {}
            for c in res.replays:
                words.setdefault(wkey(c), c)
            if not words:
                raise ToolError("no word generated for %s" % sc)
            cases += list(words.values())
        return cases

    # the repair in /repo is the 'gen' design: its words first; if the code does not follow it, the as-written words
    st = execute(ctx, words_of("gen"), "gen")
    if st["diverged"] or st["matched"] != st["judged"]:
        ctx.log("observations differ from the 'gen' design (%s); trying the as-written model" % st)
        st2 = execute(ctx, words_of("aswritten"), "aswritten")
        if (st2["diverged"] or st2["matched"] != st2["judged"]) and not (st["blocked"] or st2["blocked"]) and not ctx.violations:
            raise ToolError("spec drift / binding broken: the real calls follow neither the 'gen' design (%s) nor the as-written model (%s)"
                            % (st, st2))
    ctx.cov["rule"] = ("every complete interleaving of the as-written step structure for the listed scenarios (exhaustive in the quick "
                       "tier; thorough adds seeded samples of the larger ones); non-trivial = some publish step lies between the first "
                       "and last step of a lookup")
    ctx.cov["exhaustive"] = ctx.quick
    ctx.assume("pause points sit exactly between the critical sections named in DnsCache.tla (checked: every word runs without divergence)")


def classify(case, stale_answer, verof, key="a"):
    """Schedule class of a stale answer (for the known-finding signature)."""
    pos = {(s["p"], s["a"]): i for i, s in enumerate(case["word"])}
    pkey = case.get("pkey", {})
    for (f, a), i_get in pos.items():
        if a != "RGet" or (f, "RFill") not in pos:
            continue
        for p, v in verof.items():
            if pkey.get(p, "a") == key and v > stale_answer and (p, "PUpsert") in pos and (p, "PInval") in pos:
                if i_get < pos[(p, "PUpsert")] and pos[(p, "PInval")] < pos[(f, "RFill")]:
                    return "get_before_upsert_fill_after_invalidate"
    return "no_racing_fill"


def agrees(o, pred):
    return all(o["answers"].get(r) == a for r, a in pred["rans"].items()) and \
        all(o["flags"].get(p) == f for p, f in pred["pres"].items())


def execute(ctx, cases, tag):
    inp = ctx.write_ndjson("c38-%s.in" % tag, cases)
    outp = ctx.path("c38-%s.out" % tag)
    ctx.run_bin("vh_dnssrv", ["c38", "--in", inp, "--out", outp], timeout=3000)
    obs = ctx.read_ndjson(outp)
    if len(obs) != len(cases):
        raise ToolError("harness returned %d observations for %d cases" % (len(obs), len(cases)))
    # property monitor over the client-visible events of all words
    events = []
    for i, o in enumerate(obs):
        if o["error"] or o["hang"]:
            raise ToolError("c38 driver: case %d: error=%r hang=%r" % (i, o["error"], o["hang"]))
        events.append({"ev": "reset", "case": i + 1})
        events += o["events"]
    tr = ctx.write_ndjson("c38-%s.trace" % tag, events)
    res = ctx.tlc_trace("dnsserver", "Trace_DnsCache", tr, cfg="Trace_DnsCache.cfg", timeout=1800)
    if res.violated or res.trace_rejected_at is not None:
        raise ToolError("monitor could not replay the event log (%s / event %s)" % (res.violated, res.trace_rejected_at))
    verdicts = {}
    for v in res.replays:
        verdicts.setdefault(v["case"] - 1, []).append(v)
    n_answers = sum(len(o["answers"]) for o in obs)
    if sum(len(v) for v in verdicts.values()) != n_answers:
        raise ToolError("monitor judged %d answers, driver logged %d" % (sum(len(v) for v in verdicts.values()), n_answers))
    blocked = sum(1 for o in obs if o["blocked"])
    diverged = [i for i, o in enumerate(obs) if o["diverged"]]
    matched = 0
    judged = 0
    for i, (c, o) in enumerate(zip(cases, obs)):
        word = [(s["p"], s["a"]) for s in c["word"]]
        first = {}
        last = {}
        for j, (p, a) in enumerate(word):
            first.setdefault(p, j)
            last[p] = j
        nontrivial = any(a.startswith("P") and any(first[r] < j < last[r] for r in first if r.startswith("r"))
                         for j, (p, a) in enumerate(word))
        ctx.count(case_key=[c["warm"], c["tsof"], word], nontrivial=nontrivial)
        stale = [v for v in verdicts.get(i, []) if v["stale"]]
        if stale and len(ctx.cov["samples"]) < 3 or (i == 0 and not ctx.cov["samples"]):
            ctx.sample({"word": ["%s.%s" % w for w in word], "warm": c["warm"], "tsof": c["tsof"], "answers": o["answers"],
                        "flags": o["flags"], "stale": [[v["r"], v["ans"], v["demanded"]] for v in stale]})
        for v in stale:
            rk = c.get("rkey", {}).get(v["r"]) or (v["r"][2:] if v["r"].startswith("rf") else "a")
            sched = classify(c, v["ans"], c["verof"], rk)
            if sched != "no_racing_fill" and len(set(c.get("pkey", {}).values())) > 1:
                sched += "_other_key_published_between"
            ctx.report({"kind": "stale_answer", "schedule": sched, "served_from": "cache" if v["ans"] != 0 else "nothing"},
                       "lookup %s started after version %d was acknowledged but answered version %d; word %s (warm=%s, tsof=%s)"
                       % (v["r"], v["demanded"], v["ans"], " ".join("%s.%s" % w for w in word), c["warm"], c["tsof"]), c)
        if not o["blocked"] and not o["diverged"]:
            judged += 1
            if agrees(o, c):
                matched += 1
    st = {"words": len(cases), "judged": judged, "matched": matched, "blocked": blocked, "diverged": len(diverged)}
    if not ctx.quick and tag == "gen":
        selftest(ctx, obs, verdicts)
    ctx.log("c38 %s: %s" % (tag, st))
    ctx.cov.setdefault("conformance", {})[tag] = st
    return st


def selftest(ctx, obs, verdicts):
    """Binding self-test of the monitor: (a) lower one answer of an accepted execution below what was acknowledged
    before its start -> must be judged stale; (b) drop a `reset` -> the log must no longer be accepted as a whole
    (answers are then judged against the previous execution's acknowledgements or rejected)."""
    import copy
    picked = []
    for i, o in enumerate(obs):
        if any(v["stale"] for v in verdicts.get(i, [])):
            continue
        good = [v for v in verdicts.get(i, []) if v["demanded"] >= 2]
        if good:
            picked.append((o, good[0]["r"]))
        if len(picked) == 25:
            break
    if not picked:
        raise ToolError("binding self-test: no execution with an answer demanded >= 2")
    events = []
    for n, (o, r) in enumerate(picked):
        events.append({"ev": "reset", "case": n + 1})
        for e in copy.deepcopy(o["events"]):
            if e["ev"] == "rdone" and e["r"] == r:
                e["ans"] = 1
            events.append(e)
    tr = ctx.write_ndjson("c38-selftest.trace", events)
    res = ctx.tlc_trace("dnsserver", "Trace_DnsCache", tr, cfg="Trace_DnsCache.cfg")
    flagged = {v["case"] for v in res.replays if v["stale"]}
    ctx.cov["binding_selftests"] = {"corrupted_answers": len(picked), "judged_stale": len(flagged)}
    if len(flagged) != len(picked):
        raise ToolError("binding self-test: monitor flagged %d of %d corrupted answers" % (len(flagged), len(picked)))
    # (b) an event of an unknown kind cannot be explained: rejected at that event
    bad = events[:5] + [{"ev": "rdone", "r": "nobody", "ans": 1}] + events[5:]
    tr = ctx.write_ndjson("c38-selftest2.trace", bad)
    res = ctx.tlc_trace("dnsserver", "Trace_DnsCache", tr, cfg="Trace_DnsCache.cfg")
    ctx.cov["binding_selftests"]["foreign_event_rejected_at"] = res.trace_rejected_at
    if res.trace_rejected_at != 6:
        raise ToolError("binding self-test: a foreign event was not rejected where it stands (%s)" % res.trace_rejected_at)
