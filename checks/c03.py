"""C03 — Relay handshake admits an identity only with proof of its secret key (DESIGN.md §6 C03).

Spec: specs/relay/RelayHandshake.tla (symbolic Dolev-Yao model of handshake.rs: server process
statement by statement, honest client process, adversary with a library of recorded terms).

1. TLC checks the design exhaustively over every session of the bounded universe and, in the same
   run, prints one REPLAY line per terminal state (session + what the server must do).
2. Anti-vacuity: three deliberately weakened servers (Weak = km_nosig / chal_any / km_noctx) must be
   refuted (NoImpersonation resp. HonestOutcome).
3. Mode A binding: vh_relayauth c03 concretises every session (real Ed25519 keys, real signatures,
   signatures of the victim *recorded* from real earlier sessions, reactive adversary that signs the
   challenge the real server just sent, keyed-hash keying material) and runs the real
   `handshake::serverside` + `authorize_if` / `authorize_with` over an in-memory stream; honest rows
   use the crate's own `clientside` and `KeyMaterialClientAuth::new` (hook).  Every authenticated
   session is run through both authorize APIs.

What is a VIOLATION: authenticated although the model says rejected (or as another key / by another
mechanism), an honest client rejected, admitted although denied / not authenticated, a denial by the
policy that the client does not see, a confirmation frame without admission, access-control calls
that contradict the decision.  A different *error class* for a rejected session, or a different
number of frames the adversary could send, is spec drift (exit 2), not a violation.

Mutation self-test (2026-09-22): `KeyMaterialClientAuth::verify` returning Ok right after the suffix
check (signature not verified) -> VIOLATION kind=impersonation for the sessions
`hdr = [pk k1, sfx (mServer,k1), any sig]` (and wrong_identity rows for k2); undone -> exit 0.  The
binding self-test in every run flips six expectations and requires the judge to reject them.
"""
import json
import os

from vlib import ToolError

META = {
    "level": "model_checking",
    "engine": "relay-server",
    "technique": "TLA+ spec RelayHandshake (symbolic crypto) checked by TLC; every TLC session concretised with real "
                 "Ed25519 material and replayed on handshake::serverside / authorize_if / authorize_with (mode A)",
    "text": "TLC enumerates every handshake session of the bounded universe - honest client with all keying-material "
            "agreements, and an adversary owning another key with a library of signatures recorded from the victim's "
            "earlier sessions, all header encodings, all first frames (valid, replayed, for other keys, wrong tag, unknown "
            "tag, undecodable, empty, trailing bytes), follow-up frames, allow/deny decisions - and checks that the server "
            "authenticates K only on a signature by K over this session's challenge or key material bound to K, that the "
            "honest client always gets in by the right mechanism, and that a denial is reported and never admits.  Each "
            "session is then executed against the real serverside()/authorize_*() and must end as the model says.",
    "note": "Bounded: 2 keys, 2 exporter secrets + none, scripts of <= 2 (quick) / 3 (thorough) frames.  Unforgeability of "
            "Ed25519 and freshness of the server's random challenge are assumed (challenge uniqueness is checked over the "
            "run).  Recorded victim signatures never refer to this session's challenge or exporter secret (stated in the "
            "spec).  Error classes of rejected sessions are compared as spec drift only.",
    "design_ref": "§6 C03, Appendix A.15",
}

BASE = {"MaxFrames": 2, "RichExtra": "FALSE", "Weak": '"none"'}


def expand(cases):
    """Adds the authorize API dimension: authenticated sessions run through both."""
    out = []
    for c in cases:
        if c["exp"]["authed"]["ok"]:
            for api in ("if", "with"):
                d = dict(c)
                d["api"] = api
                out.append(d)
        else:
            d = dict(c)
            d["api"] = "with"
            out.append(d)
    return out


def case_key(c):
    return [c["mode"], c["mClient"], c["mServer"], c["hdr"], c["script"], c["policy"], c["api"]]


def short(c):
    h = c["hdr"]

    def sg(s):
        if s["by"] == "nobody":
            return "junk"
        o = s["over"]
        return "Sig(%s,%s)" % (s["by"], "chal%d" % o["c"] if o["t"] == "chal" else "km(%s,%s)" % (o["m"], o["ctx"]))
    hd = h["enc"] if h["enc"] != "ok" else "KM(pk=%s,%s,sfx=(%s,%s))" % (h["pk"], sg(h["sig"]), h["sfx"]["m"], h["sfx"]["ctx"])
    sc = [f["kind"] if f["kind"] not in ("auth", "auth_trailing") else "%s(%s,%s)" % (f["kind"], f["pk"], sg(f["sig"]))
          for f in c["script"]]
    return {"mode": c["mode"], "mClient": c["mClient"], "mServer": c["mServer"], "hdr": hd, "script": sc,
            "policy": c["policy"], "api": c["api"]}


def judge(ctx, c, o, drift):
    """Compares one observation with the model's expectation.  Returns number of violations reported."""
    e = c["exp"]
    sig = None
    what = None
    sent = [(f["kind"], f["reason"]) for f in o["sent"]]
    exp_sent = [(f["kind"], f["reason"]) for f in e["sent"]]
    confirms = [k for k, _ in sent if k == "confirm"]
    if o.get("panic"):
        sig, what = {"kind": "panic"}, "panic in the handshake: %s" % o["panic"]
    elif o["hung"]:
        sig, what = {"kind": "hang"}, "handshake did not terminate"
    elif o["authenticated"] and not e["authed"]["ok"]:
        kind = "impersonation" if (c["mode"] == "adversary" and o["pk"] != "k2") else "authenticated_without_proof"
        sig, what = {"kind": kind, "as": o["pk"], "mech": o["mech"]}, \
            "server authenticated %s via %s although no valid proof was presented" % (o["pk"], o["mech"])
    elif e["authed"]["ok"] and not o["authenticated"]:
        sig, what = {"kind": "rejected_valid_proof", "serr": o["serr"]}, \
            "server rejected a client that presented a valid proof (%s)" % o["serr"]
    elif o["authenticated"] and (o["pk"] != e["authed"]["pk"] or o["mech"] != e["authed"]["mech"]):
        sig, what = {"kind": "wrong_identity_or_mechanism", "as": o["pk"], "mech": o["mech"]}, \
            "authenticated as %s/%s, model says %s/%s" % (o["pk"], o["mech"], e["authed"]["pk"], e["authed"]["mech"])
    elif o["admitted"] != e["admitted"]:
        sig, what = {"kind": "admission", "admitted": o["admitted"]}, \
            "authorize_%s returned %s, model says admitted=%s" % (c["api"], "Ok" if o["admitted"] else "Err", e["admitted"])
    elif (len(confirms) == 1) != e["admitted"] or len(confirms) > 1:
        sig, what = {"kind": "confirm_frame", "confirms": len(confirms)}, \
            "client saw %d ServerConfirmsAuth frames, admitted=%s" % (len(confirms), e["admitted"])
    elif e["serr"] == "denied_authz" and (not sent or sent[-1] != exp_sent[-1]):
        sig, what = {"kind": "denial_not_reported"}, "policy denied but the client saw %s, expected %s" % (sent[-1:], exp_sent[-1])
    elif not o["ids_ok"]:
        sig, what = {"kind": "guard_identity"}, "returned key / guard does not carry the authenticated key and connection id"
    elif c["mode"] == "honest" and (o["cli"] != e["cli"] or o["cres"] != e["cres"]):
        sig, what = {"kind": "honest_client_outcome", "cli": o["cli"]}, \
            "honest client ended %s(%s), model says %s(%s)" % (o["cli"], o["cres"], e["cli"], e["cres"])
    elif c["api"] == "with":
        exp_ac = []
        if e["authed"]["ok"]:
            exp_ac.append("connect:%s" % e["authed"]["pk"])
            if e["admitted"]:
                exp_ac.append("disconnect:%s" % e["authed"]["pk"])
        if o["ac"] != exp_ac:
            sig, what = {"kind": "access_control_calls"}, "access control saw %s, expected %s" % (o["ac"], exp_ac)
    if sig:
        sig["mode"] = c["mode"]
        ctx.report(sig, what + " in session " + json.dumps(short(c)), c)
        return 1
    # not property-relevant: error class / exact frame sequence / adversary progress
    if o["serr"] != e["serr"] or sent != exp_sent or (c["mode"] == "adversary" and o["nsent"] != e["nsent"]):
        drift.append((short(c), {"serr": o["serr"], "sent": sent, "nsent": o["nsent"]},
                      {"serr": e["serr"], "sent": exp_sent, "nsent": e["nsent"]}))
    return 0


def execute(ctx, cases, name, seed=None):
    inp = ctx.write_ndjson(name + ".in", cases)
    outp = ctx.path(name + ".out")
    ctx.run_bin("vh_relayauth", ["c03", "--in", inp, "--out", outp], timeout=1800,
                env=None if seed is None else {"VERIF_SEED": seed})
    obs = ctx.read_ndjson(outp)
    if len(obs) != len(cases):
        raise ToolError("harness returned %d observations for %d cases" % (len(obs), len(cases)))
    return obs


def run(ctx):
    if ctx.replay:
        rep = json.load(open(ctx.replay))["replay"]
        drift = []
        obs = execute(ctx, [rep], "c03-replay")
        judge(ctx, rep, obs[0], drift)
        return

    # 1. design model + generation
    consts = dict(BASE)
    consts["MaxFrames"] = int(os.environ.get("C03_MAXFRAMES") or ctx.pick(2, 3))     # env knob: development only
    acts = ["SrvHeader", "SrvSendChallenge", "SrvReadAuth", "SrvSendDenySig", "SrvAuthorize", "CliRead", "AdvSend", "AdvClose"]
    res = ctx.tlc("relay", "RelayHandshake", mode="gen", constants=consts, timeout=3000, heap="8g", require_actions=acts)
    cases = expand(res.replays)
    if not cases:
        raise ToolError("TLC generated no sessions")

    # 2. anti-vacuity: weakened servers must be refuted
    small = {"MaxFrames": 1, "RichExtra": "FALSE"}
    for weak, inv in (("km_nosig", "NoImpersonation"), ("chal_any", "NoImpersonation"), ("km_noctx", "HonestOutcome")):
        k = dict(small)
        k["Weak"] = '"%s"' % weak
        ctx.tlc("relay", "RelayHandshake", cfg="RelayHandshake_weak.cfg", mode="mc", constants=k, timeout=1200,
                expect_violation=inv, coverage=False)

    # 3. binding
    obs = execute(ctx, cases, "c03")
    drift = []
    chals = {}
    for c, o in zip(cases, obs):
        e = c["exp"]
        ctx.count(case_key(c), nontrivial=(c["hdr"]["enc"] == "ok" or len(c["script"]) > 0 or c["mode"] == "honest"))
        judge(ctx, c, o, drift)
        if o.get("chal"):
            chals[o["chal"]] = chals.get(o["chal"], 0) + 1
        if len(ctx.cov["samples"]) < 4 and (
                (c["mode"] == "honest" and len(ctx.cov["samples"]) == 0) or
                (c["mode"] == "adversary" and e["authed"]["ok"] and len(ctx.cov["samples"]) == 1) or
                (c["mode"] == "adversary" and e["serr"] == "denied_sig" and c["script"] and c["script"][0]["pk"] == "k1"
                 and len(ctx.cov["samples"]) == 2) or
                (c["mode"] == "adversary" and c["hdr"]["enc"] == "ok" and c["hdr"]["pk"] == "k1" and e["serr"] == "eof"
                 and len(ctx.cov["samples"]) == 3)):
            ctx.sample({"session": short(c), "model": {"authed": e["authed"], "serr": e["serr"],
                                                      "sent": [f["kind"] for f in e["sent"]], "admitted": e["admitted"]},
                        "observed": {"authenticated": o["authenticated"], "pk": o["pk"], "mech": o["mech"], "serr": o["serr"],
                                     "sent": [f["kind"] for f in o["sent"]], "admitted": o["admitted"], "ac": o["ac"]}})
    # thorough: the same sessions again with other key material (keys, exporter secrets, junk bytes)
    if not ctx.quick:
        for extra in (ctx.seed + 1, ctx.seed + 2, ctx.seed + 3, ctx.seed + 4):
            for c, o in zip(cases, execute(ctx, cases, "c03-seed%d" % extra, seed=extra)):
                ctx.count(case_key(c) + [extra], nontrivial=False)
                judge(ctx, c, o, drift)
                if o.get("chal"):
                    chals[o["chal"]] = chals.get(o["chal"], 0) + 1
        ctx.cov["seeds"] = [ctx.seed + i for i in range(5)]
    dup = [c for c, n in chals.items() if n > 1]
    if dup:
        ctx.report({"kind": "challenge_reuse"}, "the server issued the same challenge in %d sessions" % len(dup), {"challenges": dup[:5]})
    ctx.cov["challenges_seen"] = len(chals)

    # binding self-test: a flipped expectation must be caught by the judge
    if not ctx.violations:
        st = 0
        probe = [i for i, c in enumerate(cases) if c["exp"]["authed"]["ok"]][:3] + \
                [i for i, c in enumerate(cases) if not c["exp"]["authed"]["ok"]][:3]
        from vlib import Ctx
        for i in probe:
            c = json.loads(json.dumps(cases[i]))
            c["exp"]["authed"]["ok"] = not c["exp"]["authed"]["ok"]
            shadow = Ctx.__new__(Ctx)
            shadow.__dict__.update(ctx.__dict__)
            shadow.violations, shadow.findings, shadow.replay, shadow._nrep = [], [], "/dev/null", 0
            import io
            import contextlib
            with contextlib.redirect_stdout(io.StringIO()):
                st += judge(shadow, c, obs[i], [])
        if st != len(probe):
            raise ToolError("binding self-test: %d of %d flipped expectations were caught" % (st, len(probe)))
        ctx.cov["binding_selftests"] = {"flipped_expectations_caught": st}

    if drift and not ctx.violations:
        raise ToolError("NONCONFORMANCE (no property violated): %d sessions end with another error class / frame sequence "
                        "than the spec, e.g. %s" % (len(drift), json.dumps(drift[0])))
    ctx.cov["rule"] = ("every terminal state of RelayHandshake within the bounds (exhaustive): one case per session x policy "
                       "decision x authorize API; non-trivial = honest session or adversary session with a decodable "
                       "header or at least one frame")
    ctx.cov["exhaustive"] = True
    ctx.assume("Ed25519 signatures are unforgeable; the server's rand::rng() challenge is fresh (uniqueness checked over the run)")
    ctx.assume("signatures of the victim known to the adversary never cover this session's challenge or exporter secret")
    ctx.assume("the in-memory stream's keying material is a keyed hash of (secret, label, context), as in the crate's test helper")
