"""Shared machinery of the relay-registry checks C04, C05, C06 (DESIGN.md §6 "C04/C05/C06").

Specification: specs/relay/RelayServer.tla (design + properties), MC_RelayServer.tla (exhaustive
instances), Gen_RelayServer.tla (behaviour generator for the mode-A binding), Trace_RelayServer.tla
(trace validation of randomized multi-thread runs, mode B).  Harness: harness/src/bin/vh_relayreg.rs.

Mode A.  TLC enumerates every behaviour of the generator instance: driver calls (connect, client
frame, client close, Clients::disconnect by id / by key, stall / unstall / break of a client's
transport) taken one at a time with the relay's own steps run to quiescence in between, in every
order.  Each REPLAY line is one behaviour with what every client has received after every call.
Behaviours are grouped by their driver calls; the harness performs the calls on the real `Clients`
registry (current-thread runtime, quiescence between calls) and the real observation must be one
of the outcomes TLC found for these calls.  Each property judges its own projection of the
outcome (see `PROJECTIONS`); nothing here re-implements the relay's rules: the python side only
compares what TLC printed with what the harness saw.
"""
import json

from vlib import ToolError

UNDELIVERABLE_INPUT = {"empty": "empty-contents", "ebatch": "empty-contents",
                       "maxlen": "max-length", "bmax": "max-length"}


# ----------------------------------------------------------------------------- generation
def generate(ctx, cfg, constants, timeout=1500):
    """Runs the generator instance and groups the behaviours by driver calls.

    Returns a list of scenarios: {"key": tuple of calls, "steps": [...], "outcomes": [outcome, ...]}
    with outcome = {"after": [{"ret":..,"marks":{conn:{"n":..,"gone":..}}}, ...], "wire": {conn: [item,...]}}.
    Only maximal call sequences are kept (a sequence that is a proper prefix of another one is
    covered by it step by step)."""
    res = ctx.tlc("relay", "MC_Gen_RelayServer", cfg=cfg, mode="gen", constants=constants, timeout=timeout,
                  coverage=False, workers=4)
    if not res.replays:
        raise ToolError("generator %s produced no behaviour" % cfg)
    groups = {}
    for b in res.replays:
        steps = b["steps"]
        key = tuple((s["op"], s["c"], s["dst"], s["cls"]) for s in steps)
        after = []
        for i, s in enumerate(steps):
            marks = steps[i + 1]["pre"] if i + 1 < len(steps) else b["final"]
            after.append({"ret": s["ret"], "marks": marks})
        out = {"after": after, "wire": {c: [proj_item(m) for m in (w or [])] for c, w in b["wire"].items()}}
        g = groups.setdefault(key, {"key": key, "steps": [{"op": s["op"], "c": s["c"], "dst": s["dst"], "cls": s["cls"],
                                                            "id": s["id"]} for s in steps], "outcomes": []})
        if out not in g["outcomes"]:
            g["outcomes"].append(out)
    prefixes = set()
    for key in groups:
        for i in range(1, len(key)):
            prefixes.add(key[:i])
    scen = [g for k, g in sorted(groups.items()) if k not in prefixes]
    for g in scen:
        # outcomes of every prefix of the call sequence (a branch of the model may end earlier: e.g. the
        # sender of an unforwardable frame may be disconnected, after which it sends nothing)
        g["prefix_outcomes"] = [groups[g["key"][:i]]["outcomes"] if g["key"][:i] in groups else []
                                for i in range(1, len(g["key"]) + 1)]
    ops = {s[0] for k in groups for s in k}
    return scen, ops, res


def proj_item(m):
    return {"t": m["t"], "src": m["src"], "id": m["id"], "cls": m["cls"]}


# ------------------------------------------------------------------------------- execution
def execute(ctx, name, scen, conns, cap, version="V2"):
    """Runs the scenarios on the real code; returns the observations in scenario order."""
    for g in scen:
        g["cap"] = cap
    items = [{"id": i, "conns": conns, "cap": cap, "version": version, "steps": g["steps"]} for i, g in enumerate(scen)]
    inp = ctx.write_ndjson(name + ".in", items)
    outp = ctx.path(name + ".out")
    ctx.run_bin("vh_relayreg", ["replay", "--in", inp, "--out", outp])
    obs = ctx.read_ndjson(outp)
    if len(obs) != len(scen):
        raise ToolError("harness returned %d observations for %d scenarios" % (len(obs), len(scen)))
    for o in obs:
        if o.get("error") and o["error"].startswith("harness:"):
            raise ToolError("harness problem in scenario %s: %s" % (o["id"], o["error"]))
    return obs


# ------------------------------------------------------------------------------ projections
def per_step(out):
    """[{conn: [items received during this step]}] from marks + complete wire."""
    res = []
    prev = {c: 0 for c in out["wire"]}
    for a in out["after"]:
        d = {}
        for c, m in a["marks"].items():
            d[c] = out["wire"].get(c, [])[prev.get(c, 0):m["n"]]
            prev[c] = m["n"]
        res.append(d)
    return res


def p_c04(out):
    """C04: the datagrams every client receives, step by step and in order: sender id, frame id,
    and the class of the frame (which stands for contents, ECN and segment size being unchanged)."""
    return [{c: [(m["src"], m["id"], m["cls"]) for m in items if m["t"] == "dg"] for c, items in st.items()}
            for st in per_step(out)]


def p_c05(out):
    """C05: is every connection still served: stream not closed by the relay, and the number of
    datagrams it received in the step; plus the answers of Clients::disconnect."""
    steps = per_step(out)
    return [{"ret": a["ret"], "conns": {c: (a["marks"][c]["gone"], len([m for m in steps[i][c] if m["t"] == "dg"]))
                                        for c in a["marks"]}}
            for i, a in enumerate(out["after"])]


def p_c06(out):
    """C06: status / peer-gone frames every client receives step by step, which connection gets the
    datagrams, when a connection's actor has ended, and the answers of Clients::disconnect."""
    steps = per_step(out)
    return [{"ret": a["ret"],
             "conns": {c: (a["marks"][c]["gone"],
                           [(m["t"], m["src"]) for m in steps[i][c] if m["t"] != "dg" and m["t"] != "pong"],
                           sorted(m["id"] for m in steps[i][c] if m["t"] == "dg"))
                       for c in a["marks"]}}
            for i, a in enumerate(out["after"])]


PROJECTIONS = {"C04": p_c04, "C05": p_c05, "C06": p_c06}


def canon(x):
    return json.dumps(x, sort_keys=True)


def conforms(proj, g, o):
    """None if the projected observation follows some TLC behaviour call by call (or leaves the calls the
    model's branch allows), else (index of the first deviating call, observed, expected)."""
    po = proj(o)
    pref = g.get("prefix_outcomes") or [[] for _ in g["steps"][:-1]] + [g["outcomes"]]
    if len(po) != len(g["steps"]) or not pref[-1]:
        raise ToolError("observation / expectation of %s incomplete" % (g["key"],))
    judged = 0
    for i in range(len(po)):
        allowed = [proj(x) for x in pref[i]]
        if not allowed:
            continue             # TLC printed no behaviour ending here (scripted prefix)
        if not any(canon(pe[:i]) == canon(po[:i]) for pe in allowed):
            if judged == 0:
                raise ToolError("no model behaviour shares the first %d calls of %s" % (i, g["key"],))
            return None          # the model's branch the implementation is in has no such call: stop judging
        judged += 1
        if any(canon(pe[:i + 1]) == canon(po[:i + 1]) for pe in allowed):
            continue
        exp = next(pe for pe in allowed if canon(pe[:i]) == canon(po[:i]))
        return i, po[i], exp[i]
    if judged == 0:
        raise ToolError("nothing was compared for %s" % (g["key"],))
    return None


def judge(ctx, prop, scen, obs, describe):
    """Compares observation and expectation for property `prop`, call by call: after call i the
    projected observation must equal that of some TLC behaviour with the same first i calls.  When the
    matching behaviours have no continuation with the next call (the model's branch ended: the
    connection that would act is gone), the rest of the sequence is not judged.
    `describe(g, step_index, got, exp)` returns (sig, what) for a mismatch."""
    proj = PROJECTIONS[prop]
    bad = 0
    for g, o in zip(scen, obs):
        ops = [s["op"] for s in g["steps"]]
        key = [list(k) for k in g["key"]]
        nontrivial = "frame" in ops or "close" in ops or "disconnect" in ops or "disconnectkey" in ops
        ctx.count(case_key=key, nontrivial=nontrivial)
        if o.get("error"):
            ctx.report({"kind": "panic", "op": ops[len(o.get("after", []))] if len(o.get("after", [])) < len(ops) else "end"},
                       "relay code panicked while replaying %s: %s" % (g["steps"], o["error"]), replay_of(g, o))
            bad += 1
            continue
        dev = conforms(proj, g, o)
        if dev is not None:
            sig, what = describe(g, dev[0], dev[1], dev[2])
            ctx.report(sig, what, replay_of(g, o))
            bad += 1
    return bad


def binding_selftest(ctx, prop, scen, obs, limit=200):
    """Shows that the comparison bites: accepted observations are corrupted in one place (a datagram's
    sender id, a status frame's kind, a dropped frame, a connection reported closed) and must then be
    rejected under this property's projection."""
    import copy
    proj = PROJECTIONS[prop]
    tried = rejected = 0
    for g, o in zip(scen, obs):
        if tried >= limit or o.get("error") or conforms(proj, g, o) is not None:
            continue
        muts = []
        for c, items in o["wire"].items():
            for j, m in enumerate(items):
                if m["t"] == "dg" and prop == "C04":
                    x = copy.deepcopy(o); x["wire"][c][j]["src"] = "B" if m["src"] != "B" else "A"; muts.append(x)
                    x = copy.deepcopy(o); x["wire"][c][j]["cls"] = "corrupt-contents"; muts.append(x)
                if m["t"] in ("same", "healthy") and prop == "C06":
                    x = copy.deepcopy(o); x["wire"][c][j]["t"] = "healthy" if m["t"] == "same" else "same"; muts.append(x)
        if prop == "C05":
            for c in o["after"][-1]["marks"]:
                if not o["after"][-1]["marks"][c]["gone"] and any(s["op"] == "connect" and s["c"] == c for s in g["steps"]):
                    x = copy.deepcopy(o); x["after"][-1]["marks"][c]["gone"] = True; muts.append(x)
        for x in muts[:3]:
            tried += 1
            if conforms(proj, g, x) is not None:
                rejected += 1
    if tried == 0 or rejected != tried:
        raise ToolError("binding self-test (%s, mode A): %d of %d corrupted observations were rejected" % (prop, rejected, tried))
    st = ctx.cov.setdefault("binding_selftests", {})
    st["modeA_corrupted_observations_rejected"] = st.get("modeA_corrupted_observations_rejected", 0) + rejected
    return rejected


def trace_selftest(ctx, prop, evs):
    """Mode B: one field of one event of an accepted log is corrupted / one event is removed; TLC must
    reject both logs."""
    import copy
    want = (lambda e: e["ev"] == "recv" and e["t"] == "dg") if prop == "C04" else \
           (lambda e: e["ev"] == "recv" and e["t"] in ("same", "healthy", "gone"))
    idx = [i for i, e in enumerate(evs) if want(e)]
    if not idx:
        raise ToolError("trace self-test: no event to corrupt")
    i = idx[len(idx) // 2]
    a = copy.deepcopy(evs)
    if prop == "C04":
        a[i]["src"] = "B" if a[i]["src"] != "B" else "A"
    else:
        a[i]["t"] = {"same": "healthy", "healthy": "same", "gone": "same"}[a[i]["t"]]
    logs = [("corrupt", a)]
    # removing a delivery is only detectable when a later delivery from the same queue of the same
    # connection follows in the same run (the queues are FIFO; the spec does not oblige the relay to
    # deliver within the log)
    same_queue = (lambda x, y: (x["t"] == "dg") == (y["t"] == "dg") and x["t"] != "pong" and y["t"] != "pong")
    for i2 in idx:
        nxt = next((j for j in range(i2 + 1, len(evs)) if evs[j]["ev"] == "reset" or
                    (evs[j]["ev"] == "recv" and evs[j]["c"] == evs[i2]["c"] and same_queue(evs[i2], evs[j]))), None)
        if nxt is not None and evs[nxt]["ev"] == "recv":
            logs.append(("removed", evs[:i2] + evs[i2 + 1:]))
            break
    n = 0
    for name, log in logs:
        pth = ctx.write_ndjson("%s-selftest-%s.ndjson" % (prop.lower(), name), log)
        before = ctx.cov["traces_validated_against_impl"]
        res = ctx.tlc_trace("relay", "Trace_RelayServer", pth, cfg="Trace_RelayServer.cfg", timeout=6000)
        ctx.cov["traces_validated_against_impl"] = before
        if res.ok:
            raise ToolError("trace self-test (%s): the %s log was accepted" % (prop, name))
        n += 1
    st = ctx.cov.setdefault("binding_selftests", {})
    st["modeB_corrupted_logs_rejected"] = st.get("modeB_corrupted_logs_rejected", 0) + n


def replay_of(g, o):
    return {"steps": g["steps"], "outcomes": g["outcomes"], "prefix_outcomes": g.get("prefix_outcomes"), "observed": o,
            "cap": g.get("cap", 2)}


def sample_of(g, o, proj):
    return {"calls": [" ".join(x for x in k if x != "none") for k in g["key"]],
            "model_outcomes": len(g["outcomes"]),
            "observed": proj(o)[-1] if o.get("after") else None}


# ------------------------------------------------------------------ mode B: trace validation
# which property an unexplained event concerns
def owner_of(e):
    if e["ev"] == "recv":
        # which connection receives a datagram is forwarding (C04) and registry (C06: "delivers traffic
        # for that id to the most recently connected connection still open") at once
        return ("C04", "C06") if e["t"] == "dg" else ("C06",)
    if e["ev"] == "ret":
        return ("C06",)
    if e["ev"] == "drop":
        return ("C05", "C06")
    return ()


INVARIANT_OWNER = {"PacketsWellAddressed": "C04", "AtMostOnce": "C04", "FifoPerSender": "C04", "WireClean": "C04",
                   "AcceptedByActiveOnly": "C04", "Isolation": "C05", "RegistryShape": "C06", "NewestWins": "C06",
                   "GoneOnlyOnEntryRemoval": "C06", "StatusToTheRightOne": "C06"}


def random_traces(ctx, prop, n, length, seed_offset=0):
    """Mode B: `n` seeded random runs of `length` driver operations each on a multi-thread runtime
    (register, client frames of the forwardable classes / ping / pong / rejected frames, client close,
    Clients::disconnect by id and by key, stall / unstall), logged at the linearization points and
    validated in one TLC run against Trace_RelayServer (hidden steps: everything the relay does on its
    own).  A property invariant false on a reconstructed state, or an event of this property's kind that
    no interleaving of the spec explains, is a violation; an unexplained event of another kind is
    reported as non-conformance (exit 2) and left to the sibling check."""
    outp = ctx.path("%s-random.ndjson" % prop.lower())
    if ctx.replay:
        rep = json.load(open(ctx.replay))["replay"]
        with open(outp, "w") as f:
            for e in rep["events"]:
                f.write(json.dumps(e) + "\n")
    else:
        ctx.run_bin("vh_relayreg", ["random", "--out", outp, "--n", n, "--len", length, "--cap", 2],
                    env={"VERIF_SEED": ctx.seed + seed_offset}, timeout=1200)
    evs = ctx.read_ndjson(outp)
    res = ctx.tlc_trace("relay", "Trace_RelayServer", outp, cfg="Trace_RelayServer.cfg", timeout=ctx.pick(1500, 6000))
    kinds = {}
    for e in evs:
        k = e["ev"] if e["ev"] != "recv" else "recv-" + e["t"]
        kinds[k] = kinds.get(k, 0) + 1
    runs = kinds.get("reset", 0)

    def run_of(idx):      # the events of the run that contains 1-based event idx, up to idx + 5
        start = max(i for i in range(idx) if evs[i]["ev"] == "reset")
        return evs[start:min(len(evs), idx + 5)]

    if res.violated:
        own = INVARIANT_OWNER.get(res.violated)
        if own == prop:
            ctx.report({"kind": "invariant", "inv": res.violated, "mode": "trace"},
                       "invariant %s is false on a state reconstructed from a real multi-thread run" % res.violated,
                       {"events": evs})
        elif ctx.violations:
            ctx.log("invariant %s (property %s) violated on a reconstructed state; violations of %s were already reported"
                    % (res.violated, own, prop))
        else:
            raise ToolError("trace validation: invariant %s (property %s) violated in %s's random runs; see check %s"
                            % (res.violated, own, prop, own))
    elif res.trace_rejected_at is not None:
        idx = res.trace_rejected_at
        e = evs[idx - 1] if 0 < idx <= len(evs) else {"ev": "eof", "t": "none"}
        own = owner_of(e)
        if prop in own:
            ctx.report({"kind": "unexplained_" + (e["ev"] if e["ev"] != "recv" else "recv_" + e["t"]), "mode": "trace"},
                       "no interleaving of the spec explains event %d of a real multi-thread run: %s" % (idx, json.dumps(e)),
                       {"events": run_of(idx), "rejected_event": e})
        elif ctx.violations:
            ctx.log("trace rejected at event %d %s (kind of %s); violations of %s were already reported" % (idx, json.dumps(e), own, prop))
        else:
            raise ToolError("NONCONFORMANCE: trace rejected at event %d %s (kind of property %s) in %s's random runs"
                            % (idx, json.dumps(e), own, prop))
    else:
        ctx.cov["traces_validated_against_impl"] += max(0, runs - 1)
        ctx.cov["evaluations"] += runs
        ctx.log("trace validation: %d runs, %d events accepted (%s)" % (runs, len(evs), json.dumps(kinds, sort_keys=True)))
    return evs, res, kinds
