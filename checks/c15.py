"""C15 — Relay dialing tries every resolved address and returns the first success (DESIGN.md §6 C15, A.7).

Spec: specs/relay/RelayDial.tla (+ MC_RelayDial.tla): the loop of `dial_happy_eyeballs` (one action per
top-of-loop step and per select arm) composed with the address stream of `resolve_host_all`, integer time
(1 unit = 25 ms), the environment (lookup completion times / results / hang, per-address connect
behaviour: quick success, quick failure, slow success, hang) chosen in Init.

1. TLC model-checks the properties for every environment, with the arms' `biased` priorities as in the code
   and with no priorities at all: no wedge, failure only when resolution finished and every attempt failed
   and every resolved address was attempted, success is real / first in completion order / returned at
   once, first attempt of the preferred family when it resolved within RESOLUTION_DELAY of the first yield,
   first attempt no later than RESOLUTION_DELAY after the first yield, alternation, pacing by
   CONNECTION_ATTEMPT_DELAY unless everything in flight failed, no duplicate attempts; termination under
   weak fairness (small config).  Anti-vacuity: without the toggle in pop_family `Alternates` is refuted.
2. TLC prints every behaviour (environment, attempt log, result, return instant) of the priority-free model;
   each environment is executed on the real `dial_happy_eyeballs` under tokio's paused clock (harness
   vh_relaynet c15: scripted `DnsResolver::custom`, injected connector through the cfg-guarded hook in
   iroh-relay/src/client/tls.rs, pre-connected loopback streams) and the observed attempt log (address,
   start instant), result (returned stream's address / error class) and return instant must be one of the
   model's behaviours for that environment (exactly one unless several things coincide in time).

Reading of "later attempts alternate families while both have untried addresses" (written down per DESIGN
§13): two consecutive attempts that were *both* started while addresses of both families were queued have
different families.  The stricter reading (only the later attempt needs both families queued) does not hold
for the code as designed — pop_family flips the wanted family also after a fallback pop, e.g. prefer v4, v6
resolves first with two addresses, v4 after the resolution delay: attempts v6, v6, v4 — and TLC refutes it
(`AlternatesStrict`, checked here as an expected refutation so that the reading stays documented).

Mutation self-test (2026-09-22, in a private copy of /repo): `*next_is_v6 = !*next_is_v6` removed from
pop_family -> VIOLATION (kind=attempts); `started = true` removed -> VIOLATION (kind=attempts); the
fail-fast `set_none()` removed -> VIOLATION (kind=attempt-times); with the patches reverted the same setup is back to
exit 0 (run against a private copy of /repo with the same harness and judge, because a rebuild takes ~10 min on the
shared machine and /repo must not stay mutated that long).
"""
import copy
import json

from vlib import ToolError

META = {
    "level": "model_checking",
    "engine": "relay-dial",
    "technique": "TLA+ spec RelayDial (dial loop x resolver stream, integer time) model-checked by TLC over all environments; "
                 "every environment's behaviours replayed on the real dial_happy_eyeballs under tokio's paused clock with a "
                 "scripted resolver and an injected connector (mode A)",
    "text": "TLC explores every environment (family preference, per-family lookup time / result / hang, per-address connect "
            "behaviour) at the bounds and checks no-wedge, fail-only-when-exhausted, all-tried-unless-success, "
            "first-success-returned, preferred-family-first, alternation, pacing and termination on the model, with and "
            "without the select's arm priorities; every behaviour is printed and each environment is executed on the real "
            "function under virtual time: attempt log with start instants, result and return instant must equal a behaviour "
            "of the model for that environment.",
    "note": "Bounds: <= 2 addresses per family (thorough also 3), lookup instants from a small set around RESOLUTION_DELAY, 3 "
            "(quick) / 6 (thorough) connect behaviours.  Alternation is read as: consecutive attempts both started while both "
            "families were queued differ in family (see module docstring; the strict reading is refuted by TLC on the model "
            "of the code).  'Within the resolution delay' is read strictly (<); at the exact boundary either order is accepted.  "
            "The TCP connect itself and tokio's timers are trusted; the per-attempt timeout wrapper is duplicated in the hook path.  "
            "The three delays are constants of the spec (cfg files / BASE): start instants of attempts are compared exactly.  "
            "Which error a failed dial carries is not compared beyond no-port / nothing-resolved / all-attempts-failed; a "
            "failure may be returned later than the model's instant, never earlier.",
    "design_ref": "§6 C15, A.7",
}

BASE = {"RD": 2, "CAD": 10, "DT": 60, "DnsT": 120}


def consts(times, maxaddrs, behsel, biased=False, toggle=True, urls=0):
    return {"Times": "{" + ", ".join(str(t) for t in times) + "}", "MaxAddrs": maxaddrs, "BehSel": behsel, "UrlSel": urls,
            "Biased": "TRUE" if biased else "FALSE", "FixedToggle": "TRUE" if toggle else "FALSE"}


def tlc(ctx, cfg, c, mode, **kw):
    return ctx.tlc("relay", "MC_RelayDial", cfg=cfg, mode=mode, constants=c, **kw)


def env_key(r):
    return json.dumps([r["pref6"], r["url"], r["v4"], r["v6"], sorted((b["f"], b["i"], b["ok"], b["d"]) for b in r["beh"])],
                      sort_keys=True)


def outcome(r):
    return {"attempts": [[a["a"][0], a["a"][1], a["t"], a["p"]] for a in r["attempts"]],
            "st": r["result"]["st"], "a": r["result"]["a"] if r["result"]["st"] == "ok" else None,
            "err": r["result"]["err"] if r["result"]["st"] == "err" else "", "done_at": r["doneAt"]}


def observed(o):
    return {"attempts": [list(a) for a in o["attempts"]], "st": o["st"], "a": list(o["a"]) if o.get("a") else None,
            "err": o["err"], "done_at": o["done_at"]}


def run(ctx):
    if ctx.replay:
        rep = json.load(open(ctx.replay))["replay"]
        envs = [rep["env"]]
        obs = execute(ctx, envs)
        judge(ctx, envs, [rep["allowed"]], obs)
        return
    req = ["GiveUp", "StartDial", "SelDial", "SelAbsorb", "SelYield", "SelStreamErr", "SelStreamEnd", "SelTimer", "Tick"]
    quick_c = consts([0, 2, 3], 2, 3, urls=1)
    # 1. the properties on the model.  The behaviours with the code's arm priorities (Biased = TRUE) are a subset of the
    #    priority-free ones, whose invariants are checked by the generation runs below; the thorough tier also runs
    #    the Biased = TRUE model on its own.  Anti-vacuity: the alternation invariant bites (no toggle -> refuted); the
    #    strict reading is refuted on the model of the code; termination under weak fairness.
    small = consts([0, 3], 2, 2)
    tlc(ctx, "RelayDial.cfg", dict(small, FixedToggle="FALSE"), "mc", expect_violation="Alternates", timeout=600)
    tlc(ctx, "RelayDial_strict.cfg", dict(quick_c, Biased="TRUE"), "mc", expect_violation="AlternatesStrict", timeout=600)
    tlc(ctx, "RelayDial_live.cfg", dict(small, Biased="TRUE"), "mc", timeout=900)
    # 2. behaviours of the priority-free model (its invariants are checked in the same run)
    runs = [quick_c]
    if not ctx.quick:
        runs = [consts([0, 1, 2, 3, 11], 2, 6, urls=1), consts([0, 3], 3, 3)]
        tlc(ctx, "RelayDial.cfg", dict(runs[0], Biased="TRUE"), "mc", require_actions=req, timeout=3000)
    total = 0
    for c in runs:
        res = tlc(ctx, "RelayDial_gen.cfg", c, "gen", require_actions=req, timeout=3000, workers=4)
        allowed = {}
        envs = {}
        for r in res.replays:
            k = env_key(r)
            envs.setdefault(k, {"pref6": r["pref6"], "url": r["url"], "v4": r["v4"], "v6": r["v6"], "beh": r["beh"], "dt": BASE["DT"],
                                "dnst": BASE["DnsT"]})
            o = outcome(r)
            if o not in allowed.setdefault(k, []):
                allowed[k].append(o)
        keys = sorted(envs)
        elist = [envs[k] for k in keys]
        alist = [allowed[k] for k in keys]
        ctx.log("%d environments, %d with more than one allowed outcome" % (len(keys), sum(1 for a in alist if len(a) > 1)))
        obs = execute(ctx, elist)
        judge(ctx, elist, alist, obs)
        if total == 0 and not ctx.violations:
            selftest(ctx, elist, alist, obs)
        total += len(elist)
    ctx.cov["rule"] = ("every environment of RelayDial at the tier's constants (exhaustive): preference x per-family lookup "
                       "(instant, ok with 0..MaxAddrs addresses | error | hang) x per-resolved-address connect behaviour; "
                       "non-trivial = at least two addresses resolved")
    ctx.cov["exhaustive"] = True
    ctx.assume("tokio paused clock: timers fire exactly at their deadline; all timers due at an instant fire before the task is polled")
    ctx.assume("the connect call and its per-attempt timeout are replaced by the hook path (same timeout wrapper)")


def execute(ctx, envs):
    inp = ctx.write_ndjson("c15.in", envs)
    outp = ctx.path("c15.out")
    try:
        ctx.run_bin("vh_relaynet", ["c15", "--in", inp, "--out", outp], timeout=2400)
    except ToolError as e:
        raise ToolError("environment problem in the harness (not a property violation): %s" % e)
    obs = ctx.read_ndjson(outp)
    if len(obs) != len(envs):
        raise ToolError("harness returned %d observations for %d environments" % (len(obs), len(envs)))
    return obs


def err_class(o):
    """The property does not say which error a failed dial reports: only 'no port', 'nothing resolved' (no attempt was
    made) and 'every attempt failed' are distinguished."""
    if o["st"] != "err":
        return ""
    return "port" if o["err"] == "port" else ("dns" if not o["attempts"] else "failed")


def explains(a, got):
    """Does the model behaviour `a` explain the observation?  Attempt log, result and returned address must be equal; a
    success must be returned at the model's instant, a failure not earlier than the model's (failing later than necessary
    is not against the property)."""
    if a["attempts"] != got["attempts"] or a["st"] != got["st"] or a["a"] != got["a"] or err_class(a) != err_class(got):
        return False
    return got["done_at"] >= a["done_at"] if got["st"] == "err" else got["done_at"] == a["done_at"]


def classify(allowed, got):
    """Which part of the observation no allowed outcome explains."""
    if got["st"] in ("panic", "wedged"):
        return got["st"]
    if not any(a["attempts"] == got["attempts"] for a in allowed):
        if any([x[:2] for x in a["attempts"]] == [x[:2] for x in got["attempts"]] for a in allowed):
            if any([x[:3] for x in a["attempts"]] == [x[:3] for x in got["attempts"]] for a in allowed):
                return "attempt-port"
            return "attempt-times"
        return "attempts"
    same = [a for a in allowed if a["attempts"] == got["attempts"]]
    if not any(a["st"] == got["st"] and a["a"] == got["a"] for a in same):
        return "result"
    if not any(a["st"] == got["st"] and a["a"] == got["a"] and err_class(a) == err_class(got) for a in same):
        return "error-class"
    return "return-time"


def judge(ctx, envs, allowed, obs, report=True):
    bad = 0
    for e, al, o in zip(envs, allowed, obs):
        got = observed(o)
        nres = e["v4"]["n"] + e["v6"]["n"]
        if report:
            ctx.count(case_key=env_key(e), nontrivial=nres >= 2)
            if nres >= 3 and len(got["attempts"]) >= 3 and e["v4"]["t"] != e["v6"]["t"]:
                ctx.sample({"env": {k: e[k] for k in ("pref6", "url", "v4", "v6", "beh")}, "model": al, "observed": got}, limit=3)
        ok = any(explains(a, got) for a in al)
        if ok and not o.get("note"):
            continue
        bad += 1
        if report:
            kind = classify(al, got) if not ok else "returned-stream"
            ctx.report({"kind": kind, "pref6": e["pref6"], "resolved": "v4:%d v6:%d" % (e["v4"]["n"], e["v6"]["n"]),
                        "observed_st": got["st"]},
                       "dial_happy_eyeballs deviates from the spec (%s) in environment %s: model allows %s, observed %s %s"
                       % (kind, {k: e[k] for k in ("pref6", "url", "v4", "v6", "beh")}, al, got, o.get("note", "")),
                       {"env": e, "allowed": al})
    return bad


def selftest(ctx, envs, allowed, obs):
    """Binding self-test: corrupt one field of an accepted observation / one expectation -> must be rejected."""
    n = tried = 0
    for e, al, o in zip(envs, allowed, obs):
        if len(o["attempts"]) >= 2 and o["st"] == "ok" and len(al) == 1:
            o2 = copy.deepcopy(o); o2["attempts"][0], o2["attempts"][1] = o2["attempts"][1], o2["attempts"][0]
            o3 = copy.deepcopy(o); o3["attempts"][1][2] += 1
            o4 = copy.deepcopy(o); o4["done_at"] += 1
            o5 = copy.deepcopy(o); o5["st"] = "err"; o5["a"] = None; o5["err"] = "io"
            a2 = copy.deepcopy(al); a2[0]["a"] = [a2[0]["a"][0], a2[0]["a"][1] + 1]
            for oo, aa in ((o2, al), (o3, al), (o4, al), (o5, al), (o, a2)):
                tried += 1
                n += judge(ctx, [e], [aa], [oo], report=False)
            break
    if tried == 0 or n != tried:
        raise ToolError("binding self-test failed: %d of %d corrupted observations/expectations rejected" % (n, tried))
    ctx.log("binding self-test: %d corrupted observations/expectations all rejected" % n)
