"""C05 — No client can get another client disconnected from the relay (DESIGN.md §6 C04/C05/C06, §7).

Spec: specs/relay/RelayServer.tla.  Model checking: the design the property requires (FixUndeliverable =
TRUE: a datagram the relay cannot forward is dropped) satisfies Isolation, ReadTouchesOnlySelf and
LeavesOnlyForOwnReasons for client frames of every class (all datagram classes the decoder accepts,
including empty contents and the decoder's maximum, ping, pong, frames the decoder rejects) to connected,
duplicate-connected and unconnected destinations; the code as written (FixUndeliverable = FALSE: the
*receiver's* actor fails in RelayedStream::start_send) is refuted by TLC (anti-vacuity).
Binding (mode A): every behaviour of the generator (isolation instance: a1 of A; b1, b2 of B; unconnected
id Z) is replayed on the real `Clients` registry with hand-encoded frames (frames an honest client refuses
to send included); compared per step and per connection: stream closed by the relay or not, number of
datagrams received, answers of `Clients::disconnect`.

Genuine defect found on the pinned tree: a datagram frame with empty contents, or with contents of 65 503
bytes (batch: 65 501), sent by A to B ends *B's* connection (known_findings.d/C05.json,
proposed_fixes/C05.diff).

Fix verification (recorded 2026-09-22): with proposed_fixes/C05.diff applied the quick check exits 0 with
no KNOWN-FINDING line; on the unchanged tree it prints the two KNOWN-FINDING lines and exits 0.
Mutation self-test (recorded 2026-09-22, on the tree with the fix applied): `Clients::send_packet` calling
`client.active.start_shutdown()` when the receiver's queue is Full ("prune slow receivers") -> `VIOLATION
property=C05` in the flood family (a stalled receiver with queue capacity 1 is found closed once it reads
again; a signature no known finding matches); undone -> exit 0.
This self-test also exposed (and the fix of) a vacuity bug of an intermediate version of the comparison
(it stopped at the scripted prefix); `conforms` now raises a tool error when nothing was compared.
(Mutations are applied to a private copy of /repo and /verif under /var/tmp, built with a trimmed copy of
the harness crate, so that the shared /repo is never left mutated while others build against it.)
"""
import json

from checks import relayreg_common as rc

META = {
    "level": "model_checking",
    "engine": "relay-server",
    "technique": "TLA+ spec RelayServer checked by TLC (required design holds, as-written variant refuted); every behaviour of "
                 "the generator instance replayed on the real Clients registry with hand-encoded client frames (mode A)",
    "text": "TLC checks on the model that no client frame of any class (every datagram class the server's decoder accepts, "
            "from empty contents to the decoder's size limit, single and batch; ping; pong; frames the decoder rejects), "
            "addressed to a connected, duplicate-connected or unconnected id, changes the life cycle of a connection other "
            "than the sender's, and that TLC refutes this for the receiver-fails variant.  The model's call sequences, with "
            "the liveness of every connection after each call, are executed on iroh-relay's Clients registry and compared.",
    "note": "A frame that cannot be forwarded may be dropped when it is read or when it is about to be written (both are "
            "allowed outcomes); a frame the decoder rejects ends the sender's own connection.  'Stops serving' is observed "
            "as: the relay drops its half of the stream, or later datagrams no longer arrive.  Bounded: <= 3 connections, "
            "<= 3 frames per sequence; frame contents sampled (seeded) per class.",
    "design_ref": "§6 C04/C05/C06, §7",
}

CONNS = {"a1": "A", "b1": "B", "b2": "B"}
ALL = '{"normal", "batch", "ecn", "maxm1", "bmaxm1", "empty", "ebatch", "maxlen", "bmax", "ping", "pong", "reject"}'


def describe(g, i, got, exp):
    st = g["steps"][i] if i < len(g["steps"]) else {"op": "end", "c": "none", "cls": "none", "dst": "none"}
    kind, victim = "liveness", "none"
    if got is not None and exp is not None:
        if got["ret"] != exp["ret"]:
            kind = "disconnect_answer"
        for c in got["conns"]:
            ge, ee = got["conns"][c], exp["conns"].get(c)
            if ee is None or ge == ee:
                continue
            if ge[0] and not ee[0] and st["op"] != "frame":
                kind = "closed_unexpectedly"      # e.g. a cancellation that only shows once the client reads again
            elif ge[0] and not ee[0]:
                kind = "sender_closed" if c == st["c"] else "receiver_closed"
                if c != st["c"]:
                    victim = "addressee" if CONNS.get(c) == st.get("dst") else "bystander"
            elif ee[0] and not ge[0]:
                kind = "not_closed"
            else:
                kind = "datagram_count"
            break
    cls = st.get("cls", "none")
    sig = {"kind": kind, "op": st["op"], "input": rc.UNDELIVERABLE_INPUT.get(cls, cls), "victim": victim}
    what = ("connection liveness deviates from the spec at call %d (%s by %s to %s, class %s) of %s: expected %s, observed %s"
            % (i, st["op"], st["c"], st.get("dst"), cls, [" ".join(x for x in k if x != "none") for k in g["key"]],
               json.dumps(exp), json.dumps(got)))
    return sig, what


def families(ctx):
    base = {"Keys": '{"A", "B", "Z"}', "FrameDsts": '{"A", "B", "Z"}', "FixUndeliverable": "TRUE", "PktCap": 2, "MsgCap": 2}
    return [
        ("each-class", dict(base, MaxFrames=1, MaxSteps=3, Classes=ALL, Ops='{"connect", "frame"}')),
        ("then-probe", dict(base, MaxFrames=ctx.pick(2, 3), MaxSteps=ctx.pick(4, 5),
                            Classes='{"normal", "empty", "maxlen", "reject"}', Ops='{"connect", "frame"}')),
        ("duplicate", dict(base, MaxFrames=2, MaxSteps=5, FrameDsts='{"B"}', Classes='{"normal", "ebatch", "bmax"}',
                           Ops='{"connect", "frame", "close"}')),
        # a receiver that does not read, queue capacity 1: flooding it only loses the flood
        ("flood", dict(base, PktCap=1, MsgCap=1, MaxFrames=ctx.pick(3, 4), MaxSteps=ctx.pick(7, 8), FrameDsts='{"B"}',
                       Classes='{"normal"}', Ops='{"connect", "frame", "stall"}')),
    ]


def run(ctx):
    if ctx.replay:
        rep = json.load(open(ctx.replay))["replay"]
        g = {"key": tuple((s["op"], s["c"], s["dst"], s["cls"]) for s in rep["steps"]), "steps": rep["steps"],
             "outcomes": rep["outcomes"], "prefix_outcomes": rep.get("prefix_outcomes")}
        obs = rc.execute(ctx, "c05-replay", [g], CONNS, rep.get("cap", 2))
        rc.judge(ctx, "C05", [g], obs, describe)
        return
    # 1. the required design holds; the as-written variant is refuted (anti-vacuity)
    # (measured: fwd instance, 1 frame, 5 classes: 37 504 states; 2 frames, {normal, empty}: 780 652 states)
    mc = {"PktCap": 1, "MsgCap": 1}
    ctx.tlc("relay", "MC_RelayServer", cfg="MC_RelayServer_fwd.cfg", timeout=ctx.pick(900, 3000),
            constants=dict(mc, MaxFrames=ctx.pick(1, 2), FixUndeliverable="TRUE",
                           Classes=ctx.pick('{"normal", "empty", "maxlen", "reject", "ping"}', '{"normal", "empty"}')),
            require_actions=["Register", "ClientFrame", "Close", "TakePacket", "Unregister"])
    if not ctx.quick:
        ctx.tlc("relay", "MC_RelayServer", cfg="MC_RelayServer_tiny.cfg", timeout=3000,
                constants=dict(mc, MaxFrames=3, FixUndeliverable="TRUE", Classes='{"normal", "ebatch", "bmax", "reject", "ping"}'),
                require_actions=["Register", "ClientFrame", "Close", "TakePacket", "Unregister"])
    ctx.tlc("relay", "MC_RelayServer", cfg="MC_RelayServer_tiny.cfg", timeout=900,
            constants=dict(mc, MaxFrames=1, FixUndeliverable="FALSE", Classes='{"normal", "empty", "maxlen", "reject", "ping"}'),
            expect_violation="Isolation")
    # 2. behaviours -> implementation
    for name, consts in families(ctx):
        scen, seen_ops, res = rc.generate(ctx, "Gen_RelayServer_iso.cfg", consts)
        classes = {s["cls"] for g in scen for s in g["steps"] if s["op"] == "frame"}
        if name == "each-class" and len(classes) != 12:
            raise rc.ToolError("vacuity: generator used only classes %s" % sorted(classes))
        obs = rc.execute(ctx, "c05-%s" % name, scen, CONNS, consts["PktCap"])
        bad = rc.judge(ctx, "C05", scen, obs, describe)
        if not ctx.quick and not bad:
            rc.binding_selftest(ctx, "C05", scen, obs)
        for g, o in zip(scen, obs):
            if any(s["op"] == "frame" and s["cls"] in rc.UNDELIVERABLE_INPUT and s["dst"] == "B" for s in g["steps"]):
                ctx.sample(rc.sample_of(g, o, rc.p_c05), limit=4)
                break
        ctx.log("replayed %d call sequences (%d TLC behaviours) of instance iso/%s" % (len(scen), len(res.replays), name))
    ctx.cov["rule"] = ("every maximal call sequence of the three generator instances (each-class: one frame of each of the 12 "
                       "classes to each of A, B, Z; then-probe: sequences of normal / empty / maximum-length / rejected frames; "
                       "duplicate: with a second connection of the receiver and closes; flood: a stalled receiver with queue "
                       "capacity 1) up to MaxSteps (exhaustive)")
    ctx.cov["exhaustive"] = True
    ctx.assume("quiescence: after each call the actors are polled until no stream half is touched for 4 scheduler rounds")
    ctx.assume("one seeded concrete frame per class and id; the class boundaries (0, 65 502, 65 503 bytes; batch 65 500, 65 501) are exact")
