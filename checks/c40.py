"""C40 — Router hands each connection only to the handler for its protocol (DESIGN.md §6 C40/C42).

Spec: specs/router/Router.tla (+ MC_Router.tla scenario families).  TLC checks the C40 invariants
(OnlyTheNegotiatedHandler, NoHandlerWithoutPass, RetryNeedsValidatedAccept, EstablishedReachesHandler,
FilterAcceptReaches) on every behaviour of every scenario and prints each scenario with each of its complete outcomes.
harness/src/bin/vh_router.rs (e2e) runs every scenario on two real endpoints on 127.0.0.1 through the public API
(`Router::builder(ep).accept(alpn, handler).incoming_filter(f).spawn()`, `Endpoint::connect_with_opts` with
`ConnectOptions::with_additional_alpns`): one recording handler per registered protocol (logs `on_accepting` /
`accept`, closes with its own code 101/102/103 once it received the dialer's stream), a recording filter.
This check judges the C40 clauses: dialer's connect result, negotiated protocol, filter consultations
(unvalidated / validated), handler log, and the close code the dialer ends with (which identifies the handler on the
wire) must be those of one TLC outcome of the scenario.

Quick: all registration sets x all offers (primary / additional / empty), every filter verdict function
{Accept,Retry,Reject,Ignore}^2 on three dial patterns, dispatch behind hooks and a retry.  Thorough: in addition TLC
model-checks the full product and a seeded sample of it is run e2e.

Mutation self-tests (2026-09-22).  Run in a private mirror (/var/tmp/rt-iso: `git archive HEAD` of /repo + a copy of
/verif whose harness path-depends on the mirror) because a build took 5-25 min on the shared, heavily loaded machine
and /repo must not stay mutated that long; diffs kept under /var/tmp, applied with `git apply`, undone with `-R`:
 * /var/tmp/c40-mut-retry.diff — run loop treats `IncomingFilterOutcome::Retry` like Accept
   -> VIOLATION clause=filter_calls (observed [false], specification [false, true]) on every Retry/* scenario;
 * /var/tmp/c40-mut-first.diff — handle_connection takes the first registered handler instead of `protocols.get(&alpn)`
   -> VIOLATION clause=handler_protocol / handler_log (handler p ran a connection negotiated for q);
 * both undone -> exit 0, no finding.
"""
import json

from vlib import ToolError
from checks import router_common as rc

META = {
    "level": "model_checking",
    "engine": "router",
    "technique": "TLA+ spec Router checked by TLC over scenario families; every TLC scenario executed end-to-end on real "
                 "endpoints (127.0.0.1, public API) and compared with the TLC outcomes (mode A)",
    "text": "TLC enumerates registered protocol sets, dial offers (registered, unregistered, several, empty), incoming "
            "filter verdict functions over {Accept, Retry, Reject, Ignore} x validated, and checks on the model that a "
            "handler is invoked exactly for the negotiated registered protocol after the filter let the connection "
            "through (after a validated retry where asked).  Each scenario is then run on a real Router with recording "
            "handlers and filter; connect result, negotiated protocol, filter consultations, handler log and the "
            "handler-specific close code must match one outcome of the model.",
    "note": "Which common protocol TLS picks is left open in the model (third-party engine).  A dialer that is ignored is "
            "watched for 400 ms only ('no response so far'); repeated identical filter consultations caused by its "
            "retransmissions are tolerated.  An environment timeout where the model expects an answer is a tool error.  "
            "The empty protocol name is only used as the primary offer.",
    "design_ref": "§6 C40/C42",
}

FIELDS = [
    ("connect_result", lambda o: o["result"]),
    ("negotiated_protocol", lambda o: o["alpn"]),
    ("filter_calls", lambda o: o["filter_log"]),
    ("handler_log", lambda o: [[e["h"], e["ev"]] for e in o["hlog"]]),
    ("handler_got_stream", lambda o: o["handler_saw"]),
    ("dialer_close_code", lambda o: o["client_saw"]),
]


def check_table(ctx, table, tag, selftest):
    obs = rc.run_e2e(ctx, table, tag)
    for k in sorted(table):
        s, outs = table[k]
        o = rc.normalise(obs[k], outs)
        reached = any(x["filter_log"] or x["hlog"] or x["result"] in ("NoAlpn", "Ok") for x in outs)
        ctx.count(case_key=k, nontrivial=reached)
        if o["hlog"] and s["filt"]["on"]:
            ctx.sample({"scenario": rc.short(s), "observed": {n: f(o) for n, f in FIELDS},
                        "tlc_outcomes": len(outs)})
        bad = None
        if o.get("handler_alpn_mismatch"):
            bad = ("handler_protocol", "handler received a connection negotiated for another protocol", [])
        bad = bad or rc.judge(FIELDS, o, outs)
        if bad:
            clause, got, allowed = bad
            ctx.report({"clause": clause, "got": str(got)[:80], "filter": "%s/%s" % (s["filt"]["v1"], s["filt"]["v2"]) if s["filt"]["on"] else "none",
                        "expected_results": ",".join(sorted({x["result"] for x in outs}))},
                       "scenario %s: %s observed %s; the specification allows %s"
                       % (rc.short(s), clause, json.dumps(got), "; ".join(allowed)[:400]),
                       {"scn": s, "observed": {n: f(o) for n, f in FIELDS}})
        elif selftest is not None and outs and selftest["total"] < 60:
            # binding self-test: corrupt one recorded field of an accepted observation -> must be rejected
            for corrupt in (lambda x: x.update(hlog=x["hlog"] + [{"h": "r" if x["alpn"] != "r" else "p", "ev": "accept"}]),
                            lambda x: x.update(client_saw=x["client_saw"] + 1),
                            lambda x: x.update(filter_log=x["filter_log"] + [False])):
                o2 = json.loads(json.dumps(o))
                corrupt(o2)
                selftest["total"] += 1
                if rc.judge(FIELDS, o2, outs):
                    selftest["rejected"] += 1


def run(ctx):
    selftest = {"total": 0, "rejected": 0}
    if ctx.replay:
        rep = json.load(open(ctx.replay))["replay"]
        p = ctx.write_ndjson("c40-replay-scn.json", [rep["scn"]])
        table = rc.tlc_outcomes(ctx, "MC_Router_Json.cfg", env={"SCN": p}, require=None)
        check_table(ctx, table, "c40-replay", None)
        return
    table = rc.tlc_outcomes(ctx, "MC_Router_C40Quick.cfg")
    check_table(ctx, table, "c40", selftest)
    if not ctx.quick:
        ctx.tlc("router", "MC_Router", cfg="MC_Router_Full.cfg", timeout=3000, heap="8g", require_actions=rc.ALL_ACTIONS)
        p = ctx.write_ndjson("c40-sample-scn.json", rc.sample_full(ctx.seed, 1500))
        table2 = rc.tlc_outcomes(ctx, "MC_Router_Json.cfg", env={"SCN": p})
        check_table(ctx, table2, "c40-sample", selftest)
    if selftest["rejected"] != selftest["total"] or selftest["total"] == 0:
        raise ToolError("binding self-test failed: %s" % selftest)
    ctx.cov["binding_selftests"] = selftest
    ctx.cov["rule"] = ("every scenario of MC_Router!FamC40Quick (8 registration sets x 13 offers; 17 filter verdict functions x "
                       "2 registration sets x 3 offers; dispatch behind hooks x retry) run e2e; thorough adds the full "
                       "product model-checked and a seeded sample of 1500 of it run e2e; a case is non-trivial when the "
                       "attempt reaches the accepting endpoint")
    ctx.cov["exhaustive"] = True
    ctx.assume("rustls/noq negotiate some protocol offered by the dialer and configured by Endpoint::set_alpns, or fail the handshake")
    ctx.assume("the first packet of an ignored dialer is not retransmitted with a different validation state within 400 ms")
