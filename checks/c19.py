"""C19 — Outgoing datagrams go out the transport their address designates (DESIGN.md §6 C19).

Spec: specs/socket/SendDispatch.tla — `IpTransports::bind` (stable sort by descending prefix
length, default index), `ip::Config::{is_valid_send_addr, is_valid_default_addr}` and
`TransportsSender::poll_send` (first valid sender in table order, else the family's default,
else silently dropped; relay / custom paths go to relay / matching custom senders), against the
statement's declarative rule `Allowed` (source match or wildcard, else default; longest prefix
containing the destination or link-local scope, else default, else drop; ties left open).

What one run does
  1. TLC checks RouteAllowed / KindRespected / TableSorted / SendNeverFails over every configuration
     of <= MaxSocks sockets of one family and every route (IPv4 and IPv6 with scopes).
  2. TLC refutes RouteAllowed for an ascending prefix sort (anti-vacuity).
  3. TLC emits every (configuration, route) of a smaller space with the set of sockets the
     statement allows and the two per-socket decisions.
  4. Mode A on the real code through the cfg-guarded `VerifSender` (a real `TransportsSender`
     over `IpTransports::bind` + recording relay / custom senders): every IPv4 configuration is
     really bound inside 127.0.0.0/8 (abstract 4-bit addresses are the high nibble of the second
     octet, so prefixes are real: /0 or /(8+p)), a UDP listener sits on every destination, and
     the source port of the datagram that arrives identifies the socket `poll_send` used; it
     must be a member of TLC's `allowed` set (or nothing may arrive when the set is empty).
     The local ports of one configuration are made pairwise distinct (the kernel may hand the same
     ephemeral port to sockets bound to different addresses; the harness binds again until they
     differ), and a verdict read off the network is reported only when the case shows it again
     in a second execution on fresh sockets with a 300 ms wait (the dispatch is deterministic).
     Relay and custom paths must reach exactly the relay sender / the first custom sender that
     accepts the address id, and no IP socket.  For IPv6 (no routable addresses in the
     sandbox) the real decision functions `is_valid_send_addr` / `is_valid_default_addr` are
     evaluated on concretised addresses (2001:db8:X000::/(32+p), fe80::%scope) and compared
     with the spec's ValidSend / ValidDefault; the same is done for IPv4.

Not bound here (said plainly): the step from a QUIC destination (synthetic address) to the
FourTuple, `Sender::poll_send` in transports.rs, needs a live `Socket`; its two ingredients are
covered separately — the classification of the destination by C18 (decision table) and the
reverse lookups by C18 (trace validation) — and the remaining glue (unknown synthetic address ->
Ok(()) without sending; Err/Pending of a transport -> Ok(())) is modelled (`SendNeverFails`) but only
exercised at the TransportsSender level: every poll_send result observed here is Ok.

Mutation self-test done while building: ascending prefix sort for IPv4 in IpTransports::bind
(`ip_v4.sort_by_key(|i| i.config.prefix_len())`) -> `VIOLATION property=C19`, kind wrong_socket,
got_prefix_shorter (e.g. binds [addr 0/0; addr 0/1], destination 0: the datagram left the /0
socket although the /1 socket contains it); undone -> exit 0.
"""
import json

from vlib import ToolError

META = {
    "level": "model_checking",
    "engine": "socket-send",
    "technique": "TLA+ spec SendDispatch checked by TLC (routing-table order, decision functions, dispatch vs. the statement's "
                 "declarative rule; ascending sort refuted); every TLC (configuration, route) replayed on a real TransportsSender "
                 "over IPv4 sockets bound inside 127.0.0.0/8 with loopback listeners (mode A)",
    "text": "TLC enumerates every set of up to three bound sockets of a family (address or wildcard, prefix length, default flag, "
            "IPv6 scope) and every destination with or without a source address, computes the socket the code's table scan "
            "selects and checks it against the statement's rule (source-bound or wildcard socket, else default route; longest "
            "prefix containing the destination or link-local scope, else default route, else dropped), leaving ties open. Each "
            "IPv4 configuration is then really bound on loopback addresses with real prefixes, each route is sent through the real "
            "TransportsSender::poll_send, and the source port seen by a listener on the destination identifies the socket used, which "
            "must be one the model allows; relay and custom paths must end in the relay sender / the matching custom sender only.",
    "note": "IPv6 is bound at the level of the two decision functions (no routable IPv6 in the sandbox). Ties between equally long "
            "prefixes (or several sockets matching a source) are accepted either way. The sending socket is identified by its source port "
            "(ports of one configuration are made pairwise distinct) and a verdict read off the network is confirmed by a second "
            "execution of the case before it is reported (the dispatch is deterministic). The mapping from synthetic QUIC addresses to "
            "paths (Sender::poll_send) needs a live Socket and is not driven here; its classification and lookup parts are C18.",
    "design_ref": "§6 C19",
}


def run(ctx):
    if ctx.replay:
        rep = json.load(open(ctx.replay))["replay"]
        judge(ctx, [rep], execute(ctx, [rep], "replay", wait_ms=300))
        return
    v4 = {"Fams": '{"v4"}', "Scopes": "{0}"}
    v6 = {"Fams": '{"v6"}', "Scopes": "{0, 3}"}
    # 1. exhaustive check against the statement
    big = ctx.pick({"Addrs": "{0, 8, 10, 11}", "PLens": "{0, 1, 3, 4}", "MaxSocks": 2},
                   {"Addrs": "{0, 4, 8, 10, 11}", "PLens": "{0, 1, 2, 3, 4}", "MaxSocks": 2})
    ctx.tlc("socket", "SendDispatch", cfg="SendDispatch.cfg", mode="mc", constants=dict(v4, **big), timeout=3000,
            require_actions=["Send", "SendRelay", "SendCustom", "Close"])
    ctx.tlc("socket", "SendDispatch", cfg="SendDispatch.cfg", mode="mc", timeout=3000,
            constants=dict(v6, Addrs="{0, 8, 10}", PLens="{0, 1, 4}", MaxSocks=2),
            require_actions=["Send", "SendRelay", "SendCustom", "Close"])
    if not ctx.quick:
        ctx.tlc("socket", "SendDispatch", cfg="SendDispatch.cfg", mode="mc", timeout=3000,
                constants=dict(v4, Addrs="{0, 8, 10}", PLens="{0, 1, 4}", MaxSocks=3), require_actions=["Send"])
    # 2. anti-vacuity
    ctx.tlc("socket", "SendDispatch", cfg="SendDispatch_ascending.cfg", mode="mc", workers=2, coverage=False,
            constants=dict(v4, Addrs="{0, 8}", PLens="{1, 4}", MaxSocks=2), expect_violation="RouteAllowed")
    # 3. cases
    gens = ctx.pick(
        [dict(v4, Addrs="{0, 8, 10}", PLens="{0, 1, 4}", MaxSocks=2),
         dict(v6, Addrs="{0, 8}", PLens="{0, 1}", MaxSocks=1)],
        [dict(v4, Addrs="{0, 8, 10, 11}", PLens="{0, 1, 3, 4}", MaxSocks=2),
         dict(v4, Addrs="{0, 10}", PLens="{0, 3}", MaxSocks=3),
         dict(v6, Addrs="{0, 8, 10}", PLens="{0, 1, 4}", MaxSocks=2)])
    groups = {}
    for g in gens:
        res = ctx.tlc("socket", "SendDispatch", cfg="Gen_SendDispatch.cfg", mode="gen", constants=g, timeout=3000,
                      require_actions=["Send", "SendRelay", "SendCustom"])
        for r in res.replays:
            key = json.dumps(r["binds"], sort_keys=True)
            grp = groups.setdefault(key, {"binds": r["binds"], "routes": [], "exp": [], "seen": set()})
            rk = json.dumps(r["route"], sort_keys=True)
            if rk in grp["seen"]:
                continue
            grp["seen"].add(rk)
            grp["routes"].append(r["route"])
            grp["exp"].append({"allowed": r["allowed"], "model": r["model"], "vs": r["vs"], "vd": r["vd"]})
    cases = []
    for i, grp in enumerate(groups.values()):
        fams = {b["fam"] for b in grp["binds"]}
        cases.append({"binds": grp["binds"], "routes": grp["routes"], "exp": grp["exp"], "variant": (i + ctx.seed) % 12,
                      "real": "v6" not in fams})
    if not cases:
        raise ToolError("TLC produced no cases")
    # Verdicts read off the loopback network (which socket, dropped or not) are confirmed before they are
    # reported: the dispatch is a pure function of (routing table, route), so a real violation shows again
    # when the case is executed a second time (fresh sockets, 300 ms instead of 30 ms for "nothing arrived");
    # a late datagram does not.  Decision-function mismatches and panics are reported at once.
    suspects = judge(ctx, cases, execute(ctx, cases, "all"), final=False)
    if suspects:
        ctx.cov["cases_executed_twice"] = len(suspects)
        again = [cases[i] for i in suspects[:40]]
        judge(ctx, again, execute(ctx, again, "confirm", wait_ms=300), final=True, immediate=False)
    ctx.cov["rule"] = ("every configuration of the SendDispatch spec within the generator bounds x every route (exhaustive); "
                       "non-trivial = at least two sockets or a route with a source address")
    ctx.cov["exhaustive"] = True
    ctx.assume("the source port of a datagram received on a loopback listener identifies the sending socket "
               "(the harness binds again until the local ports of a configuration are pairwise distinct)")
    ctx.assume("the kernel delivers a loopback datagram to a bound listener within 30 ms of sendmsg returning "
               "(300 ms when a case is executed again to confirm a verdict)")


def execute(ctx, cases, tag, wait_ms=0):
    inp = ctx.write_ndjson("c19-%s.in" % tag, [dict({k: c[k] for k in ("binds", "routes", "variant", "real")}, wait_ms=wait_ms)
                                                for c in cases])
    outp = ctx.path("c19-%s.out" % tag)
    ctx.run_bin("vh_socktx", ["c19", "--in", inp, "--out", outp], timeout=1800)
    obs = ctx.read_ndjson(outp)
    if len(obs) != len(cases):
        raise ToolError("harness returned %d observations for %d cases" % (len(obs), len(cases)))
    return obs


def desc(b):
    return "%s%s/%d%s%s" % (b["fam"], " wildcard" if b["wild"] else " addr %d" % b["addr"], b["plen"],
                            " default" if b["dflt"] else "", " scope %d" % b["scope"] if b["scope"] else "")


def judge(ctx, cases, obs, final=True, immediate=True):
    """Compares observations with TLC's expectations.  final=False: verdicts that depend on what was seen on
    the network are not reported; the indices of those cases are returned so that they are executed again.
    immediate=False (the second execution): decision-function mismatches and counts were already taken."""
    envfail = 0
    suspects = []

    def observed(ci, sig, what, c):
        if final:
            ctx.report(sig, what, c)
        elif ci not in suspects:
            suspects.append(ci)

    for ci, (c, o) in enumerate(zip(cases, obs)):
        if o.get("panic"):
            ctx.report({"kind": "panic"}, "send dispatch panicked on %s: %s" % ([desc(b) for b in c["binds"]], o["panic"]), c)
            continue
        if o["env"]:
            if not immediate:
                raise ToolError("environment: %s while a verdict was being confirmed" % o["env"])
            envfail += 1
            if envfail > max(3, len(cases) // 10):
                raise ToolError("environment: %s (and %d more cases)" % (o["env"], envfail - 1))
            continue
        if len(o["routes"]) != len(c["routes"]):
            raise ToolError("harness executed %d of %d routes" % (len(o["routes"]), len(c["routes"])))
        for r, e, g in zip(c["routes"], c["exp"], o["routes"]):
            if immediate:
                ctx.count(case_key=[c["binds"], r], nontrivial=len(c["binds"]) >= 2 or r["hasSrc"])
            what = "binds [%s], route %s" % ("; ".join(desc(b) for b in c["binds"]), json.dumps(r, sort_keys=True))
            base = {"fam": r["fam"], "has_src": r["hasSrc"], "ll": r["ll"]}
            if r["fam"] in ("v4", "v6") and immediate:
                # the two decision functions, per bound socket
                for i, b in enumerate(c["binds"]):
                    if g["vs"][i] != e["vs"][i] or g["vd"][i] != e["vd"][i]:
                        fn = "is_valid_send_addr" if g["vs"][i] != e["vs"][i] else "is_valid_default_addr"
                        ctx.report(dict(base, kind="decision", fn=fn, got=g["vs"][i] if fn == "is_valid_send_addr" else g["vd"][i]),
                                   "%s of socket %d (%s) is %s, the spec says %s; %s"
                                   % (fn, i + 1, desc(b), g["vs"][i] if fn == "is_valid_send_addr" else g["vd"][i],
                                      e["vs"][i] if fn == "is_valid_send_addr" else e["vd"][i], what), c)
                        break
            if g["kind"] == "skip":
                continue
            if g["ret"] != "ok":
                # a per-datagram error/pending is not fatal at this level; it is an observation, not a verdict
                ctx.cov["non_ok_results"] = ctx.cov.get("non_ok_results", 0) + 1
            if g["kind"] == "multi":
                observed(ci, dict(base, kind="duplicated"), "one datagram was handed to several transports: %s; %s" % (g["detail"], what), c)
                continue
            if r["fam"] in ("v4", "v6"):
                allowed = e["allowed"]
                if not allowed:
                    if g["kind"] != "drop":
                        observed(ci, dict(base, kind="sent_instead_of_drop"), "datagram left socket %s although no socket may take it; %s"
                                   % (g["idx"], what), c)
                elif g["kind"] == "drop":
                    if g["ret"] == "ok":
                        observed(ci, dict(base, kind="dropped", allowed_default=all(c["binds"][i - 1]["dflt"] for i in allowed)),
                                   "datagram was dropped although sockets %s may take it; %s" % (allowed, what), c)
                    else:
                        ctx.cov["send_errors"] = ctx.cov.get("send_errors", 0) + 1
                elif g["kind"] != "ip" or g["idx"] not in allowed:
                    got = c["binds"][g["idx"] - 1] if 1 <= g["idx"] <= len(c["binds"]) else None
                    observed(ci, dict(base, kind="wrong_socket",
                                    got_prefix_shorter=bool(got) and got["plen"] < max(c["binds"][i - 1]["plen"] for i in allowed)),
                               "datagram left socket %s (%s), the statement allows only %s; %s"
                               % (g["idx"], desc(got) if got else g["kind"], allowed, what), c)
                elif not g["right_dst"]:
                    observed(ci, dict(base, kind="wrong_destination"), "datagram arrived at another destination; %s" % what, c)
                elif (len(c["binds"]) >= 2 and len(ctx.cov["samples"]) < 4 and len(allowed) == 1
                      and len({b["plen"] for b in c["binds"]}) > 1 and r["hasSrc"] == (len(ctx.cov["samples"]) % 2 == 1)):
                    ctx.sample({"binds": [desc(b) for b in c["binds"]], "route": r, "allowed": allowed, "socket_used": g["idx"]})
            else:
                m = e["model"]
                if g["kind"] != m["kind"] or (m["kind"] != "drop" and (g["idx"] != m["idx"] or not g["right_dst"])):
                    observed(ci, dict(base, kind="wrong_transport", got=g["kind"]),
                               "%s path was handed to %s #%s (intact: %s), the spec says %s #%s"
                               % (r["fam"], g["kind"], g["idx"], g["right_dst"], m["kind"], m["idx"]), c)
    if envfail:
        ctx.assume("%d configurations could not be bound in this environment and were skipped" % envfail)
    return suspects
