"""C35 — Dual-stack host resolution yields all addresses, errs only if both fail (DESIGN.md §6 C35).

Spec: specs/dns/DualStack.tla (the `stream::unfold` state machine of
`DnsResolver::resolve_host_all` plus the `stream::once` cases), scenarios in MC_DualStack.tla.

TLC explores every scenario (host kind; per family: answer ok with 0..2 addresses / error, after
a duration before, at or beyond the timeout) with every order of simultaneous completions, checks
AllAddresses, AsEachCompletes, CombinedErrorIffBothFail, NoResponseIffNothing, Literals, EndsOnce,
ErrorIsLast on the model and prints every finished behaviour (items with their instants).  Each
scenario is executed on the real public `resolve_host_all` of a `DnsResolver::custom(scripted
resolver)` under tokio's paused clock (harness/src/bin/vh_dns.rs c35); the observed item sequence
with instants, and the resolver calls, must equal one of TLC's behaviours for that scenario.

Growth beyond the property: the same spec also models the join-based entry points that share the
lookups — `resolve_host(url, prefer_ipv6, timeout)` (api "one4"/"one6": first address of the
preferred family, else of the other, else NoResponse; ResolveBoth iff both fail) and
`lookup_ipv4_ipv6(host, timeout)` (api "join": all IPv4 then all IPv6 addresses) — with the
invariants PreferredFamily, JoinReturnsAll, JoinWaitsForBoth, bound the same way.

Mutation self-test (2026-09-22): in the unfold loop `Err(err) => state.v6_err = Some(err)` changed
to also `state.closed = true` and yield the error at once ("stream errors when one family fails")
=> VIOLATION kind=items; undone => exit 0.
"""
import json

from vlib import ToolError

META = {
    "level": "model_checking",
    "engine": "dns-resolver",
    "technique": "TLA+ spec DualStack checked by TLC; every TLC behaviour replayed on the real resolve_host_all stream (and on "
                 "resolve_host / lookup_ipv4_ipv6) under virtual time (mode A)",
    "text": "TLC enumerates all completion orders, result sizes, failures and timeouts of the two family lookups and all URL "
            "host kinds, checks on the model that the stream yields every address as its lookup completes, ends with the "
            "combined error iff both failed and with no-response iff nothing was yielded, and yields IP literals directly; "
            "each scenario is run on DnsResolver::resolve_host_all with a scripted Resolver under tokio's paused clock and "
            "the observed items, their instants and the resolver calls must equal a behaviour TLC generated.",
    "note": "Bounded: <= 2 addresses per family; durations from a fixed set around the timeout. The consumer polls eagerly. "
            "Simultaneous completions may be delivered in either order (the code's `biased` select prefers IPv4; the "
            "property does not order a tie).",
    "design_ref": "§6 C35",
}

TIMEOUT = 12
API = {"all": "resolve_host_all", "one4": "resolve_host(prefer_ipv6=false)", "one6": "resolve_host(prefer_ipv6=true)",
       "join": "lookup_ipv4_ipv6"}


def key(scn):
    return json.dumps(scn, sort_keys=True)


def run(ctx):
    durs = ctx.pick("{0, 3, 5, 13}", "{0, 1, 3, 5, 11, 12, 13, 40}")
    res = ctx.tlc("dns", "MC_DualStack", cfg="DualStack.cfg", mode="gen", constants={"Durs": durs}, timeout=1800,
                  require_actions=["Create", "Once", "OnceEnd", "UClosed", "UPop", "UFinish", "USelect4", "USelect6", "Join", "Answer"])
    allowed = {}
    for b in res.replays:
        allowed.setdefault(key(b["scn"]), {"scn": b["scn"], "outs": [], "calls": b["calls"]})["outs"].append(b["out"])
    if ctx.replay:
        rep = json.load(open(ctx.replay))["replay"]
        cases = [allowed[key(rep["scn"])]]
    else:
        cases = list(allowed.values())
    inp = ctx.write_ndjson("c35.in", [{"id": i, "scn": c["scn"], "timeout": TIMEOUT} for i, c in enumerate(cases)])
    outp = ctx.path("c35.out")
    ctx.run_bin("vh_dns", ["c35", "--in", inp, "--out", outp])
    obs = ctx.read_ndjson(outp)
    if len(obs) != len(cases):
        raise ToolError("harness returned %d observations for %d cases" % (len(obs), len(cases)))
    for c, o in zip(cases, obs):
        scn = c["scn"]
        dom = scn["host"] == "domain"
        ctx.count(case_key=scn, nontrivial=dom)
        cls = {"api": scn["api"], "host": scn["host"],
               "v4": "-" if not dom else ("timeout" if scn["e4"]["dur"] > TIMEOUT else scn["e4"]["kind"]),
               "v6": "-" if not dom else ("timeout" if scn["e6"]["dur"] > TIMEOUT else scn["e6"]["kind"])}
        if dom and len(c["outs"]) > 1:
            ctx.sample({"scenario": scn, "allowed_by_tlc": [[(i["t"], i["fam"], i["j"], i["at"]) for i in out] for out in c["outs"]],
                        "observed": [(i["t"], i["fam"], i["j"], i["at"]) for i in o["out"]]})
        if o["panic"] is not None:
            ctx.report(dict(cls, kind="panic"), "resolve_host_all panicked: %s" % o["panic"], {"scn": scn, "observed": o})
            continue
        if o["sub_ms"]:
            raise ToolError("an observed instant is not a whole millisecond: %s" % o)
        if o["out"] not in c["outs"]:
            terms = [i["t"] for i in o["out"]]
            kind = "items"
            if "pending" in terms or "runaway" in terms:
                kind = "no_end"
            ctx.report(dict(cls, kind=kind),
                       "%s yielded %s; the spec allows %s" % (API[scn["api"]], brief(o["out"]), " or ".join(brief(x) for x in c["outs"])),
                       {"scn": scn, "observed": o, "allowed": c["outs"]})
            continue
        got = sorted((x["fam"], x["at"]) for x in o["calls"])
        exp = sorted((x["fam"], x["at"]) for x in c["calls"])
        if got != exp:
            ctx.report(dict(cls, kind="calls"), "resolver calls %s, the spec has %s (both families at once for a domain, none otherwise)"
                       % (got, exp), {"scn": scn, "observed": o})
    ctx.cov["rule"] = ("scenario = entry point (resolve_host_all / resolve_host v4-, v6-preferred / lookup_ipv4_ipv6) x host kind x (answer kind, address count, duration vs timeout) per family, enumerated by TLC; "
                       "every scenario is executed; non-trivial = domain host")
    ctx.cov["exhaustive"] = True
    ctx.assume("tokio paused clock: timers fire at whole milliseconds; the consumer polls the stream eagerly")


def brief(out):
    return "[" + ", ".join("%s%s@%d" % (i["t"] if i["t"] != "ok" else i["fam"], "" if i["t"] != "ok" else "#%d" % i["j"], i["at"])
                           + ("(%s,%s)" % (i["e4"], i["e6"]) if i["t"] == "both" else "") for i in out) + "]"
