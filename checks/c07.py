"""C07 — Access control sees exactly one disconnect per admitted relay connection (DESIGN.md §6 C07).

Spec: specs/relay/RelayAdmission.tla (+ MC_RelayAdmission.tla): `Inner::accept` statement by statement,
the connection actor's select arms, `Clients::unregister`, with explicit ownership of the
OnDisconnectGuard (authorize_with -> accept -> Config -> actor -> unregister -> dropped) and a fault
point at *every stream operation* (poll_ready / start_send / poll_flush / read) of admission and service.

1. TLC (fault enumeration): two connections of one endpoint (they displace each other), every fault
   point, Allow/Deny, good/bad proof, every termination cause (client close, disconnect by id / by
   endpoint, Clients::shutdown, displacement, keep-alive pong timeout): OnConnectOnce, AtMostOneDisconnect,
   DisconnectOnlyAfterAllow (same id), GuardConservation, DeniedNeverRegistered, IdsDistinct,
   ExactlyOnceAtEnd, and under fairness AdmittedEventuallyDisconnected.
   Two fault classes at every stream operation of admission and service: the operation returns an
   error (IoFail), or the stream adapter *panics* inside it (IoPanic): the task that polled the stream
   unwinds (accept task / connection actor), the guard is dropped by the unwinding wherever it lives,
   Clients::unregister does not run (stale registry entry).
2. Anti-vacuity: GuardLate = TRUE (guard constructed after the confirmation write) is refuted
   (ExactlyOnceAtEnd: fault while writing the confirmation -> admitted, never disconnected), and so is
   SilentUnwind = TRUE (a guard whose Drop does nothing while the thread is panicking).
3. Binding, fault layer (mode A): TLC emits every single-connection behaviour with <= 1 fault
   (thorough: <= 2): the path, decision, service steps, cause and *which stream operation fails*.
   vh_relayauth c07 runs the same admission sequence through the public API (serverside ->
   ClientRequest::new -> authorize_with -> Config::new -> Clients::register) over an in-memory
   stream that fails exactly that operation - by returning an error or by panicking, as the scenario
   says (panics unwind the spawned accept / actor task; the panic hook is silenced) - lets the real
   actor serve it, applies the cause, and reports the recording AccessControl's log and the
   stream-operation log.
4. Binding, end-to-end layer: fault-free two-connection behaviours (seeded sample; environment acts
   at rest) against a real `Server::spawn` on 127.0.0.1 with real clients, so that the real
   `Inner::accept` glue, websocket framing and TCP teardown are on the path.

VIOLATION: on_connect more than once; more than one disconnect; an admitted connection without
disconnect at quiescence; a disconnect without admission or with another id; a denied connection
that got registered; a connection id seen twice in the run.  A stream-operation sequence that
differs from the model's (e.g. one flush less) or a fault point the code never reaches is spec
drift (exit 2), not a violation.

Mutation self-test (2026-09-22): in `authorize_with`, `OnDisconnectGuard::for_access_control` moved
after `self.accept(io).await?` -> VIOLATION kind=admitted_without_disconnect for the four fault
points of the confirmation write; undone -> exit 0.

Independent breaking change seeded/_incoming/C07/patch2.diff (`OnDisconnectGuard::drop` returns early
when `std::thread::panicking()`): not caught before the panic fault class existed (no scenario made
a task holding the guard panic); with it (2026-09-22, private worktree via VERIF_REPO) -> VIOLATION
kind=admitted_without_disconnect fault_kind=panic at every panic point with the guard alive
(owner authorize / actor); unchanged tree -> exit 0.
"""
import json
import random

from vlib import ToolError

META = {
    "level": "fault_enumeration",
    "engine": "relay-server",
    "technique": "TLA+ spec RelayAdmission (guard ownership, a fault point after every stream operation) checked by TLC; "
                 "every single-fault behaviour replayed with a fault-injecting stream and a recording AccessControl "
                 "(mode A); fault-free behaviours replayed end-to-end against Server::spawn",
    "text": "TLC enumerates every failure point (an I/O error, or a panic of the stream adapter that unwinds the polling task) "
            "of the admission exchange and of the connection actor's reads, writes and "
            "flushes, every allow/deny decision and every way a connection ends (client close, error, displacement, "
            "administrative disconnect by id or endpoint, shutdown), for two interleaved connections, and checks that "
            "the policy sees exactly one disconnect with the admission's connection id per admitted connection, none for "
            "denied ones, and never a reused id.  Each single-connection behaviour is then executed on the real code "
            "with exactly that stream operation failing; fault-free multi-connection behaviours run against a real server.",
    "note": "Faults inside hyper's upgrade path precede admission and are out of scope.  The fault layer repeats the glue of "
            "Inner::accept through the public API (the e2e layer exercises the real glue).  \"Errors\" = a failing stream "
            "operation, a stream adapter that panics inside an operation (fault layer only), or a TCP connection dropped "
            "without websocket close.  Exact equality of the stream-operation "
            "sequence with the model is required only as a drift check.",
    "design_ref": "§6 C07",
}

ENV_EVENTS = ("ping", "deliver", "tick", "pongback", "pong_timeout", "displace", "close", "disc_id", "disc_key", "shutdown")


def with_fault(conn):
    """Adds the fault plan: which occurrence of which stream operation fails."""
    steps = conn["steps"]
    seen = {}
    fault = None
    for s in steps:
        if s["ev"] not in ("io", "panic"):
            continue
        seen[s["op"]] = seen.get(s["op"], 0) + 1
        if not s["ok"]:
            fault = {"kind": s["op"], "nth": seen[s["op"]], "panic": s["ev"] == "panic"}
    return {"steps": steps, "fault": fault, "exp": {k: conn[k] for k in ("cause", "fault", "owner_at_fault", "nconn", "allowed",
                                                                         "ndisc", "registered")}}


def describe(case):
    evs = []
    for s in case["steps"]:
        if s["ev"] in ("io", "panic"):
            if not s["ok"]:
                evs.append("%s %s:%s" % ("PANIC" if s["ev"] == "panic" else "FAIL", s["f"], s["op"]))
        elif s["ev"] in ("start", "on_connect"):
            evs.append("%s=%s" % (s["ev"], s["f"]))
        elif s["ev"] == "verify":
            evs.append("proof=%s" % ("good" if s["ok"] else "bad"))
        else:
            evs.append(s["ev"])
    return " ".join(evs)


def property_check(ac, exp_allowed):
    """The property on one connection's access-control log at quiescence.  Returns (kind, text) or None."""
    connects = [a for a in ac if a.startswith("connect:")]
    discs = [a for a in ac if a.startswith("disconnect:")]
    if len(connects) > 1:
        return "on_connect_twice", "on_connect called %d times" % len(connects)
    if len(discs) > 1:
        return "disconnect_twice", "on_disconnect called %d times" % len(discs)
    allowed = bool(connects) and connects[0].split(":")[1] == "allow"
    if allowed and not discs:
        return "admitted_without_disconnect", "admitted connection never reported as disconnected"
    if discs and not allowed:
        return "disconnect_without_admission", "on_disconnect for a connection that was not admitted"
    if discs and discs[0].split(":")[1] != connects[0].split(":")[2]:
        return "disconnect_other_id", "on_disconnect id %s differs from on_connect id %s" % (discs[0], connects[0])
    if discs and ac.index(discs[0]) < ac.index(connects[0]):
        return "disconnect_before_connect", "on_disconnect before on_connect"
    return None


def judge_fault(ctx, c, o, drift, ids):
    e = c["exp"]
    if o.get("panic"):
        ctx.report({"kind": "panic", "layer": "fault"}, "panic in %s: %s" % (describe(c), o["panic"]), c)
        return
    bad = property_check(o["ac"], e["allowed"])
    connects = [a for a in o["ac"] if a.startswith("connect:")]
    if bad is None and connects and connects[0].split(":")[1] == "deny" and o["registered"]:
        bad = ("denied_registered", "a denied connection reached Clients::register")
    if bad is None and o["ac_other"]:
        bad = ("foreign_callbacks", "%d access-control callbacks for endpoints that never connected" % o["ac_other"])
    for a in connects:
        cid = a.split(":")[2]
        if cid in ids:
            bad = bad or ("connection_id_reused", "connection id %s was handed out twice" % cid)
        ids.add(cid)
    if bad:
        ctx.report({"kind": bad[0], "layer": "fault", "fault": e["fault"], "owner": e["owner_at_fault"], "cause": e["cause"],
                    "fault_kind": "-" if not c["fault"] else ("panic" if c["fault"].get("panic") else "error")},
                   "%s in scenario: %s (access control saw %s)" % (bad[1], describe(c), o["ac"]), c)
        return
    # conformance with the model beyond the property: drift
    exp_ops = [(s["op"], s["ok"]) for s in c["steps"] if s["ev"] in ("io", "panic")]
    got_ops = [(x["kind"], not x["failed"]) for x in o["ops"]]
    got_allowed = connects[0].split(":")[1] if connects else "-"
    ndisc = len([a for a in o["ac"] if a.startswith("disconnect:")])
    if (got_ops != exp_ops or got_allowed != e["allowed"] or ndisc != e["ndisc"] or o["registered"] != e["registered"]
            or (c["fault"] is not None) != o["fault_hit"]):
        drift.append({"scenario": describe(c), "model_ops": ["%s%s" % (a, "" if b else "!") for a, b in exp_ops],
                      "real_ops": ["%s%s" % (a, "" if b else "!") for a, b in got_ops],
                      "model": [e["allowed"], e["ndisc"], e["registered"]], "real": [got_allowed, ndisc, o["registered"]]})


def judge_e2e(ctx, c, o, ids):
    if o.get("panic"):
        ctx.report({"kind": "panic", "layer": "e2e"}, "panic in e2e scenario %s: %s" % (c["order"], o["panic"]), c)
        return
    for name, exp in sorted(c["exp"].items()):
        ac = o["ac"].get(name, [])
        bad = property_check(ac, exp["allowed"])
        if bad is None and exp["allowed"] == "deny" and (o["connected"].get(name) or not o["denied_unregistered"].get(name, True)):
            bad = ("denied_registered", "a denied connection was connected / known to the registry")
        if bad is None and exp["allowed"] == "allow" and not o["connected"].get(name):
            bad = ("allowed_not_connected", "an allowed connection could not connect")
        if bad:
            ctx.report({"kind": bad[0], "layer": "e2e", "cause": exp["cause"], "conn": name},
                       "%s for %s in e2e scenario %s (access control saw %s)" % (bad[1], name, c["order"], ac), c)
            return
    if o["ac_other"]:
        ctx.report({"kind": "foreign_callbacks", "layer": "e2e"},
                   "%d access-control callbacks for unknown connection ids in %s" % (o["ac_other"], c["order"]), c)
    for cid in o["ids"]:
        if cid in ids:
            ctx.report({"kind": "connection_id_reused", "layer": "e2e"}, "connection id %s was handed out twice" % cid, c)
        ids.add(cid)


class _Quiet:
    """A stand-in for ctx that swallows reports (used by the binding self-test)."""
    def __init__(self):
        self.reports = []

    def report(self, sig, what, replay_obj):
        self.reports.append(sig)
        return "violation"


def run_fault(ctx, cases, name):
    inp = ctx.write_ndjson(name + ".in", cases)
    outp = ctx.path(name + ".out")
    ctx.run_bin("vh_relayauth", ["c07", "--in", inp, "--out", outp], timeout=1800)
    obs = ctx.read_ndjson(outp)
    if len(obs) != len(cases):
        raise ToolError("harness returned %d observations for %d cases" % (len(obs), len(cases)))
    env = [o["env"] for o in obs if o.get("env")]
    if env:
        raise ToolError("harness problem in %d scenarios: %s" % (len(env), env[0]))
    return obs


def run_e2e(ctx, cases, name):
    inp = ctx.write_ndjson(name + ".in", cases)
    outp = ctx.path(name + ".out")
    ctx.run_bin("vh_relayauth", ["c07e", "--in", inp, "--out", outp], timeout=1800)
    obs = ctx.read_ndjson(outp)
    if len(obs) != len(cases):
        raise ToolError("harness returned %d observations for %d cases" % (len(obs), len(cases)))
    env = [o["env"] for o in obs if o.get("env")]
    if env:
        raise ToolError("environment problem in %d e2e scenarios: %s" % (len(env), env[0]))
    return obs


def e2e_case(r):
    return {"conns": {n: c["steps"] for n, c in r["conns"].items()},
            "order": [[a, b] for a, b in r["order"]],
            "exp": {n: {"allowed": c["allowed"], "ndisc": c["ndisc"], "cause": c["cause"]} for n, c in r["conns"].items()}}


def run(ctx):
    if ctx.replay:
        rep = json.load(open(ctx.replay))["replay"]
        if "order" in rep:
            judge_e2e(ctx, rep, run_e2e(ctx, [rep], "c07e-replay")[0], set())
        else:
            drift = []
            judge_fault(ctx, rep, run_fault(ctx, [rep], "c07-replay")[0], drift, set())
        return
    acts = ["IoStep", "IoFail", "Start", "ReadAuth", "Verify", "NewRequest", "OnConnect", "MakeGuard", "RetGuard",
            "BuildConfig", "Register", "Unwind", "IoPanic", "TaskUnwind", "SvcPing", "DoPong", "SvcDeliver", "SvcTick", "SvcPongBack", "PongTimeout",
            "ActorMsg", "LoopFlush", "Displace", "Close", "Disconnect", "Shutdown", "CancelObserved", "Exit", "DropGuard"]
    # 1. fault enumeration on the model: two connections of the same endpoint (safety), then liveness
    ctx.tlc("relay", "MC_RelayAdmission", cfg="RelayAdmission.cfg", mode="mc", workers=ctx.pick(4, 8), timeout=3000, heap="8g",
            constants={"Conns": '{"c1", "c2"}', "MaxFaults": ctx.pick(1, 2), "GuardLate": "FALSE", "Script": '"full"',
                       "Paths": ctx.pick('{"challenge"}', '{"km", "challenge"}'), "Proofs": "{TRUE, FALSE}",
                       "Panics": "TRUE", "SilentUnwind": "FALSE"},
            require_actions=acts)
    ctx.tlc("relay", "MC_RelayAdmission", cfg="RelayAdmission_live.cfg", mode="mc", workers=4, timeout=3000, heap="8g",
            constants={"Conns": ctx.pick('{"c1"}', '{"c1", "c2"}'), "MaxFaults": 1, "Script": ctx.pick('"full"', '"ping"')},
            coverage=False)
    # 2. anti-vacuity: the late guard is refuted
    ctx.tlc("relay", "MC_RelayAdmission", cfg="RelayAdmission_late.cfg", mode="mc", workers=2, timeout=1200,
            constants={"Conns": '{"c1"}', "MaxFaults": 1, "GuardLate": "TRUE", "Script": '"none"', "Paths": '{"km", "challenge"}',
                       "Proofs": "{TRUE, FALSE}", "Panics": "FALSE", "SilentUnwind": "FALSE"},
            expect_violation="ExactlyOnceAtEnd")
    # ... and so is a guard that stays silent while its task unwinds from a panicking stream adapter
    ctx.tlc("relay", "MC_RelayAdmission", cfg="RelayAdmission_late.cfg", mode="mc", workers=2, timeout=1200,
            constants={"Conns": '{"c1"}', "MaxFaults": 1, "GuardLate": "FALSE", "Script": '"ping"', "Paths": '{"km", "challenge"}',
                       "Proofs": "{TRUE, FALSE}", "Panics": "TRUE", "SilentUnwind": "TRUE"},
            expect_violation="ExactlyOnceAtEnd")
    # 3. fault layer
    res = ctx.tlc("relay", "MC_RelayAdmission", cfg="RelayAdmission_gen.cfg", mode="gen", timeout=3000,
                  constants={"MaxFaults": 1}, require_actions=acts)
    cases, seen_steps = [], set()
    for r in res.replays:
        c = with_fault(r["conns"]["c1"])
        key = json.dumps(c["steps"], sort_keys=True)
        # the same connection history can be printed twice (a Shutdown after the connection is over only changes
        # the global order); two faults in one behaviour cannot happen: the first one breaks the stream
        if key in seen_steps or len([s for s in c["steps"] if s["ev"] in ("io", "panic") and not s["ok"]]) > 1:
            continue
        seen_steps.add(key)
        cases.append(c)
    if not cases:
        raise ToolError("TLC generated no fault scenarios")
    obs = run_fault(ctx, cases, "c07")
    drift, ids = [], set()
    owners = {}
    for c, o in zip(cases, obs):
        e = c["exp"]
        ctx.count([describe(c), c["fault"]], nontrivial=e["nconn"] > 0)
        if e["fault"] != "-":
            k = ("panic:" if c["fault"]["panic"] else "error:") + e["owner_at_fault"]
            owners[k] = owners.get(k, 0) + 1
        judge_fault(ctx, c, o, drift, ids)
        n = len(ctx.cov["samples"])
        isp = bool(c["fault"]) and c["fault"]["panic"]
        if n < 3 and ((n == 0 and e["fault"] == "confirm" and not isp) or (n == 1 and e["fault"] == "pong" and isp)
                      or (n == 2 and e["cause"] == "displaced" and e["fault"] == "-")):
            ctx.sample({"layer": "fault", "scenario": describe(c), "fault_plan": c["fault"], "guard_owner_at_fault": e["owner_at_fault"],
                        "model": {"allowed": e["allowed"], "disconnects": e["ndisc"], "registered": e["registered"]},
                        "access_control_saw": o["ac"], "stream_ops": len(o["ops"])})
    ctx.cov["fault_points_by_guard_owner"] = owners
    # binding self-tests: corrupt one field of an accepted observation -> the judge must reject it
    st = {"dropped_disconnect": 0, "doubled_disconnect": 0, "foreign_id": 0, "dropped_stream_op": 0}
    if not ctx.violations and not drift:
        for c, o in zip(cases, obs):
            discs = [a for a in o["ac"] if a.startswith("disconnect:")]
            if not discs or min(st.values()) >= 3:
                continue
            for key, mut in (("dropped_disconnect", lambda x: x.update(ac=[a for a in x["ac"] if not a.startswith("disconnect:")])),
                             ("doubled_disconnect", lambda x: x.update(ac=x["ac"] + discs)),
                             ("foreign_id", lambda x: x.update(ac=[a if not a.startswith("disconnect:") else "disconnect:999999" for a in x["ac"]])),
                             ("dropped_stream_op", lambda x: x.update(ops=x["ops"][:-1]))):
                o2 = json.loads(json.dumps(o))
                mut(o2)
                q, d2 = _Quiet(), []
                judge_fault(q, c, o2, d2, set())
                if (q.reports and key != "dropped_stream_op") or (d2 and key == "dropped_stream_op"):
                    st[key] += 1
        if min(st.values()) == 0:
            raise ToolError("binding self-test: a corrupted observation was accepted: %s" % st)
        ctx.cov["binding_selftests"] = st
    # 4. end-to-end layer
    res = ctx.tlc("relay", "MC_RelayAdmission", cfg="RelayAdmission_e2e.cfg", mode="gen", timeout=3000, coverage=False,
                  constants={"Conns": '{"c1", "c2"}'})
    allc = [e2e_case(r) for r in res.replays]
    if not ctx.quick:      # a third connection on another endpoint interleaved with the two that displace each other
        res = ctx.tlc("relay", "MC_RelayAdmission", cfg="RelayAdmission_e2e.cfg", mode="gen", timeout=3000, coverage=False,
                      constants={"Conns": '{"c1", "c2", "c3"}'}, heap="8g")
        allc += [e2e_case(r) for r in res.replays]
    rnd = random.Random(ctx.seed)
    rnd.shuffle(allc)
    pickn = ctx.pick(16, 200)
    e2e = allc[:pickn]
    eobs = run_e2e(ctx, e2e, "c07e")
    fault_ids, ids = ids, set()          # connection ids are unique per process: the e2e harness is another process
    for c, o in zip(e2e, eobs):
        ctx.count(["e2e", c["order"], {n: x["allowed"] for n, x in c["exp"].items()}], nontrivial=True)
        judge_e2e(ctx, c, o, ids)
        if len(ctx.cov["samples"]) < 4:
            ctx.sample({"layer": "e2e", "order": c["order"], "model": c["exp"], "access_control_saw": o["ac"], "connected": o["connected"]})
    ctx.cov["e2e_scenarios"] = {"run": len(e2e), "generated": len(allc)}
    ctx.cov["connection_ids_seen"] = len(ids) + len(fault_ids)
    if drift and not ctx.violations:
        raise ToolError("NONCONFORMANCE (no property violated): %d scenarios differ from the model in stream operations / "
                        "outcome, e.g. %s" % (len(drift), json.dumps(drift[0])))
    ctx.cov["rule"] = ("fault layer: every behaviour of one connection in RelayAdmission with at most one failing stream operation "
                       "(exhaustive over fault point x path x proof x decision x service step x cause); e2e layer: seeded sample "
                       "of the fault-free two-connection behaviours; non-trivial = the policy was consulted")
    ctx.cov["exhaustive"] = True
    ctx.assume("a failing stream operation leaves the stream broken (later operations fail too), as for a websocket after an I/O error")
    ctx.assume("tokio's paused clock returns from sleep only when every other task is idle (quiescence between scenario steps)")
