"""C39 — DNS packet store survives crashes consistently and evicts only expired packets (DESIGN.md §6 C39).

Spec: specs/dnsserver/PacketStore.tla — the store actor of store/signed_packets.rs: channel, batched write
transactions (`durable` / open-transaction view `work`), Upsert / Get / CheckExpired handling with the
update-time index, CommitFull / CommitTimeout / Close, Crash / Reopen, the eviction task (EvictScan over the
committed index, Tick).  TLC checks IndexConsistent, PublishedOnly, CommittedSurvive (every packet whose batch
committed is there, or a more recent one, unless expired), CrashKeepsCommit, EvictOnlyExpired and, under
fairness, EventuallyEvicted.

Binding, part 1 (fault enumeration, crash images): workload numbers are drawn from the seed; for each, TLC
(MC_PacketStore.tla, SpecW) explores every interleaving of client, actor and commit and emits, per client
position (messages sent, replies received), the durable contents a crash at that position may leave.
`vh_dnssrv c39` runs the workload on the real store (hooked `VerifZoneStore::with_database` over a recording
redb `StorageBackend`, `max_batch_size` = the model's B, no time-outs), with markers for sent / received in
the backend's operation log; after EVERY backend operation (write / set_len / sync) since the store was opened
it reopens the image with the real store code and projects packets (byte-for-byte -> model packet) and index.
Each projected content must be one the model allows at the client position of the cut; replies (insert flag,
get result) are compared too, and the image after a clean close must be the model's final state.  The thorough
tier also reopens images that contain the last synced state plus a random subset of the not yet synced writes.
Part 2 (eviction): TLC enumerates upsert workloads with timestamps on both sides of the cut-off and the content
every quiescent state must have (QuiescentExact); `vh_dnssrv c39e` runs them on the real store with a 1 h
retention and a 30 ms eviction interval (timestamps placed >= 5 minutes away from the cut-off) and waits
(bounded) until exactly the predicted packets remain, each indexed at its timestamp.

Mixed batches (added after an independently seeded change - "a batch opened by an eviction check commits
without fsync" - went unnoticed): the model has `disk` (last durable commit) next to `durable`, the kind of the
message that opened a batch, and the switch DurabilityByOpener, for which TLC refutes CommittedOnDisk.  The
generator SpecM starts from a database that holds an expired packet with its CheckExpired already queued, so that
the check opens the first batch and the client's upserts fall into it; the driver gets there by storing an expired
packet, closing, and reopening the store with a one-hour retention on the same recording backend (the eviction
task's start-up scan queues the check; "dnssrv.evict.scan_done" tells when).  "snap" messages (a read snapshot
through the hook `dump`) let the client see that the batch has committed; images are also cut at every reply.

Design deviation: batch boundaries are forced by count (B messages per batch, Get as a message like any
other) rather than by max_batch_time, and the eviction task's start-up snapshot is awaited through the hook
event "dnssrv.evict.scan_done" so that it cannot consume a slot of a batch.

Mutation self-test (done while building, /var/tmp/mut-c39.diff, undone afterwards): in signed_packets.rs
Upsert, the `tables.update_time.insert(..)` of the new packet removed -> VIOLATION (crash image class
"index_inconsistent": stored packet not indexed at its timestamp; eviction part: "expired packet still stored").
"""
import json
import random

from vlib import ToolError

META = {
    "level": "fault_enumeration",
    "engine": "dns-server",
    "technique": "TLA+ spec PacketStore checked by TLC (safety + liveness); crash-prefix enumeration of the real store's redb backend "
                 "operations judged against the durable states TLC allows per client position; eviction workloads replayed (mode A)",
    "text": "TLC checks on the PacketStore model (batched transactions, crash, reopen, eviction task) that the committed database always "
            "holds, per key, a published packet at least as recent as every packet of a committed batch, that every stored packet is "
            "indexed at its timestamp, that eviction removes only packets older than the cut-off and eventually all of them; the real "
            "store is then run over a recording redb backend, crashed after every backend operation of seeded workloads, reopened, and "
            "its content must be a durable state the model allows at that point; eviction workloads must end in exactly the model's "
            "final content.",
    "note": "Crash model: everything written before the crash point is on disk (quick); thorough adds 'last sync + random subset of later "
            "writes'.  Torn single writes are not generated; redb's recovery is exercised, not modelled.  Images cut before the store "
            "finished opening are excluded.  Index consistency is read weakly: every stored packet is indexed at its timestamp, dangling "
            "entries are allowed (the code removes them lazily).  'Eventually' on the real store = within 20 s at a 30 ms eviction interval.",
    "design_ref": "§6 C39",
}

MSGS = 6
MSGS_M = 5


def canon_point(p):
    pk = ",".join("%s=%d.%d" % (k, v["ts"], v["pl"]) for k, v in sorted(p["pk"].items()))
    ix = ",".join(sorted("%d@%s" % (e["t"], e["k"]) for e in p["ix"]))
    return pk + "|" + ix


def run(ctx):
    if ctx.replay:
        rep = json.load(open(ctx.replay))["replay"]
        if rep.get("part") == "evict":
            evict_part(ctx, [rep["case"]])
        else:
            crash_part(ctx, [rep["case"]], {rep["case"]["wid_b"]: {tuple(k): set(v) for k, v in rep["allowed"]}}, {rep["case"]["wid_b"]: rep["final"]}, 0)
        return
    # 1. the model satisfies C39 (safety with crashes, time-outs and eviction; liveness of eviction)
    base = {"Keys": '{"k1", "k2"}', "Tss": "{1, 3}", "Pls": "{1}", "B": 2, "Timeouts": "TRUE", "Evict": "TRUE", "Eviction": 2, "MaxNow": 4,
            "DurabilityByOpener": "FALSE"}
    ctx.tlc("dnsserver", "PacketStore", cfg="PacketStore_mc.cfg", mode="mc", timeout=3000,
            constants=dict(base, MaxMsgs=ctx.pick(2, 3), Crashes="TRUE", Now0=3, KeepRunning="FALSE"),
            require_actions=["Send", "Handle", "HandleSnapIdle", "Recv", "CommitFull", "CommitTimeout", "Close", "Crash", "Reopen", "EvictScan", "Tick"])
    # anti-vacuity: "durability chosen by the message that opened the batch" loses an acknowledged, committed upsert
    ctx.tlc("dnsserver", "PacketStore", cfg="PacketStore_refute.cfg", mode="mc", timeout=3000, expect_violation="CommittedOnDisk",
            constants=dict(base, MaxMsgs=2, Crashes="TRUE", Now0=3, KeepRunning="FALSE", DurabilityByOpener="TRUE"))
    ctx.tlc("dnsserver", "PacketStore", cfg="PacketStore_live.cfg", mode="mc", timeout=3000, coverage=False,
            constants=dict(base, MaxMsgs=2, Crashes="FALSE", Now0=4, KeepRunning="TRUE"))
    # 2. crash images
    rng = random.Random(ctx.seed)
    fixed = [2, 200002, 880202, 123456, 989898]      # replace within / across batches, gets, many keys
    per_b = ctx.pick(6, 60)
    cases, allowed, final = [], {}, {}
    for b in (2, 3):
        wids = sorted(set(fixed + [rng.randrange(10 ** MSGS) for _ in range(per_b)]))
        res = ctx.tlc("dnsserver", "MC_PacketStore", cfg="PacketStore_gen.cfg", mode="gen", timeout=3000,
                      constants={"B": b, "MaxMsgs": MSGS, "Workloads": "{%s}" % ", ".join(str(w) for w in wids)})
        seen = set()
        for r in res.replays:
            key = "%d/%d" % (r["wid"], b)
            a = allowed.setdefault(key, {})
            for p in r["points"]:
                a.setdefault((p["sent"], p["acked"]), set()).add(canon_point(p))
            final.setdefault(key, set()).add(canon_point(r["points"][-1]))
            if key not in seen:
                seen.add(key)
                cases.append({"wid_b": key, "b": b, "msgs": r["msgs"]})
        if len(seen) != len(wids):
            raise ToolError("generator covered %d of %d workloads" % (len(seen), len(wids)))
    # mixed batches: an eviction check opens the batch, client upserts fall into it
    def wid_of(digits):
        return sum(d * 10 ** i for i, d in enumerate(digits))
    fixed_m = [wid_of(d) for d in ([2, 8, 9, 6, 9], [2, 9, 9, 0, 9], [6, 9, 2, 9, 9], [3, 1, 9, 8, 9])]
    for b in (2, 3):
        wids = sorted(set(fixed_m + [rng.randrange(10 ** MSGS_M) for _ in range(ctx.pick(2, 30))]))
        res = ctx.tlc("dnsserver", "MC_PacketStore", cfg="PacketStore_mixed.cfg", mode="gen", timeout=3000,
                      constants={"B": b, "MaxMsgs": MSGS_M, "Workloads": "{%s}" % ", ".join(str(w) for w in wids)})
        seen = set()
        for r in res.replays:
            key = "m%d/%d" % (r["wid"], b)
            a = allowed.setdefault(key, {})
            for p in r["points"]:
                a.setdefault((p["sent"], p["acked"]), set()).add(canon_point(p))
            final.setdefault(key, set()).add(canon_point(r["points"][-1]))
            if key not in seen:
                seen.add(key)
                cases.append({"wid_b": key, "b": b, "msgs": r["msgs"], "mixed": True})
        if len(seen) != len(wids):
            raise ToolError("generator covered %d of %d mixed workloads" % (len(seen), len(wids)))
    for k, f in final.items():
        if len(f) != 1:
            raise ToolError("model: final state of workload %s is not unique: %s" % (k, f))
    crash_part(ctx, cases, allowed, {k: next(iter(f)) for k, f in final.items()}, ctx.pick(0, 3))
    if not ctx.quick:
        selftest(ctx, cases[:10], allowed, {k: next(iter(f)) for k, f in final.items()})
    # 3. eviction
    res = ctx.tlc("dnsserver", "MC_PacketStore", cfg="PacketStore_evict.cfg", mode="gen", timeout=3000,
                  constants={"MaxMsgs": ctx.pick(3, 4)})
    ev = {}
    for r in res.replays:
        key = json.dumps([[m["k"], m["ts"], m["pl"]] for m in r["msgs"]])
        fin = json.dumps(r["final"], sort_keys=True)
        if ev.setdefault(key, (fin, r))[0] != fin:
            raise ToolError("model: quiescent content of eviction workload %s is not unique" % key)
    evict_part(ctx, [r for _, r in ev.values()])
    ctx.cov["rule"] = ("crash part: one case = (workload, backend-operation prefix) reopened; workloads = %d fixed + seeded random 6-message "
                       "sequences over 2 keys x 2 timestamps x 2 payloads + gets, batch sizes 2 and 3, every prefix since the store was "
                       "opened, plus mixed-batch workloads (expired packet present, the eviction check opens the batch, upserts / gets / "
                       "snapshots follow); eviction part: every upsert workload of the bound; non-trivial = a prefix that ends inside a commit or "
                       "after at least one commit / an eviction workload with an expired packet" % len(fixed))
    ctx.cov["exhaustive"] = False
    ctx.assume("a crash loses nothing that was written before it (quick tier); redb recovers any such prefix")
    ctx.assume("wall clock moves less than 5 minutes during the eviction part")


def classify(state, allowed_states, earlier=()):
    if state in earlier:
        return "committed_packet_lost"      # an older content: something that had committed by now is missing
    if state.startswith(("open-failed", "store-open-failed", "dump-failed")):
        return "open_failed"
    if "?" in state or "!" in state:
        return "corrupt_or_foreign_row"
    if state.split("|")[0] in {a.split("|")[0] for a in allowed_states}:
        return "index_inconsistent"
    return "wrong_content"


def crash_part(ctx, cases, allowed, final, subsets):
    inp = ctx.write_ndjson("c39.in", cases)
    outp = ctx.path("c39.out")
    ctx.run_bin("vh_dnssrv", ["c39", "--in", inp, "--out", outp, "--subsets", subsets], timeout=3000)
    obs = ctx.read_ndjson(outp)
    if len(obs) != len(cases):
        raise ToolError("harness returned %d observations for %d cases" % (len(obs), len(cases)))
    reopened = 0
    for c, o in zip(cases, obs):
        a = allowed[c["wid_b"]]
        msgs = [(m["op"], m["k"], m["ts"], m["pl"]) for m in c["msgs"]]
        if not o["ok"]:
            ctx.report({"kind": "reply", "what": o["what"]}, "store reply deviates from the model at message %d of %s (b=%d): %s expected %s, got %s"
                       % (o["step"], msgs, c["b"], o["what"], o["exp"], o["got"]),
                       {"part": "crash", "case": c, "allowed": [[list(k), sorted(v)] for k, v in a.items()], "final": final[c["wid_b"]]})
            continue
        if not o["cuts"]:
            raise ToolError("no crash image for workload %s" % c["wid_b"])
        reopened += o["reopened"]
        states_seen = set()
        for cut in o["cuts"]:
            if cut["subset"]:
                ok_states = set()
                for (s, k), v in a.items():
                    if cut["sent0"] <= s <= cut["sent"] and cut["acked0"] <= k <= cut["acked"]:
                        ok_states |= v
            else:
                ok_states = a.get((cut["sent"], cut["acked"]), set())
            n = cut["to"] - cut["from"] + 1
            states_seen.add(cut["state"])
            ctx.count(case_key=[c["wid_b"], cut["from"], cut["subset"]], nontrivial=(cut["state"] != min(a[(0, 0)])), n=1)
            ctx.cov["evaluations"] += n - 1
            if cut["state"] not in ok_states:
                earlier = set()
                for (s, k), v in a.items():
                    if s <= cut["sent"] and k <= cut["acked"]:
                        earlier |= v
                ctx.report({"kind": "crash_image", "class": classify(cut["state"], ok_states, earlier), "subset": cut["subset"]},
                           "image after backend op %d (sent %d, acked %d%s) of workload %s (b=%d) reopens as %s; the model allows %s"
                           % (cut["from"], cut["sent"], cut["acked"], ", subset of unsynced writes" if cut["subset"] else "", msgs, c["b"],
                              cut["state"], sorted(ok_states)),
                           {"part": "crash", "case": c, "allowed": [[list(k), sorted(v)] for k, v in a.items()], "final": final[c["wid_b"]]})
                break
        else:
            last = [x for x in o["cuts"] if not x["subset"]][-1]
            if last["state"] != final[c["wid_b"]]:
                ctx.report({"kind": "crash_image", "class": "clean_close_lost_batch", "subset": False},
                           "after a clean close workload %s (b=%d) holds %s, the model says %s" % (msgs, c["b"], last["state"], final[c["wid_b"]]),
                           {"part": "crash", "case": c, "allowed": [[list(k), sorted(v)] for k, v in a.items()], "final": final[c["wid_b"]]})
        if len(states_seen) > 2 and not any(x.get("mixed_batch_opened_by_eviction_check") == bool(c.get("mixed")) for x in ctx.cov["samples"]):
            ctx.sample({"workload": ["%s %s ts%d pl%d" % m for m in msgs], "batch_size": c["b"], "mixed_batch_opened_by_eviction_check": bool(c.get("mixed")),
                        "backend_ops": o["backend_ops"],
                        "images_reopened": o["reopened"], "distinct_contents_seen": sorted(states_seen)}, limit=3)
    ctx.cov["images_reopened"] = ctx.cov.get("images_reopened", 0) + reopened
    ctx.log("c39 crash: %d workloads, %d images reopened" % (len(cases), reopened))


def evict_part(ctx, cases):
    inp = ctx.write_ndjson("c39e.in", cases)
    outp = ctx.path("c39e.out")
    ctx.run_bin("vh_dnssrv", ["c39e", "--in", inp, "--out", outp], timeout=3000)
    obs = ctx.read_ndjson(outp)
    if len(obs) != len(cases):
        raise ToolError("harness returned %d observations for %d eviction cases" % (len(obs), len(cases)))
    for c, o in zip(cases, obs):
        msgs = [(m["k"], m["ts"], m["pl"]) for m in c["msgs"]]
        ctx.count(case_key=["evict", msgs], nontrivial=any(m["ts"] < c["cutoff"] for m in c["msgs"]))
        if any(m["ts"] < c["cutoff"] for m in c["msgs"]) and any(v["ts"] for v in c["final"].values()):
            ctx.sample({"eviction_workload": msgs, "cutoff": c["cutoff"], "must_remain": c["final"], "waited_ms": o["waited_ms"]}, limit=4)
        if not o["ok"]:
            ctx.report({"kind": "eviction", "what": o["what"].split(" for ")[0]},
                       "eviction workload %s (cut-off %d): %s: expected %s, got %s" % (msgs, c["cutoff"], o["what"], o["exp"], o["got"]),
                       {"part": "evict", "case": c})
    ctx.log("c39 eviction: %d workloads, waited %s ms" % (len(cases), obs[0]["waited_ms"] if obs else 0))


def selftest(ctx, cases, allowed, final):
    """Binding self-test: (a) flip the model's reply of one message -> the driver must report a reply mismatch;
    (b) take the committed states out of the allowed sets -> every workload must be reported."""
    import copy
    flipped = []
    for c in cases:
        c = copy.deepcopy(c)
        m = [x for x in c["msgs"] if x["op"] == "upsert"][-1]
        m["flag"] = not m["flag"]
        flipped.append(c)
    inp = ctx.write_ndjson("c39-selftest.in", flipped)
    outp = ctx.path("c39-selftest.out")
    ctx.run_bin("vh_dnssrv", ["c39", "--in", inp, "--out", outp, "--subsets", 0])
    obs = ctx.read_ndjson(outp)
    rejected = sum(1 for o in obs if not o["ok"] and o["what"] == "insert flag")
    outp2 = ctx.path("c39.out")
    wrong = 0
    for c, o in zip(cases, ctx.read_ndjson(outp2)):
        a = allowed[c["wid_b"]]
        empty = min(a[(0, 0)])
        if any(cut["state"] not in {empty} for cut in o["cuts"]):
            wrong += 1      # with only the empty database allowed, a workload that commits anything is caught
    ctx.cov["binding_selftests"] = {"flipped_replies": len(flipped), "rejected": rejected,
                                    "workloads_with_commits": wrong, "of": len(cases)}
    if rejected != len(flipped) or wrong == 0:
        raise ToolError("binding self-test failed: %s" % ctx.cov["binding_selftests"])
