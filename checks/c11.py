"""C11 — Relay protocol version negotiation picks the best common version (DESIGN.md §6 C11).

Spec: specs/relay/RelayHttpNegotiate.tla.  TLC enumerates (i) every `Sec-WebSocket-Protocol` header of up
to MaxLen tokens from the alphabet {v1, v2, v3 (future), empty, space-padded, tab-padded, upper case, with a
suffix, some other protocol, non-ASCII} plus the missing header and requests that break one other upgrade
precondition, against the real server's decision procedure (checks in program order, split/trim/match/max),
(ii) every answer of a scripted server against the real client's acceptance rule, (iii) real client against
real server; it checks on the model: upgrade only if (and, for well-formed requests, whenever) a supported
version is offered, the newest offered version is chosen and spoken, refusals never name a version, the
client accepts only answers naming a supported version and then speaks it, agreement end to end.  Every case
with TLC's expected observations is executed by vh_relaynet c11:
  srv  raw HTTP/1.1 upgrade request over TCP to a real `Server::spawn`; status / Sec-WebSocket-Protocol /
       Sec-WebSocket-Version of the answer; after a 101 the relay handshake is completed, the version the
       server gave its AccessControl (`ClientRequest::protocol_version`) is read, and a second connection with
       the same key provokes the server's version-specific notice on the first (Status frame 13 in v2, Health
       frame 11 in v1);
  cli  the real `ClientBuilder::connect` against a scripted TCP server answering with the case's status and
       header; connect result class; on success the scripted server (running the real `handshake::serverside`)
       sends one Status and one Health frame and the client must decode exactly the one of its version;
  e2e  real client against real server.

Deviations from DESIGN: module name RelayHttpNegotiate (own module per property); the token alphabet is a bit
larger and the other upgrade preconditions (Upgrade / Sec-WebSocket-Key / Sec-WebSocket-Version, method, path)
are part of the model.

Mutation self-test (2026-09-22; run against a private copy of /repo with the same harness and judge, because a
rebuild takes ~10 min on the shared machine and /repo must not stay mutated that long): `.max()` -> `.next()` (first
match) in handle_relay_ws_upgrade is reported as VIOLATION (kind=proto, e.g. header `v1,v2` answered v1);
`.map(|s| s.trim())` removed is reported (padded tokens refused); client `match_from_str` replaced by "accept
anything and default to V2" is reported (kind=client-accept); undoing returns to exit 0.
"""
import copy
import json

from vlib import ToolError

META = {
    "level": "model_checking",
    "engine": "relay-http",
    "technique": "TLA+ spec RelayHttpNegotiate (server decision procedure x client acceptance rule) checked by TLC; every "
                 "abstract header / answer concretised and run against the real Server::spawn and the real "
                 "ClientBuilder::connect over loopback TCP (mode A)",
    "text": "TLC enumerates every sub-protocol header of up to 3 (thorough: 4) tokens from a 10-token alphabet (supported, "
            "future, empty, padded, wrong case, suffixed, foreign, non-ASCII), the missing header, requests violating one other "
            "upgrade precondition, and every scripted-server answer; it checks upgrade-iff-offered, newest-offered-chosen, "
            "clean refusals, client-accepts-only-supported and agreement on the model and prints the expected observations; "
            "each case is executed against the real relay server (raw HTTP upgrade request, then relay handshake, access-control "
            "version, version-specific notice frame) or the real client (scripted server, connect result, version-specific "
            "frame decoding).",
    "note": "A header 'offers' a version when one comma-separated member, stripped of blanks, is exactly its name "
            "(case-sensitive, as the protocol names are defined).  A header with non-ASCII bytes may be refused even if it "
            "offers a version (the statement only says 'only if').  Only the first Sec-WebSocket-Protocol header line is "
            "considered (single-header quantifier).  'Speaks version v' is observed as: ClientRequest::protocol_version() on "
            "the server, Status-vs-Health framing on the wire, Status-vs-Health decoding in the client.  For a non-101 "
            "answer the client's error class may be the websocket library's (it checks the status first).  A refused upgrade "
            "is observed as 'some 4xx without a Sec-WebSocket-Protocol header'; which 4xx, and the Sec-WebSocket-Version hint, "
            "are modelled but not compared.  Outside the property (single-header quantifier) but observed while building: "
            "when the offer is split over two Sec-WebSocket-Protocol header lines (legal per RFC 6455 4.1) the server only "
            "reads the first line (`[v1][v2]` -> v1, `[chat][v2]` -> 400).",
    "design_ref": "§6 C11",
}

TOKEN_BYTES = {
    "v1": b"iroh-relay-v1", "v2": b"iroh-relay-v2", "v3": b"iroh-relay-v3", "empty": b"",
    "v2_sp": b" iroh-relay-v2 ", "v1_lsp": b" iroh-relay-v1", "v1_tab": b"\tiroh-relay-v1\t", "V2": b"IROH-RELAY-V2",
    "v2x": b"iroh-relay-v2x", "v1in": b"iroh-relay -v1", "chat": b"chat", "v2_hi": b"iroh-relay-v2\xff",
    "list_v2_v1": b"iroh-relay-v2, iroh-relay-v1",
}
VERSION_NAME = {"v1": "iroh-relay-v1", "v2": "iroh-relay-v2"}
NOTICE_FRAME = {"v1": 11, "v2": 13}        # Health / Status frame types (protos/common.rs FrameType)
WS_KEY = b"dGhlIHNhbXBsZSBub25jZQ=="


def tla_set(items):
    return "{" + ", ".join(('"%s"' % i) if isinstance(i, str) else str(i) for i in items) + "}"


def header_bytes(tokens):
    return b",".join(TOKEN_BYTES[t] for t in tokens)


def request_bytes(req):
    lines = [("%s %s HTTP/1.1" % (req["method"], req["path"])).encode(), b"Host: localhost", b"Connection: Upgrade"]
    if req["upgrade"] != "absent":
        lines.append(b"Upgrade: " + req["upgrade"].encode())
    if req["key"]:
        lines.append(b"Sec-WebSocket-Key: " + WS_KEY)
    if req["wsver"] != "absent":
        lines.append(b"Sec-WebSocket-Version: " + req["wsver"].encode())
    if req["hasProto"]:
        lines.append(b"Sec-WebSocket-Protocol: " + header_bytes(req["proto"]))
    if req["method"] == "POST":
        lines.append(b"Content-Length: 0")
    return b"\r\n".join(lines) + b"\r\n\r\n"


def to_harness(c):
    if c["mode"] == "srv":
        return {"mode": "srv", "request": request_bytes(c["req"]).hex()}
    if c["mode"] == "cli":
        a = c["ans"]
        return {"mode": "cli", "status": a["status"], "proto": TOKEN_BYTES[a["proto"]].hex() if a["hasProto"] else None}
    return {"mode": "e2e"}


def run(ctx):
    if ctx.replay:
        rep = json.load(open(ctx.replay))["replay"]
        if rep.get("mode") == "connect":
            connect_pipeline(ctx, [rep])
        else:
            judge(ctx, [rep], execute(ctx, [rep]))
        return
    consts = {
        "MaxLen": ctx.pick(3, 4),
        "Tokens": tla_set(["v1", "v2", "v3", "empty", "v2_sp", "v1_tab", "V2", "v2x", "chat", "v2_hi"]),
        "Modes": tla_set(["srv", "cli", "e2e"]),
    }
    res = ctx.tlc("relay", "RelayHttpNegotiate", mode="gen", constants=consts, timeout=1500,
                  require_actions=["ServerUpgrade", "ScriptedAnswer", "ClientCheck", "Established"])
    # client-side and end-to-end cases first (so that they are among the first reported if something is wrong)
    cases = sorted(res.replays, key=lambda c: {"e2e": 0, "cli": 1, "srv": 2}[c["mode"]])
    if not cases:
        raise ToolError("TLC printed no case")
    obs = execute(ctx, cases)
    judge(ctx, cases, obs)
    if not ctx.violations:
        selftest(ctx, cases, obs)
    if not ctx.quick:
        connect_pipeline(ctx)
    ctx.cov["rule"] = ("every case of RelayHttpNegotiate at the tier's constants (exhaustive): all offered headers of <= MaxLen "
                       "tokens, the missing header, 27 broken-precondition requests, 16 scripted answers, end to end; "
                       "non-trivial = a header with at least one token that is not plainly supported, or any client-side case")
    ctx.cov["exhaustive"] = True
    ctx.assume("HTTP/1.1 head parsing of hyper / tokio-websockets: field values are trimmed of leading/trailing SP/HTAB")
    ctx.assume("the relay handshake (challenge signature) and websocket framing work (they carry the version-specific frames)")


def execute(ctx, cases):
    inp = ctx.write_ndjson("c11.in", [to_harness(c) for c in cases])
    outp = ctx.path("c11.out")
    try:
        ctx.run_bin("vh_relaynet", ["c11", "--in", inp, "--out", outp], timeout=1500)
    except ToolError as e:
        raise ToolError("environment problem in the harness (not a property violation): %s" % e)
    obs = ctx.read_ndjson(outp)
    if len(obs) != len(cases):
        raise ToolError("harness returned %d observations for %d cases" % (len(obs), len(cases)))
    return obs


def mismatch(c, o):
    """None or (kind, expected, got)."""
    mode, resp = c["mode"], c["resp"]
    if mode == "srv":
        # a refusal is any 4xx (the model's 400 / 404 and the Sec-WebSocket-Version hint on a 400 are documentation)
        if (o["status"] != 101) if resp["status"] == 101 else not (400 <= o["status"] <= 499):
            return ("status", resp["status"], o["status"])
        want = [VERSION_NAME[resp["proto"]].encode().hex()] if resp["hasProto"] else []
        if o["protos"] != want:
            return ("proto", [bytes.fromhex(w).decode() for w in want], [bytes.fromhex(w).decode("latin-1") for w in o["protos"]])
        if c["srvSpeaks"] != "none":
            if o.get("err"):
                return ("upgraded-connection", "a working relay connection", o["err"])
            if o["srv_access_version"] != VERSION_NAME[c["srvSpeaks"]]:
                return ("server-speaks", VERSION_NAME[c["srvSpeaks"]], o["srv_access_version"])
            if o["srv_notice_frame"] != NOTICE_FRAME[c["srvSpeaks"]]:
                return ("server-frame", NOTICE_FRAME[c["srvSpeaks"]], o["srv_notice_frame"])
        elif o.get("err"):
            return ("io-error", "an answer", o["err"])
        return None
    # the real client
    if mode == "cli":
        want_offer = [header_bytes(c["req"]["proto"]).hex()]
        if o["client_offer"] != want_offer:
            return ("client-offer", header_bytes(c["req"]["proto"]).decode(), o["client_offer"])
    accepted = o["cli_err"] == ""
    if accepted != c["accepted"]:
        return ("client-accept", "accepted" if c["accepted"] else "rejected (%s)" % c["cliErr"],
                "accepted" if accepted else "rejected (%s: %s)" % (o["cli_err"], o["cli_err_text"]))
    if not accepted:
        ok = {"version": ("version",), "status": ("status", "websocket")}[c["cliErr"]]
        if o["cli_err"] not in ok:
            return ("client-error-class", c["cliErr"], "%s: %s" % (o["cli_err"], o["cli_err_text"]))
        return None
    if o.get("err"):
        return ("established-connection", "a working relay connection", o["err"])
    speaks = "v2" if (o["cli_status_ok"] and not o["cli_health_ok"]) else "v1" if (o["cli_health_ok"] and not o["cli_status_ok"]) \
        else "status_ok=%s health_ok=%s" % (o["cli_status_ok"], o["cli_health_ok"])
    if speaks != c["cliSpeaks"]:
        return ("client-speaks", c["cliSpeaks"], speaks)
    if mode == "e2e":
        if o["srv_access_version"] != VERSION_NAME[c["srvSpeaks"]]:
            return ("server-speaks", VERSION_NAME[c["srvSpeaks"]], o["srv_access_version"])
        if o["srv_notice_frame"] != NOTICE_FRAME[c["srvSpeaks"]]:
            return ("server-frame", NOTICE_FRAME[c["srvSpeaks"]], o["srv_notice_frame"])
    return None


def case_sig(c):
    if c["mode"] == "srv":
        r = c["req"]
        return {"mode": "srv", "header": ",".join(r["proto"]) if r["hasProto"] else "<absent>",
                "request": "%s %s upgrade=%s key=%s wsver=%s" % (r["method"], r["path"], r["upgrade"], r["key"], r["wsver"])}
    if c["mode"] == "cli":
        return {"mode": "cli", "answer": "%d %s" % (c["ans"]["status"], c["ans"]["proto"] if c["ans"]["hasProto"] else "<absent>")}
    return {"mode": "e2e"}


def judge(ctx, cases, obs, report=True):
    bad = 0
    for c, o in zip(cases, obs):
        sig = case_sig(c)
        if report:
            plain = c["mode"] == "srv" and all(t in ("v1", "v2") for t in c["req"]["proto"]) and c["req"]["hasProto"]
            ctx.count(case_key=sig, nontrivial=not plain)
            if c["mode"] == "srv" and c["req"]["proto"] in (["v1_tab", "v3", "v2_sp"], ["v2", "v1"], ["V2", "v2x", "chat"]):
                ctx.sample({"case": sig, "header_bytes": header_bytes(c["req"]["proto"]).decode("latin-1"),
                            "expected": c["resp"], "observed": {k: o[k] for k in ("status", "protos", "srv_access_version",
                                                                                  "srv_notice_frame")}}, limit=3)
            if c["mode"] == "cli" and c["ans"]["proto"] == "v1" and c["ans"]["status"] == 101:
                ctx.sample({"case": sig, "expected": {"accepted": c["accepted"], "cliSpeaks": c["cliSpeaks"]},
                            "observed": {k: o[k] for k in ("cli_err", "cli_status_ok", "cli_health_ok", "client_offer")}}, limit=4)
        m = mismatch(c, o)
        if m:
            bad += 1
            if report:
                kind, want, got = m
                s = dict(sig)
                s["kind"] = kind
                ctx.report(s, "version negotiation deviates from the spec for %s: %s expected %s, got %s" % (sig, kind, want, got), c)
    return bad


def selftest(ctx, cases, obs):
    """Binding self-test: a flipped expectation / corrupted observation must be noticed."""
    def first(pred):
        for i, c in enumerate(cases):
            if pred(c):
                return i
        raise ToolError("self-test: no such case")
    n = 0
    i = first(lambda c: c["mode"] == "srv" and c["resp"]["status"] == 101 and c["resp"]["proto"] == "v2")
    c = copy.deepcopy(cases[i]); c["resp"]["proto"] = "v1"; c["srvSpeaks"] = "v1"
    n += judge(ctx, [c], [obs[i]], report=False)
    o = copy.deepcopy(obs[i]); o["srv_notice_frame"] = 11
    n += judge(ctx, [cases[i]], [o], report=False)
    o = copy.deepcopy(obs[i]); o["srv_access_version"] = "iroh-relay-v1"
    n += judge(ctx, [cases[i]], [o], report=False)
    i = first(lambda c: c["mode"] == "srv" and c["resp"]["status"] == 400 and c["req"]["hasProto"])
    c = copy.deepcopy(cases[i]); c["resp"]["status"] = 101; c["resp"]["hasProto"] = True; c["resp"]["proto"] = "v2"
    n += judge(ctx, [c], [obs[i]], report=False)
    i = first(lambda c: c["mode"] == "cli" and c["accepted"] and c["cliSpeaks"] == "v1")
    c = copy.deepcopy(cases[i]); c["cliSpeaks"] = "v2"
    n += judge(ctx, [c], [obs[i]], report=False)
    c = copy.deepcopy(cases[i]); c["accepted"] = False; c["cliErr"] = "version"
    n += judge(ctx, [c], [obs[i]], report=False)
    i = first(lambda c: c["mode"] == "cli" and not c["accepted"] and c["cliErr"] == "version")
    c = copy.deepcopy(cases[i]); c["accepted"] = True; c["cliSpeaks"] = "v2"
    n += judge(ctx, [c], [obs[i]], report=False)
    if n != 7:
        raise ToolError("binding self-test failed: only %d of 7 corrupted expectations/observations were rejected" % n)
    ctx.log("binding self-test: 7 corrupted expectations/observations all rejected")


# ---------------------------------------------------------------------------------------------------------
# Growth (thorough tier): the whole ClientBuilder::connect pipeline, specs/relay/RelayClientConnect.tla.
CONNECT_ANSWER = {"101v2": (101, b"iroh-relay-v2", False), "101v1": (101, b"iroh-relay-v1", False),
                  "101v3": (101, b"iroh-relay-v3", False), "101none": (101, None, False), "400": (400, None, False),
                  "close": (101, None, True)}
CONNECT_TOKEN = {"none": None, "valid": "tok-123_abc", "invalid": "bad\ntoken"}
CONNECT_CLASS = {"ok": ("",), "MissingCryptoProvider": ("nocrypto",), "Dial": ("dial",), "InvalidAuthToken": ("token",),
                 "Websocket": ("websocket", "status"), "BadVersionHeader": ("version",),
                 "HandshakeDenied": ("handshake-denied",), "HandshakeBroken": ("handshake",)}


def connect_pipeline(ctx, cases=None):
    """TLC enumerates client configuration x scripted relay; the real connect() must end in the model's error class and
    the relay must have seen what the model says.  A disagreement about whether an answer's version is accepted is a C11
    violation; any other disagreement means the pipeline model has drifted from the code (tool error, not a violation)."""
    if cases is None:
        res = ctx.tlc("relay", "RelayClientConnect", mode="gen", timeout=900,
                      require_actions=["MapUrl", "NeedTlsConfig", "Dial", "BuildRequest", "Upgrade", "CheckVersion", "Handshake",
                                       "Connected"])
        cases = res.replays
    inp = []
    for c in cases:
        status, proto, close = CONNECT_ANSWER[c["srv"]["answer"]]
        inp.append({"mode": "connect", "scheme": c["cfg"]["scheme"], "tls_config": c["cfg"]["tlsConfig"],
                    "token": CONNECT_TOKEN[c["cfg"]["token"]], "listen": c["srv"]["listen"], "status": status,
                    "proto": proto.hex() if proto is not None else None, "close": close, "hs": c["srv"]["hs"]})
    path = ctx.write_ndjson("c11-connect.in", inp)
    outp = ctx.path("c11-connect.out")
    ctx.run_bin("vh_relaynet", ["c11", "--in", path, "--out", outp], timeout=1500)
    obs = ctx.read_ndjson(outp)
    if len(obs) != len(cases):
        raise ToolError("harness returned %d observations for %d connect cases" % (len(obs), len(cases)))
    drift = []
    for c, o in zip(cases, obs):
        sig = {"mode": "connect", "cfg": "%s tls=%s token=%s" % (c["cfg"]["scheme"], c["cfg"]["tlsConfig"], c["cfg"]["token"]),
               "relay": "listen=%s answer=%s hs=%s" % (c["srv"]["listen"], c["srv"]["answer"], c["srv"]["hs"])}
        ctx.count(case_key=sig, nontrivial=True)
        reached_version = c["result"] in ("ok", "BadVersionHeader", "HandshakeDenied", "HandshakeBroken")
        got_version_verdict = o["cli_err"] in ("", "version", "handshake", "handshake-denied")
        if reached_version and got_version_verdict and (c["result"] == "BadVersionHeader") != (o["cli_err"] == "version"):
            s2 = dict(sig)
            s2["kind"] = "client-accept"
            ctx.report(s2, "connect() %s the relay's answer %s where the spec says %s (%s)"
                       % ("rejected" if o["cli_err"] == "version" else "accepted", c["srv"]["answer"], c["result"], o["cli_err_text"]),
                       dict(c, mode="connect"))
            continue
        seen = o["seen"]
        want_auth = [b"Bearer tok-123_abc".hex()] if c["seenAuth"] == "bearer" else []
        problems = []
        if o["cli_err"] not in CONNECT_CLASS[c["result"]]:
            problems.append("result %s, model %s (%s)" % (o["cli_err"] or "ok", c["result"], o["cli_err_text"]))
        if seen["conn"] != c["seenConn"] or seen["req"] != c["seenReq"]:
            problems.append("relay saw conn=%s req=%s, model conn=%s req=%s" % (seen["conn"], seen["req"], c["seenConn"], c["seenReq"]))
        if c["seenReq"] and seen["req"]:
            if seen["auth"] != want_auth:
                problems.append("Authorization %s, model %s" % (seen["auth"], c["seenAuth"]))
            if seen["request_line"] != "GET %s HTTP/1.1" % c["seenPath"]:
                problems.append("request line %r" % seen["request_line"])
            if seen["offer"] != [header_bytes(["v2", "v1_lsp"]).hex()]:
                problems.append("offer %s" % seen["offer"])
        if problems:
            drift.append("%s: %s" % (sig, "; ".join(problems)))
    if drift:
        raise ToolError("RelayClientConnect no longer describes ClientBuilder::connect (spec drift, not a C11 violation) in %d "
                        "case(s), e.g. %s" % (len(drift), drift[:3]))
    ctx.log("connect pipeline: %d cases conform" % len(cases))
