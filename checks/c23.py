"""C23 — Path pruning bounds stale paths without discarding live ones (DESIGN.md §6 C23, Appendix A.10).

Spec: specs/socket/PathPrune.tla (prune_non_relay_paths as a pure operator, the clauses of C23 stated
independently of it, the required rule and the pinned code's split_off rule behind `CodeRule`),
Gen_PathPrune.tla (case generator at the real thresholds 30/10), Judge_PathPrune.tla (evaluates the
clauses on observed (input, survivors) pairs).

Steps of one run
  1. TLC, scaled thresholds (6/2), every path-set shape up to the bound: the required rule satisfies all
     clauses; the as-written rule (CodeRule = TRUE) is refuted -> the clauses bite.
  2. TLC, real thresholds: boundary-value class counts x close-time patterns -> one case per initial
     state, clauses checked on the model again, REPLAY line with the path set and the predicted survivors.
  3. vh_remote c23 runs the real prune_non_relay_paths on every case (directly, and through a real
     RemotePathState + prune_paths()), addresses of all three non-relay kinds, shuffled insertion order.
  4. TLC (Judge_PathPrune) evaluates every clause on each observed (S, R).  A false clause is a violation;
     its signature says which clause and - for the inactive-kept clause - whether the result is exactly what
     the as-written split_off rule yields (`rule`), so that only that deviation matches the known finding.
     Cross-check: where the model's prediction is the only admissible result, "all clauses true" must
     coincide with "survivors == prediction" (otherwise the spec is inconsistent -> tool error).

Genuine defect found (open, cannot be repaired without editing the suite: test_prune_mixed_must_and_can_prune
asserts the deviating count): with >= 30 non-relay paths and k inactive ones the code keeps max(k-10, 0) of
the newest instead of min(k, 10); see known_findings.d/C23.json and proposed_fixes/C23.diff.

Self-tests run on 2026-09-22 (in a private snapshot copy of /repo built with the same harness sources, so that the
shared /repo did not have to be touched; patches in seeded/remote/):
  * proposed_fixes/C23.diff applied -> exit 0, 2048 cases, no KNOWN-FINDING line (and C22's consequence vanishes too);
  * mutation `PathStatus::Unusable | PathStatus::Unknown => failed.push(..)` (Unknown paths pruned, DESIGN §12)
    -> VIOLATION sig {kind: clause_false, clauses: livekept} (not absorbed by the known finding); reverted -> exit 0
    with only the KNOWN-FINDING line.
"""
import json

from vlib import ToolError

META = {
    "level": "model_checking",
    "engine": "remote-state",
    "technique": "TLA+ spec PathPrune checked by TLC (scaled thresholds, exhaustive); TLC-generated path sets at the real "
                 "thresholds executed on the real prune_non_relay_paths; TLC evaluates the property clauses on every "
                 "observed (input, survivors) pair (mode A)",
    "text": "TLC enumerates every path-set shape (counts of open / unknown / unusable / inactive / relay paths, close-time "
            "multisets) for thresholds 6/2 and checks the C23 clauses for the required pruning rule, and refutes the "
            "pinned code's split_off rule. At the real thresholds 30/10 TLC generates boundary-value path sets (totals "
            "around 29/30/31/60, inactive counts 0,1,9,10,11,19,20,21,30, equal close times); the real function is run "
            "on each, directly and through RemotePathState::prune_paths, and TLC judges every clause on the observed result.",
    "note": "Reading of the ambiguous clause: 'every path has failed' means every path in the set is a non-relay path with "
            "status Unusable (a set that also holds relay paths is not 'all failed'; then only: failed ones removed, relay "
            "paths kept, result non-empty). Equal close times may be broken either way. Which 30 survive in the all-failed "
            "case is not constrained.",
    "design_ref": "§6 C23, §7, A.10",
}

CLAUSES = ["subset", "livekept", "nonempty", "below", "failedgone", "inactkept", "allfailed"]


def gen_constants(ctx):
    if ctx.quick:
        return {"GOpen": "{0, 1, 15, 30}", "GUnknown": "{0, 14, 29}", "GFail": "{0, 1, 5, 30, 31}",
                "GInact": "{0, 1, 9, 10, 11, 20, 21, 30}", "GRelay": "{0, 2}",
                "GPat": '{"distinct", "equal", "pairs"}', "GMaxTotal": 64}
    return {"GOpen": "{0, 1, 15, 29, 30}", "GUnknown": "{0, 1, 14, 29, 30}", "GFail": "{0, 1, 5, 29, 30, 31, 40, 60}",
            "GInact": "{0, 1, 2, 9, 10, 11, 19, 20, 21, 30, 31}", "GRelay": "{0, 1, 2, 3}",
            "GPat": '{"distinct", "equal", "pairs", "triples"}', "GMaxTotal": 66}


def run(ctx):
    # 1. exhaustive, scaled
    mc = ctx.pick({"NLive": 2, "NFail": 7, "NInact": 5, "NRelay": 2}, {"NLive": 3, "NFail": 8, "NInact": 7, "NRelay": 3})
    ctx.tlc("socket", "PathPrune", cfg="PathPrune.cfg", constants=mc, timeout=1500, coverage=False)
    ctx.tlc("socket", "PathPrune", cfg="PathPrune_code.cfg", constants=mc, timeout=1500, coverage=False,
            expect_violation="C23")
    ctx.cov["as_written_rule_refuted_by_TLC"] = True

    # 2. cases at the real thresholds
    if ctx.replay:
        cases = [json.load(open(ctx.replay))["replay"]["case_input"]]
    else:
        gen = ctx.tlc("socket", "Gen_PathPrune", cfg="Gen_PathPrune.cfg", mode="gen", constants=gen_constants(ctx),
                      timeout=1500, coverage=False)
        cases = []
        for i, r in enumerate(gen.replays):
            for via in ("fn", "state"):
                if via == "state" and i % 3:          # every third case also through RemotePathState
                    continue
                cases.append({"case": len(cases) + 1, "via": via, "paths": sorted(r["paths"], key=lambda p: p["id"]),
                              "expect": sorted(r["expect"]), "unique": r["unique"], "trig": r["trig"],
                              "allfailed": r["allfailed"]})
        if not cases:
            raise ToolError("generator produced no cases")

    # 3. real code
    inp = ctx.write_ndjson("c23.in", [{"case": c["case"], "via": c["via"], "paths": c["paths"]} for c in cases])
    outp = ctx.path("c23.out")
    ctx.run_bin("vh_remote", ["c23", "--in", inp, "--out", outp])
    obs = ctx.read_ndjson(outp)
    if len(obs) != len(cases):
        raise ToolError("harness returned %d observations for %d cases" % (len(obs), len(cases)))
    if tuple(obs[0]["limits"]) != (30, 10):
        ctx.assume("thresholds of the build under test are %s (spec instantiated with 30/10)" % (obs[0]["limits"],))
        raise ToolError("MAX_NON_RELAY_PATHS / MAX_INACTIVE_NON_RELAY_PATHS changed to %s: re-instantiate the spec constants"
                        % (obs[0]["limits"],))

    # 4. TLC judges the clauses on the observations
    judged = [{"case": o["case"], "paths": o["paths"], "kept": o["kept"]} for o in obs if not o["panic"]]
    # binding self-test: corrupted copies of observations that satisfy every clause must be judged false
    corrupt = []
    if not ctx.replay:
        for o in obs:
            live = [p["id"] for p in o["paths"] if p["relay"] or p["st"] in ("open", "unknown")]
            if o["panic"] or not live or len(corrupt) >= ctx.pick(6, 60):
                continue
            c = next(c for c in cases if c["case"] == o["case"])
            if c["unique"] and sorted(o["kept"]) == sorted(c["expect"]):
                corrupt.append({"case": 1000000 + o["case"], "paths": o["paths"], "kept": [i for i in o["kept"] if i != live[0]],
                                "want": "livekept"})
                gone = [p["id"] for p in o["paths"] if p["id"] not in o["kept"]]
                if gone:
                    corrupt.append({"case": 2000000 + o["case"], "paths": o["paths"], "kept": o["kept"] + gone[:1],
                                    "want": "failedgone|inactkept|allfailed"})
    jin = ctx.write_ndjson("c23.judge", judged + [{k: v for k, v in c.items() if k != "want"} for c in corrupt])
    verdicts = {}
    if any(not o["panic"] for o in obs):
        jr = ctx.tlc("socket", "Judge_PathPrune", cfg="Judge_PathPrune.cfg", mode="gen", env={"TRACE": jin},
                     timeout=1500, coverage=False)
        verdicts = {v["case"]: v for v in jr.replays}
        for c in corrupt:
            v = verdicts.get(c["case"])
            if v is None or not any(not v[w] for w in c["want"].split("|")):
                raise ToolError("binding self-test: corrupted observation %d (expected clause %s to fail) was accepted: %s"
                                % (c["case"], c["want"], v))
        if corrupt:
            ctx.cov["binding_selftests"] = {"corrupted_observations": len(corrupt), "rejected": len(corrupt)}
    judge(ctx, cases, obs, verdicts)
    ctx.cov["rule"] = ("exhaustive over path-set shapes at thresholds 6/2 (model); at 30/10 the product of the boundary-value "
                       "count sets x close-time patterns (each case = one TLC initial state); a case is non-trivial when "
                       "pruning is triggered (>= 30 non-relay paths)")
    ctx.cov["exhaustive"] = False
    ctx.assume("ids are interchangeable: the function depends on addresses only through is_relay() and map identity "
               "(three non-relay address kinds and shuffled insertion orders are exercised)")


def judge(ctx, cases, obs, verdicts):
    for c, o in zip(cases, obs):
        key = [c["via"], len(c["paths"]), sum(1 for p in c["paths"] if p["st"] == "inactive" and not p["relay"]),
               sum(1 for p in c["paths"] if p["st"] == "unusable" and not p["relay"]),
               sum(1 for p in c["paths"] if p["relay"]), c["paths"][-1]["t"] if c["paths"] else 0, c["case"]]
        ctx.count(case_key=key, nontrivial=bool(c["trig"]))
        replay = {"case_input": c, "observed": {"kept": o["kept"], "panic": o["panic"]}}
        if o["panic"]:
            ctx.report({"kind": "panic", "via": c["via"]}, "prune_non_relay_paths panicked: %s" % o["panic"], replay)
            continue
        v = verdicts.get(c["case"])
        if v is None:
            raise ToolError("no verdict for case %s" % c["case"])
        failed = [cl for cl in CLAUSES if not v[cl]]
        if c["trig"] and c["unique"] and v["k"] > 10:
            ctx.sample({"case": c["case"], "via": c["via"], "non_relay": v["nonrelay"], "inactive": v["k"],
                        "kept_inactive_by_code": v["keptinact"], "model_keeps": sorted(set(c["expect"]))[:6] + ["..."],
                        "clauses_false": failed})
        if c["unique"] and (not failed) != (sorted(o["kept"]) == sorted(c["expect"])):
            raise ToolError("spec inconsistency on case %s: clauses say %s but survivors %s prediction"
                            % (c["case"], "ok" if not failed else failed,
                               "==" if sorted(o["kept"]) == sorted(c["expect"]) else "!="))
        if not failed:
            continue
        if "inactkept" in failed and set(failed) <= {"inactkept", "nonempty"} and (v["aswritten"] or failed == ["inactkept"]):
            # one deviation: the number of inactive paths kept.  `rule` tells whether the whole result is exactly what
            # the pinned split_off(len - 10) yields; if that leaves nothing (k <= 10, no live or relay path) the
            # non-empty clause falls with it.
            sig = {"kind": "inactive_kept_count",
                   "rule": "keeps_k_minus_10_newest" if v["aswritten"] else "other",
                   "emptied": "nonempty" in failed}
            what = ("with %d non-relay paths of which %d inactive, pruning kept %d inactive paths%s; C23 requires the min(k,10) = %d "
                    "most recently closed (%s)" % (v["nonrelay"], v["k"], v["keptinact"],
                                                    " and emptied the path set" if "nonempty" in failed else "",
                                                    min(v["k"], 10),
                                                    "result equals the split_off(len-10) rule" if v["aswritten"]
                                                    else "and the result is not what split_off(len-10) yields either"))
        else:
            sig = {"kind": "clause_false", "clauses": "+".join(failed), "via": c["via"]}
            what = ("pruning %d paths (%d non-relay) violates clause(s) %s: kept %d of them"
                    % (len(c["paths"]), v["nonrelay"], failed, len(o["kept"])))
        ctx.report(sig, what, replay)
