"""C02 — Key and address encodings round-trip and parse totally (DESIGN.md §6 C02).

Spec: specs/identity/Encodings.tla (decision tables: key strings by length x alphabet class x
trailing bits x point validity; key byte strings; CustomAddr inline/heap representation model;
CustomAddr binary / string forms; symbolic signature truth table; Enc x Type support matrix).
TLC enumerates all tables in one run (one initial state per abstract case), checks that the
mechanism written like the code agrees with the property's rule (MechanismIsRule, OnlyPoints,
AcceptRoundTrips, ReprIndependent, EncodersAccepted, ...) and prints every case with its expected
outcome.  A second, small TLC run with the inline threshold moved to 31 must be refuted
(ReprIndependent) - the anti-vacuity proof for the representation model.
Binding (mode A): harness/src/bin/vh_ident.rs `c02` concretises every case N times with seeded
random material (curve-point / non-point classes assigned with ed25519-dalek directly, strings
built to the exact byte length and alphabet class that the spec prints with the case) and pushes
it through iroh-base's public API under catch_unwind; verdict, decoded value, round trips and
every accessor / formatter are compared with what the spec determines.

Deviation from the design text: none in technique.  "either" verdicts are used where the
property does not decide (trailing bytes after a complete postcard value; upper-case / '+' /
leading-zero forms of a CustomAddr string) - an accepted value must still be the numeric one.

Mutation self-tests done while building (each gave VIOLATION, undo -> exit 0):
  * PublicKey::from_bytes without the curve check -> "accepted public key is a curve point" /
    verdict mismatches in keystr + keybytes non-point classes;
  * CustomAddrBytes inline threshold `<= 31` -> panic (slice index) at payload length 31 in caddr,
    caddrbin, caddrstr and matrix cases;
  * PublicKey::verify using `verify` instead of `verify_strict` -> the small-order-key /
    identity-signature case of the sig table verifies.
"""
import json

from vlib import ToolError

META = {
    "level": "model_checking",
    "engine": "identity",
    "technique": "TLA+ decision tables (Encodings) enumerated and cross-checked by TLC; every abstract case concretised "
                 "N times with seeded random material and executed on iroh-base's public API (mode A)",
    "text": "TLC enumerates the parse/format decision tables (key strings: length x alphabet class x trailing bits x "
            "curve-point validity; key byte strings; CustomAddr construction routes x payload length across the inline/heap "
            "boundary x id class; CustomAddr binary and text forms; symbolic signature truth table; Enc x Type support "
            "matrix), proves on the model that the code's decision mechanism equals the stated rule and that accepted "
            "values re-encode to accepted strings, and emits each case with its expected outcome; the harness builds N "
            "concrete inputs per case and compares PublicKey/SecretKey/Signature/CustomAddr/EndpointAddr/RelayUrl "
            "parsers, serde (postcard, JSON), z-base-32, Display/FromStr, accessors and sign/verify with it, panics "
            "being violations.",
    "note": "The TLA+ part decides the rules (length dispatch, alphabets, canonical trailing bits, curve-point requirement, "
            "independence from the inline/heap representation, signature truth table); byte-level fidelity of the hex / "
            "base32 / postcard / JSON transformations over all 2^256 inputs is only *sampled* by the N concretisations per "
            "abstract case (DESIGN §9), not decided exhaustively.  Curve-point classes are assigned with ed25519-dalek "
            "directly.  Verdicts the statement does not determine (trailing bytes after a complete postcard value, "
            "non-canonical CustomAddr text forms) are 'either'; a small-order public key with the identity signature is "
            "read as covered by 'fails for any other message or key' (verify_strict anchor).",
    "design_ref": "§6 C02",
}

TABLES = ["keystr", "keybytes", "caddr", "caddrbin", "caddrstr", "sig", "matrix"]
CONSTS = {"InlineCap": 30, "Threshold": 30}


def case_key(c):
    return {k: v for k, v in c.items() if k not in ("idx", "may", "must")}


def nontrivial(c):
    t = c["tbl"]
    if t in ("keystr", "keybytes"):
        return c["accept"] not in (False, "no") or c.get("mat") in ("point", "nonpoint") or c["len"] in (52, 64, 32)
    return True


def sig_of(c, f):
    what = f["what"]
    if what != "panic":
        what = what.split(" (")[0]
    s = {"tbl": c["tbl"], "what": what}
    for k in ("dec", "alpha", "len", "mat", "route", "n", "type", "enc", "tamper"):
        if k in c:
            s[k] = c[k]
    s["exp"] = f["exp"] if len(f["exp"]) < 24 else "value"
    return s


def run_cases(ctx, cases, n, tag):
    inp = ctx.write_ndjson("c02-%s.in" % tag, cases)
    outp = ctx.path("c02-%s.out" % tag)
    ctx.run_bin("vh_ident", ["c02", "--in", inp, "--out", outp, "--n", n])
    obs = ctx.read_ndjson(outp)
    if len(obs) != len(cases):
        raise ToolError("harness returned %d observations for %d cases" % (len(obs), len(cases)))
    per_tbl = {}
    for c, o in zip(cases, obs):
        if o["idx"] != c["idx"]:
            raise ToolError("observation order mismatch at idx %s" % c["idx"])
        ctx.count(case_key(c), nontrivial=nontrivial(c), n=o["runs"])
        per_tbl[c["tbl"]] = per_tbl.get(c["tbl"], 0) + o["runs"]
        for f in o["fails"]:
            ctx.report(sig_of(c, f),
                       "%s case %s, concretisation %d: %s: spec says %s, implementation gave %s (input %s)"
                       % (c["tbl"], json.dumps(case_key(c), sort_keys=True), f["rep"], f["what"], f["exp"], f["got"],
                          f["input"]),
                       {"case": c, "n": n, "rep": f["rep"], "fail": f})
            break
    return per_tbl


def run(ctx):
    if ctx.replay:
        rep = json.load(open(ctx.replay))["replay"]
        run_cases(ctx, [rep["case"]], rep["n"], "replay")
        return
    # 1. all tables in one TLC run (JVM start dominates); the model's own consistency is checked here
    res = ctx.tlc("identity", "Encodings", mode="gen", constants=dict(CONSTS, Table='"all"'), timeout=900,
                  require_actions=["Stutter"])
    cases = res.replays
    tbls = sorted(set(c["tbl"] for c in cases))
    if tbls != sorted(TABLES):
        raise ToolError("tables emitted by TLC: %s, expected %s" % (tbls, TABLES))
    # 2. anti-vacuity: the representation model with the cutoff above the buffer must be refuted
    ctx.tlc("identity", "Encodings", mode="mc", workers=1, constants={"InlineCap": 30, "Threshold": 31, "Table": '"caddr"'},
            timeout=600, coverage=False, expect_violation="ReprIndependent")
    cases.sort(key=lambda c: json.dumps(case_key(c), sort_keys=True))
    for i, c in enumerate(cases):
        c["idx"] = i
    n = ctx.pick(8, 200)
    per_tbl = run_cases(ctx, cases, n, "all")
    ctx.log("concretisations per table: %s" % per_tbl)
    for c in cases:
        if (c["tbl"] == "keystr" and c["accept"] and c["alpha"] == "b32Mixed") or \
           (c["tbl"] == "keystr" and c["len"] == 52 and not c["canon"] and c["dec"] == "pk_fromstr" and c["alpha"] == "b32Lower"
            and c["mat"] == "point") or \
           (c["tbl"] == "caddr" and c["n"] == 31 and c["route"] == "postcard" and c["idc"] == "max") or \
           (c["tbl"] == "sig" and c["tamper"] == "sPlusL" and c["pk"] == c["sk"] and c["msg"] == c["m"]):
            ctx.sample(case_key(c), limit=6)
    ctx.cov["rule"] = ("every row of the seven decision tables of Encodings.tla (enumerated exhaustively by TLC), each "
                       "concretised %d times with seeded random material; a key-string / key-bytes case is non-trivial when it "
                       "carries key material, is accepted, or sits at a length that passes the length checks" % n)
    ctx.cov["exhaustive"] = True
    ctx.cov["concretisations_per_table"] = per_tbl
    ctx.assume("Ed25519 point validity as decided by ed25519-dalek's VerifyingKey::from_bytes is the reference classification")
    ctx.assume("byte-level transformations are sampled (N concretisations per abstract case), not enumerated")
