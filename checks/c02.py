"""C02 — Key and address encodings round-trip and parse totally (DESIGN.md §6 C02).

Spec: specs/identity/Encodings.tla (decision tables: key strings by length x alphabet class x
trailing bits x point validity; key byte strings; CustomAddr inline/heap representation model;
CustomAddr binary / string forms; symbolic signature truth table; Enc x Type support matrix;
postcard wire layout with the truncate / flip-one-bit / extend mutation layer per field).
TLC enumerates all tables in one run (one initial state per abstract case), checks that the
mechanism written like the code agrees with the property's rule (MechanismIsRule, OnlyPoints,
AcceptRoundTrips, ReprIndependent, EncodersAccepted, ...) and prints every case with its expected
outcome.  A second, small TLC run with the inline threshold moved to 31 must be refuted
(ReprIndependent) - the anti-vacuity proof for the representation model.
Binding (mode A): harness/src/bin/vh_ident.rs `c02` concretises every case N times with seeded
random material (curve-point / non-point classes assigned with ed25519-dalek directly, strings
built to the exact byte length and alphabet class that the spec prints with the case) and pushes
it through iroh-base's public API under catch_unwind; verdict, decoded value, round trips and
every accessor / formatter are compared with what the spec determines.

Deviation from the design text: none in technique.  "either" verdicts are used where the
property does not decide (trailing bytes after a complete postcard value; upper-case / '+' /
leading-zero forms of a CustomAddr string) - an accepted value must still be the numeric one.

Growth: specs/identity/AddrSet.tla models EndpointAddr as a set built by from_parts / with_relay_url /
with_ip_addr / with_addrs (one action per builder call; invariants SetIsUnion, Monotone,
ViewsPartition); every behaviour up to MaxSteps is replayed on the real type (`vh_ident c02a`), the
views compared after every call, and the final value rebuilt from the expected set in shuffled order
with duplicates must be equal, hash equally and have the same postcard / JSON encoding.

Binding self-test (every run): one expectation is flipped in ~80 cases spread over the tables and the
harness must report every one of them as a mismatch, otherwise the run is a tool error.

Mutation self-tests done while building (each gave VIOLATION and exit 1, the unmutated tree exit 0;
run in a private copy of /repo + /verif under /var/tmp/ident-mut instead of the shared /repo, because
a harness rebuild took 5-25 minutes on the loaded machine and eleven other builders compile against
/repo - a mutated iroh-base there would have leaked into their checks):
  * PublicKey::from_bytes without the curve check -> "accepted public key is a curve point" /
    verdict mismatches in keystr + keybytes non-point classes;
  * CustomAddrBytes inline threshold `<= 31` -> panic (slice index) at payload length 31 in caddr,
    caddrbin, caddrstr and matrix cases;
  * PublicKey::verify using `verify` instead of `verify_strict` -> the small-order-key /
    identity-signature case of the sig table verifies.
"""
import json

from vlib import ToolError

META = {
    "level": "model_checking",
    "engine": "identity",
    "technique": "TLA+ decision tables (Encodings) enumerated and cross-checked by TLC; every abstract case concretised "
                 "N times with seeded random material and executed on iroh-base's public API (mode A)",
    "text": "TLC enumerates the parse/format decision tables (key strings: length x alphabet class x trailing bits x "
            "curve-point validity; key byte strings; CustomAddr construction routes x payload length across the inline/heap "
            "boundary x id class; CustomAddr binary and text forms; symbolic signature truth table; Enc x Type support "
            "matrix), proves on the model that the code's decision mechanism equals the stated rule and that accepted "
            "values re-encode to accepted strings, and emits each case with its expected outcome; the harness builds N "
            "concrete inputs per case and compares PublicKey/SecretKey/Signature/CustomAddr/EndpointAddr/RelayUrl "
            "parsers, serde (postcard, JSON), z-base-32, Display/FromStr, accessors and sign/verify with it, panics "
            "being violations.",
    "note": "The TLA+ part decides the rules (length dispatch, alphabets, canonical trailing bits, curve-point requirement, "
            "independence from the inline/heap representation, signature truth table); byte-level fidelity of the hex / "
            "base32 / postcard / JSON transformations over all 2^256 inputs is only *sampled* by the N concretisations per "
            "abstract case (DESIGN §9), not decided exhaustively.  Curve-point classes are assigned with ed25519-dalek "
            "directly.  Verdicts the statement does not determine (trailing bytes after a complete postcard value, "
            "non-canonical CustomAddr text forms) are 'either'; a small-order public key with the identity signature is "
            "read as covered by 'fails for any other message or key' (verify_strict anchor).",
    "design_ref": "§6 C02",
}

TABLES = ["keystr", "keybytes", "caddr", "caddrbin", "caddrstr", "sig", "matrix", "layout"]
CONSTS = {"InlineCap": 30, "Threshold": 30}


def case_key(c):
    return {k: v for k, v in c.items() if k not in ("idx", "may", "must")}


def nontrivial(c):
    t = c["tbl"]
    if t in ("keystr", "keybytes"):
        return c["accept"] not in (False, "no") or c.get("mat") in ("point", "nonpoint") or c["len"] in (52, 64, 32)
    return True


def sig_of(c, f):
    what = f["what"]
    if what != "panic":
        what = what.split(" (")[0]
    s = {"tbl": c["tbl"], "what": what}
    for k in ("dec", "alpha", "len", "mat", "route", "n", "type", "enc", "tamper", "fname", "mut"):
        if k in c:
            s[k] = c[k]
    s["exp"] = f["exp"] if len(f["exp"]) < 24 else "value"
    return s


def run_cases(ctx, cases, n, tag):
    inp = ctx.write_ndjson("c02-%s.in" % tag, cases)
    outp = ctx.path("c02-%s.out" % tag)
    ctx.run_bin("vh_ident", ["c02", "--in", inp, "--out", outp, "--n", n])
    obs = ctx.read_ndjson(outp)
    if len(obs) != len(cases):
        raise ToolError("harness returned %d observations for %d cases" % (len(obs), len(cases)))
    per_tbl = {}
    for c, o in zip(cases, obs):
        if o["idx"] != c["idx"]:
            raise ToolError("observation order mismatch at idx %s" % c["idx"])
        ctx.count(case_key(c), nontrivial=nontrivial(c), n=o["runs"])
        per_tbl[c["tbl"]] = per_tbl.get(c["tbl"], 0) + o["runs"]
        for f in o["fails"]:
            if f["what"].startswith("harness-assumption"):
                raise ToolError("harness could not concretise %s: %s %s" % (json.dumps(case_key(c)), f["got"], f["exp"]))
            ctx.report(sig_of(c, f),
                       "%s case %s, concretisation %d: %s: spec says %s, implementation gave %s (input %s)"
                       % (c["tbl"], json.dumps(case_key(c), sort_keys=True), f["rep"], f["what"], f["exp"], f["got"],
                          f["input"]),
                       {"case": c, "n": n, "rep": f["rep"], "fail": f})
            break
    return per_tbl


def flip(c):
    """One expectation of the case turned around (binding self-test): the harness must object."""
    c = dict(c)
    t = c["tbl"]
    if t in ("keystr", "caddrbin"):
        c["accept"] = not c["accept"]
    elif t in ("keybytes", "caddrstr"):
        if c["accept"] == "either":
            return None
        c["accept"] = "no" if c["accept"] == "yes" else "yes"
    elif t == "caddr":
        c["data_len"] += 1
    elif t == "sig":
        if c["pk"] == "weak":
            return None
        c["ok"] = not c["ok"]
    elif t == "matrix":
        if c["out"]["alpha"] == "":
            return None
        c["out"] = dict(c["out"], len=c["out"]["len"] - 1)
    elif t == "layout":
        if c["verdict"] not in ("yes", "no"):
            return None
        c["verdict"] = "no" if c["verdict"] == "yes" else "yes"
    return c


def binding_selftest(ctx, cases):
    """Flip one expectation in a spread of cases: every flipped case must come back as a mismatch."""
    flipped = []
    per = {}
    for c in cases:
        f = flip(c)
        if f is None or per.get(c["tbl"], 0) >= 12:
            continue
        if c["tbl"] == "keystr" and not (c["len"] in (52, 64) and c["mat"] != "na"):
            continue
        per[c["tbl"]] = per.get(c["tbl"], 0) + 1
        flipped.append(f)
    inp = ctx.write_ndjson("c02-selftest.in", flipped)
    outp = ctx.path("c02-selftest.out")
    ctx.run_bin("vh_ident", ["c02", "--in", inp, "--out", outp, "--n", 4])
    obs = ctx.read_ndjson(outp)
    missed = [case_key(c) for c, o in zip(flipped, obs) if o["ok"]]
    if len(obs) != len(flipped) or missed:
        raise ToolError("binding self-test: %d flipped expectations were not detected, e.g. %s" % (len(missed), missed[:3]))
    ctx.log("binding self-test: %d flipped expectations, all detected (%s)" % (len(flipped), per))
    ctx.cov["binding_selftest_flips_detected"] = len(flipped)


def run(ctx):
    if ctx.replay:
        rep = json.load(open(ctx.replay))["replay"]
        if "addrset" in rep:
            inp = ctx.write_ndjson("c02a-replay.in", [rep["addrset"]])
            outp = ctx.path("c02a-replay.out")
            ctx.run_bin("vh_ident", ["c02a", "--in", inp, "--out", outp, "--n", rep["n"]])
            for o in ctx.read_ndjson(outp):
                for f in o["fails"]:
                    ctx.report({"tbl": "addrset", "what": f["what"]}, "%s: spec says %s, implementation gave %s" % (f["what"], f["exp"], f["got"]), rep)
            return
        run_cases(ctx, [rep["case"]], rep["n"], "replay")
        return
    # 1. all tables in one TLC run (JVM start dominates); the model's own consistency is checked here
    res = ctx.tlc("identity", "Encodings", mode="gen", constants=dict(CONSTS, Table='"all"'), timeout=900,
                  require_actions=["Stutter"])
    cases = res.replays
    tbls = sorted(set(c["tbl"] for c in cases))
    if tbls != sorted(TABLES):
        raise ToolError("tables emitted by TLC: %s, expected %s" % (tbls, TABLES))
    # 2. anti-vacuity: the representation model with the cutoff above the buffer must be refuted
    ctx.tlc("identity", "Encodings", mode="mc", workers=1, constants={"InlineCap": 30, "Threshold": 31, "Table": '"caddr"'},
            timeout=600, coverage=False, expect_violation="ReprIndependent")
    cases.sort(key=lambda c: json.dumps(case_key(c), sort_keys=True))
    for i, c in enumerate(cases):
        c["idx"] = i
    n = ctx.pick(8, 200)
    per_tbl = run_cases(ctx, cases, n, "all")
    binding_selftest(ctx, cases)
    ctx.log("concretisations per table: %s" % per_tbl)
    # growth: EndpointAddr builder algebra (AddrSet.tla), every behaviour replayed on the real type
    ares = ctx.tlc("identity", "AddrSet", mode="gen", constants={"MaxSteps": ctx.pick(2, 3)}, timeout=900,
                   require_actions=["FromParts", "WithRelay", "WithIp", "WithAddrs"])
    beh = ares.replays
    beh.sort(key=lambda b: json.dumps(b, sort_keys=True))
    for i, b in enumerate(beh):
        b["idx"] = i
    ainp = ctx.write_ndjson("c02a.in", beh)
    aoutp = ctx.path("c02a.out")
    ctx.run_bin("vh_ident", ["c02a", "--in", ainp, "--out", aoutp, "--n", ctx.pick(2, 4)])
    aobs = ctx.read_ndjson(aoutp)
    if len(aobs) != len(beh):
        raise ToolError("harness returned %d observations for %d AddrSet behaviours" % (len(aobs), len(beh)))
    for b, o in zip(beh, aobs):
        word = [[st["op"], st["args"]] for st in b["steps"]]
        ctx.count({"addrset": word}, nontrivial=any(st["args"] for st in b["steps"]), n=o["runs"])
        for f in o["fails"]:
            if f["what"].startswith("harness-assumption"):
                raise ToolError("harness could not replay %s: %s" % (word, f["got"]))
            ctx.report({"tbl": "addrset", "what": f["what"].split(" after step")[0], "ops": "+".join(st["op"] for st in b["steps"])},
                       "EndpointAddr behaviour %s, concretisation %d: %s: spec says %s, implementation gave %s"
                       % (word, f["rep"], f["what"], f["exp"], f["got"]), {"addrset": b, "n": 2, "fail": f})
            break
    per_tbl["addrset"] = sum(o["runs"] for o in aobs)
    flipped = [dict(b, steps=b["steps"][:-1] + [dict(b["steps"][-1], view=dict(b["steps"][-1]["view"], empty=not b["steps"][-1]["view"]["empty"]))])
               for b in beh[:: max(1, len(beh) // 10)]]
    finp = ctx.write_ndjson("c02a-selftest.in", flipped)
    foutp = ctx.path("c02a-selftest.out")
    ctx.run_bin("vh_ident", ["c02a", "--in", finp, "--out", foutp, "--n", 1])
    if any(o["ok"] for o in ctx.read_ndjson(foutp)):
        raise ToolError("binding self-test: a flipped AddrSet expectation was not detected")
    ctx.cov["binding_selftest_flips_detected"] += len(flipped)
    for c in cases:
        if (c["tbl"] == "keystr" and c["accept"] and c["alpha"] == "b32Mixed") or \
           (c["tbl"] == "keystr" and c["len"] == 52 and not c["canon"] and c["dec"] == "pk_fromstr" and c["alpha"] == "b32Lower"
            and c["mat"] == "point") or \
           (c["tbl"] == "caddr" and c["n"] == 31 and c["route"] == "postcard" and c["idc"] == "max") or \
           (c["tbl"] == "sig" and c["tamper"] == "sPlusL" and c["pk"] == c["sk"] and c["msg"] == c["m"]) or \
           (c["tbl"] == "layout" and c["type"] == "eaddr" and c["mut"] == "flip" and c["fname"] == "key32"):
            ctx.sample(case_key(c), limit=7)
    ctx.cov["rule"] = ("every row of the eight decision tables of Encodings.tla (enumerated exhaustively by TLC), each "
                       "concretised %d times with seeded random material; a key-string / key-bytes case is non-trivial when it "
                       "carries key material, is accepted, or sits at a length that passes the length checks" % n)
    ctx.cov["exhaustive"] = True
    ctx.cov["concretisations_per_table"] = per_tbl
    ctx.assume("Ed25519 point validity as decided by ed25519-dalek's VerifyingKey::from_bytes is the reference classification")
    ctx.assume("byte-level transformations are sampled (N concretisations per abstract case), not enumerated")
