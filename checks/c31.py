"""C31 — Publishing and resolving endpoint info preserves it (DESIGN.md §6 C31).

Spec: specs/dns/EndpointInfo.tla (+ MC_EndpointInfo.tla).  TLC checks on the model that the
publish -> wire -> resolve pipeline is the identity on the address set and the user data
(`RoundTrip`, with the algebraic core `ParseInvertsFormat`: splitting at the FIRST "="
inverts `key=value` formatting for every value), and refutes the code-as-written variant
(`SplitOnce = FALSE`, i.e. `s.split('=')` keeping only the second piece).  Every finished
behaviour of the model (one per abstract endpoint info and publishing path, plus foreign TXT
lists) is printed with the TXT strings, the packet size verdict and the info the spec
expects back; this module turns the abstract strings into concrete ones run by run
(homomorphically, seeded) and `vh_lookup c31` executes them on the public API
`EndpointInfo::{to_pkarr_signed_packet, from_pkarr_signed_packet, to_txt_strings,
from_txt_lookup}` (packet path also re-read through `SignedPacket::from_bytes`), and on the
production DNS path: signed packet -> `SignedPacket::from_bytes` -> the packet's DNS message
decoded with hickory (as iroh-dns-server does) -> every TXT answer wrapped in
`dns::TxtRecordData` (as `HickoryResolver::lookup_txt` does) -> `from_txt_lookup`.  The spec
makes the character-string structure of a TXT record explicit (`wire`); the required design
writes each attribute string as ONE character-string, a publisher cutting at 254 bytes is
refuted on RoundTrip (a 2-byte character straddling the cut is lost on the DNS path).

Decision: whenever the code published something (whether or not the size model agrees that it
fits), a resolved info whose endpoint id, address *set* or user data differs from the
published info, a failing resolve, or a panic, is a violation — on any of the three paths.
Differences in things the property does not fix (TXT string spelling, address order, packet
length, character-string layout, which oversized infos are refused, parser verdicts on
foreign strings) are collected and reported as NONCONFORMANCE (exit 2) only if every round
trip of the run was the identity.

Genuine defect found by this check on the pinned tree: values containing "=" come back
truncated (`user-data=a=b=c` -> `a`; relay URL `https://h./?k=v` -> `https://h./?k`),
known finding C31_value_truncated_at_eq, proposed fix proposed_fixes/C31.diff (split_once).

Mutation self-test (2026-09-22): in `endpoint_info_from_attrs` the relay attribute was parsed
with a stricter rule (`.filter(|u: &Url| u.query().is_none())`, DESIGN §12 C31) -> VIOLATION
(sig field=addrs wrong=missing for the query-string relay URLs), undone -> exit 0.
Seeded changes (2026-09-22): seeded/_incoming/C31/patch.diff (split('=') through a helper) and
patch2.diff (TXT::try_from: 254-byte character-strings) -> VIOLATION (see seeded/selftest/lookup/README).
"""
import json
import random

from vlib import ToolError

META = {
    "level": "model_checking",
    "engine": "dns-endpoint-info",
    "technique": "TLA+ spec EndpointInfo (strings as runs over a small alphabet incl. '=') checked by TLC; every finished "
                 "model behaviour concretised and replayed on the public EndpointInfo conversion API (mode A)",
    "text": "TLC enumerates endpoint infos (address lists of every kind incl. relay URLs with query strings, IPv4/IPv6, custom "
            "addresses at the inline/heap and TXT-size boundaries, duplicates, up to 8 addresses; user data from every "
            "pattern of <= 3 runs over {plain, '=', space, comma, quote, newline, 2-byte char} stretched to 244/245/246 "
            "bytes; optionally through the relay_only / ip_only address filters), publishes each as signed packet and as TXT "
            "strings, resolves it, and checks that the same address set "
            "and user data come back (and that the as-written split('=') variant does not).  Each behaviour is executed on "
            "the real API and the resolved id, address set and user data must equal the model's.",
    "note": "Weak reading: 'encodes successfully' = the constructors and to_pkarr_signed_packet return Ok; address order, TXT "
            "spelling and packet length are compared too but a difference there is reported as non-conformance (exit 2), not "
            "as a violation.  IPv6 flow info / scope ids are not generated.  Address texts are assumed to round-trip "
            "(Display/FromStr, C02); the harness rejects non-canonical concretisations.",
    "design_ref": "§6 C31",
}

PLAIN = "abcdefghijklmnopqrstuvwxyzABCDEFGHIJKLMNOPQRSTUVWXYZ0123456789-_.:/"
LOWER = "abcdefghijklmnopqrstuvwxyz"
LOWNUM = LOWER + "0123456789"
HEX = "0123456789abcdef"
TWO = "üéßñ"
CUSTOM_DATA = {"empty": 0, "inline30": 30, "heap31": 31, "big1": 100, "big2": 100, "big3": 100, "big4": 100,
               "max124": 124, "over125": 125}


def rs(rng, alphabet, n):
    return "".join(rng.choice(alphabet) for _ in range(n))


def conc_run(rng, run):
    c, n = run["c"], run["n"]
    if c == "a":
        return rs(rng, PLAIN, n)
    if c == "=":
        return "="
    if c == "sp":
        return " "
    if c == "cm":
        return ","
    if c == "dq":
        return '"'
    if c == "nl":
        return "\n"
    if c == "u":
        return rng.choice(TWO)
    return c          # a key name


def conc_string(rng, runs):
    return "".join(conc_run(rng, r) for r in runs)


def conc_addr(rng, a):
    """Concrete canonical text of an abstract address with exactly the run lengths of its form."""
    tag, form = a["tag"], a["form"]
    n = [r["n"] for r in form]
    if tag in ("plain", "query1", "query2"):
        fixed = 10 if tag == "plain" else 12
        host = rng.choice(LOWER) + rs(rng, LOWNUM, n[0] - fixed - 1)
        if tag == "plain":
            return "https://%s./" % host
        if tag == "query1":
            return "https://%s./?k=%s" % (host, rs(rng, LOWNUM, n[2]))
        return "https://%s./?k=%s&%s=%s" % (host, rs(rng, LOWNUM, 1), rs(rng, LOWER, n[2] - 2), rs(rng, LOWNUM, n[4]))
    if tag == "v4":
        assert n[0] == 14
        return "1%d.%d.%d.%d:%d" % (rng.randrange(10), rng.randrange(1, 10), rng.randrange(1, 10), rng.randrange(1, 10),
                                   rng.randrange(10000, 65536))
    if tag == "v6":
        assert n[0] == 22
        return "[2001:db8::%s%s]:%d" % (rng.choice(HEX[1:]), rs(rng, HEX, 3), rng.randrange(10000, 65536))
    if tag in CUSTOM_DATA:
        dl = CUSTOM_DATA[tag]
        idd = n[0] - 1 - 2 * dl
        ident = "0" if tag == "empty" else rng.choice(HEX[1:]) + rs(rng, HEX, idd - 1)
        assert len(ident) == idd, (tag, n)
        return "%s_%s" % (ident, rs(rng, HEX, 2 * dl))
    raise ToolError("no concretisation for address tag %r" % tag)


def key_of(a):
    return json.dumps([a["kind"], a["tag"], a["form"]], sort_keys=True)


def concretise(ctx, idx, b):
    """TLC behaviour -> harness case + concrete expectation."""
    rng = random.Random(ctx.seed * 1000003 + idx)
    secret = "".join("%02x" % rng.randrange(256) for _ in range(32))
    amap = {}

    def addr(a):
        k = key_of(a)
        if k not in amap:
            amap[k] = {"kind": a["kind"], "s": conc_addr(rng, a)}
        return amap[k]

    addrs = [addr(a) for a in b["addrs"]]
    ud = conc_string(rng, b["ud"]["s"]) if b["ud"]["some"] else None
    out = b["out"]
    exp_addrs = [addr(a) for a in out["addrs"]]

    def txt_string(runs):
        # key "=" value: a value that is the text of an address of this case is that address
        for a in list(b["addrs"]) + list(out["addrs"]):
            if len(runs) >= 2 and runs[1]["c"] == "=" and runs[2:] == a["form"] and \
                    runs[0]["c"] == ("relay" if a["kind"] == "relay" else "addr"):
                return runs[0]["c"] + "=" + addr(a)["s"]
        if b["ud"]["some"] and len(runs) >= 2 and runs[0]["c"] == "user-data" and runs[2:] == b["ud"]["s"]:
            return "user-data=" + ud
        return conc_string(rng, runs)

    txt = [txt_string(t) for t in b["txt"]]
    if out["ud"]["some"]:
        if b["ud"]["some"] and out["ud"]["s"] == b["ud"]["s"]:
            exp_ud = ud
        elif b["via"] == "foreign":
            exp_ud = None
            for t, s in zip(b["txt"], txt):
                if t[0]["c"] == "user-data" and t[2:] == out["ud"]["s"]:
                    exp_ud = s[len("user-data="):]
                    break
            if exp_ud is None:
                raise ToolError("cannot map expected user data of foreign case %d" % idx)
        else:
            raise ToolError("model expects user data that is not the published one in case %d" % idx)
    else:
        exp_ud = None
    case = {"case": idx, "via": b["via"], "secret": secret, "addrs": addrs, "ud": ud, "filter": b.get("filter", "none"),
            "txt": txt if b["via"] == "foreign" else []}
    info = b.get("info") or {"addrs": out["addrs"], "ud": out["ud"]}
    exp = {"st": out["st"], "why": out["why"], "addrs": exp_addrs, "ud": exp_ud, "txt": txt, "pktlen": b["pktlen"],
           # the published info: what the property says must come back through every path
           "info_addrs": [addr(a) for a in info["addrs"]] if b["via"] != "foreign" else [],
           "info_ud": ud if (info["ud"]["some"] and b["via"] != "foreign") else None,
           "cs": b.get("cs", [])}
    return case, exp


def has_eq(b):
    """Input class: some published value (the part after `key=`) contains "="."""
    return any(r["c"] == "=" for t in b["txt"] for r in t[2:])


def trunc(s):
    return s.split("=")[0]


def judge(ctx, b, case, exp, o):
    """Compares one observation with the model's expectation."""
    abstract = {"via": b["via"], "addrs": [a["tag"] for a in b["addrs"]], "filter": b.get("filter", "none"),
                "ud": [[r["c"], r["n"]] for r in b["ud"]["s"]] if b["ud"]["some"] else None,
                "txt": [[[r["c"], r["n"]] for r in t] for t in b["txt"]] if b["via"] == "foreign" else None}
    ctx.count(case_key=abstract, nontrivial=bool(b["addrs"] or b["ud"]["some"] or b["via"] == "foreign"))
    replay = {"behaviour": b, "case": case, "expected": exp, "observed": o}
    inp = "value_with_eq" if has_eq(b) else "no_eq"

    def drift(what):
        # non-conformance is decided at the end of the run: it stands only if no round trip was broken
        ctx.drifts.append("NONCONFORMANCE (not a property violation) in case %d (%s): %s\n  case: %s\n  observed: %s"
                          % (case["case"], b["via"], what, json.dumps(case)[:600], json.dumps(o)[:600]))

    if o["new"] == "panic":
        ctx.report({"input": inp, "field": "panic", "wrong": "panic", "via": b["via"]},
                   "panic while publishing/resolving: %s" % o["detail"][:200], replay)
        return
    if o["new"] == "bad_addr":
        raise ToolError("concretiser produced an unusable address in case %d: %s" % (case["case"], o["detail"]))
    if exp["st"] == "invalid":
        if o["new"] != "invalid_userdata":
            drift("model: user data over the length limit is refused; code accepted it")
        return
    if o["new"] != "ok":
        drift("model: constructors succeed; code: %s" % o["new"])
        return
    if b["via"] == "foreign":
        want = "ok" if exp["st"] == "ok" else exp["why"]
        if o["st"] != want:
            drift("foreign TXT list: model verdict %s, code %s" % (want, o["st"]))
        elif want == "ok" and (o["addrs"] != exp["addrs"] or o["ud"] != exp["ud"]):
            drift("foreign TXT list: model yields %s / %r, code %s / %r" % (exp["addrs"], exp["ud"], o["addrs"], o["ud"]))
        return
    # ---- the property first: whatever the code managed to publish must come back unchanged, through every
    # path, whether or not the size model agrees that it could be published
    resolved = o["st"] != "n/a"
    if resolved:
        sig = {"input": inp, "via": b["via"]}
        if o["st"] != "ok":
            ctx.report(dict(sig, field="status", wrong=o["st"]),
                       "resolving a published info failed with %s %s" % (o["st"], o.get("detail", "")), replay)
            return
        if not o["id_ok"]:
            ctx.report(dict(sig, field="id", wrong="other"), "resolved endpoint id differs from the publisher's", replay)
            return
        if not o["bytes_same"]:
            ctx.report(dict(sig, field="bytes", wrong="other"),
                       "the packet re-read from its bytes resolves differently from the packet itself", replay)
            return
        es = {(a["kind"], a["s"]) for a in exp["info_addrs"]}
        got = {(a["kind"], a["s"]) for a in o["addrs"]}
        if es != got:
            missing, extra = es - got, got - es
            if extra and {(k, trunc(s)) for k, s in missing} == extra:
                wrong = "truncated_at_eq"
            elif not extra:
                wrong = "missing"
            else:
                wrong = "other"
            ctx.report(dict(sig, field="addrs", wrong=wrong),
                       "address set changed: lost %s, gained %s" % (sorted(missing), sorted(extra)), replay)
            return
        if o["ud"] != exp["info_ud"]:
            if o["ud"] is None:
                wrong = "missing"
            elif exp["info_ud"] is not None and o["ud"] == trunc(exp["info_ud"]):
                wrong = "truncated_at_eq"
            else:
                wrong = "other"
            ctx.report(dict(sig, field="user_data", wrong=wrong),
                       "user data %r (%d bytes) came back as %r" % (exp["info_ud"], len(exp["info_ud"].encode()) if exp["info_ud"] else 0,
                                                                     o["ud"]), replay)
            return
    # ---- conformance of what the property does not fix (reported only if every round trip of the run is intact)
    if sorted(o["txt"]) != sorted(exp["txt"]):
        drift("TXT strings differ: model %s, code %s" % (exp["txt"], o["txt"]))
        return
    if b["via"] in ("packet", "dns"):
        want = "ok" if exp["st"] != "unencodable" else exp["why"]
        if o["encode"] != want:
            drift("packet encoding verdict: model %s, code %s (model length %d, code %d)"
                  % (want, o["encode"], exp["pktlen"], o["pktlen"]))
            return
        if want != "DnsError" and o["pktlen"] != exp["pktlen"]:
            drift("DNS packet length: model %d, code %d" % (exp["pktlen"], o["pktlen"]))
            return
        if want != "ok":
            return
        if b["via"] == "dns" and o["cs_lens"] != exp["cs"]:
            drift("character-strings per TXT record: model %s, code %s" % (exp["cs"], o["cs_lens"]))
            return
    if o["addrs"] != exp["addrs"]:
        drift("address order: model %s, code %s" % (exp["addrs"], o["addrs"]))
        return
    if len(b["addrs"]) >= 2 and b["ud"]["some"] and len(ctx.cov["samples"]) < 4 and (case["case"] % 7 == 0):
        ctx.sample({"via": b["via"], "addrs": case["addrs"], "user_data": case["ud"], "txt": o["txt"],
                    "packet_len": o["pktlen"], "resolved_addrs": o["addrs"], "resolved_user_data": o["ud"]})


def execute(ctx, behaviours, name):
    pairs = [concretise(ctx, i, b) for i, b in enumerate(behaviours)]
    inp = ctx.write_ndjson(name + ".in", [c for c, _ in pairs])
    outp = ctx.path(name + ".out")
    ctx.run_bin("vh_lookup", ["c31", "--in", inp, "--out", outp])
    obs = ctx.read_ndjson(outp)
    if len(obs) != len(pairs):
        raise ToolError("harness returned %d observations for %d cases" % (len(obs), len(pairs)))
    ctx.drifts = []
    for b, (case, exp), o in zip(behaviours, pairs, obs):
        judge(ctx, b, case, exp, o)
    # a broken round trip is a violation even if the size model disagrees too; non-conformance stands only
    # when every round trip of the run was the identity
    if ctx.drifts and not ctx.violations and not ctx.known_hits:
        raise ToolError("%s\n(%d non-conforming cases in total)" % (ctx.drifts[0], len(ctx.drifts)))
    if ctx.drifts:
        ctx.log("note: %d cases also differ from the model in things the property does not fix, e.g. %s"
                % (len(ctx.drifts), ctx.drifts[0].split("\n")[0]))
    return pairs, obs


def run(ctx):
    if ctx.replay:
        rep = json.load(open(ctx.replay))["replay"]
        execute(ctx, [rep["behaviour"]], "c31-replay")
        return
    # 1. the as-written split is refuted by the model (anti-vacuity of RoundTrip)
    ctx.tlc("dns", "MC_EndpointInfo", cfg="EndpointInfo_aswritten.cfg", mode="mc", workers=2, coverage=False,
            constants={"MaxRuns": 2, "SplitOnce": "FALSE"}, expect_violation="RoundTrip", timeout=900)
    #    ... and so is a publisher that cuts attribute strings into 254-byte character-strings (DNS path)
    ctx.tlc("dns", "MC_EndpointInfo", cfg="EndpointInfo_chunk254.cfg", mode="mc", workers=2, coverage=False,
            constants={"MaxRuns": 2, "SplitOnce": "TRUE"}, expect_violation="RoundTrip", timeout=900)
    # 2. the required design holds; every finished behaviour is printed
    cfg = ctx.pick("EndpointInfo.cfg", "EndpointInfo_thorough.cfg")
    res = ctx.tlc("dns", "MC_EndpointInfo", cfg=cfg, mode="gen", timeout=2400,
                  constants={"MaxRuns": 3, "SplitOnce": "TRUE"},
                  require_actions=["New", "Encode", "PublishTxt", "Resolve", "ResolveForeign"])
    behaviours = res.replays
    if not behaviours:
        raise ToolError("TLC printed no behaviours")
    pairs, obs = execute(ctx, behaviours, "c31")
    if not ctx.quick:
        selftest(ctx, behaviours, pairs, obs)
    ctx.cov["rule"] = ("every finished behaviour of the EndpointInfo spec (exhaustive over the configured address lists x user-data "
                       "patterns x {packet, txt}, plus the foreign TXT lists); non-trivial = has an address, user data or is foreign")
    ctx.cov["exhaustive"] = True
    ctx.assume("address texts round-trip through Display/FromStr (C02); simple_dns writes one TXT RR per string with name compression")


def selftest(ctx, behaviours, pairs, obs):
    """Binding self-test: a flipped expectation / a corrupted observation must be rejected by the judge."""
    import contextlib
    import copy
    import io
    n = 0
    for b, (case, exp), o in zip(behaviours, pairs, obs):
        if not (b["via"] in ("txt", "packet", "dns") and b["out"]["st"] == "ok" and b["ud"]["some"] and b["ud"]["s"]
                and b["out"]["addrs"] and not has_eq(b)):
            continue
        for variant in ("ud", "addr", "status"):
            sub = type(ctx)(ctx.prop, ctx.tier, ctx.seed)
            sub.scratch, sub.quiet, sub.findings = ctx.scratch, True, []
            sub.replay = ctx.path("selftest-replay.json")   # report() then writes no replay file
            sub.drifts = []
            e2, o2 = copy.deepcopy(exp), copy.deepcopy(o)
            if variant == "ud":
                e2["info_ud"] = e2["info_ud"] + "x"         # flipped expectation
            elif variant == "addr":
                o2["addrs"] = o2["addrs"][1:]               # an address lost on the way
            else:
                o2["st"] = "UnexpectedFormat"               # resolving failed
            with contextlib.redirect_stdout(io.StringIO()):
                judge(sub, b, case, e2, o2)
            if not sub.violations:
                raise ToolError("binding self-test: corrupted case (%s) was accepted" % variant)
            n += 1
        if n >= 9:
            break
    ctx.cov["binding_selftests"] = n
