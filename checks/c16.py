"""C16 — Splitting a relay datagram batch partitions it exactly (DESIGN.md §6 C16).

Spec: specs/relay/RelayWire.tla (Take(n) = Datagrams::take_segments as written; the property as the
invariants PartitionsExactly / AtMostN / SegSizeOnlyIfMultiple / RestSegSizeOnlyIfMultiple / EcnKept
and the action property Progress over the *meaning* of a batch = its sequence of datagram lengths).
TLC decides the property on the model for every batch (len 0..12, segment size none/1..14, four ECN
values) and n in 1..5, and as a by-product prints every complete behaviour with the result of every
call; each behaviour is replayed on the real `Datagrams::take_segments` with lengths scaled by
k in {1, 97, 1200} and random contents; returned length / segment size / ECN, the state of `self`
after the call, and the byte-exact concatenation must equal what the model determined.
A second, smaller configuration lets every call choose its own n (VaryN).
Anti-vacuity: with BatchRule = "le" (`<=` in is_datagram_batch) TLC must refute SegSizeOnlyIfMultiple.

Mutation self-test (2026-09-22): `usize_segment_size < contents.len()` -> `<=` in take_segments
=> VIOLATION (piece of exactly one segment carries a segment size; sig input=seg_ge_len kind=piece_seg n=>1);
undone => exit 0.  (Run against a private copy of /repo + harness under /var/tmp/rp-mut with vlib.HARNESS
pointed at it, because builds took 6-11 min on the shared, loaded machine and a mutation left applied in the
live /repo for that long would have leaked into other builders' checks.)
"""
import json

from vlib import ToolError
from checks.relayproto_common import binding_selftest

META = {
    "level": "model_checking",
    "engine": "relay-wire",
    "technique": "TLA+ spec RelayWire (take_segments state machine) checked by TLC; every TLC behaviour replayed on the real "
                 "Datagrams::take_segments with scaled lengths and random bytes (mode A)",
    "text": "TLC explores every batch [len 0..12, segment size none or 1..14 (including sizes not dividing and exceeding the "
            "length), ECN x4] with every n in 1..5, taking until empty and once more, and checks on the model that the datagram "
            "sequences of the taken pieces followed by the remainder always equal the original datagram sequence, every piece "
            "has <= n datagrams, carries the segment size only when it holds > 1 datagram, keeps ECN, and that taking "
            "terminates. Each behaviour is executed on iroh_relay::protos::relay::Datagrams with lengths x1, x97, x1200 and "
            "random contents; all returned fields, the remaining batch and the byte-exact concatenation are compared.",
    "note": "Bounded abstract sizes; concretised by three scale factors. n is bounded by 5 (huge n where n*segment_size "
            "overflows usize is outside the property's realistic domain and not exercised). 'Segment' is read as datagram "
            "of the batch; an input batch that itself violates the single-datagram discipline (segment size >= length) is "
            "allowed as input.",
    "design_ref": "§6 C16",
}

SCALES = (1, 97, 1200)


def run(ctx):
    base = {"MaxLen": 12, "MaxSeg": 14, "MaxN": 5, "Ecns": "{0, 1, 2, 3}", "VaryN": "FALSE", "BatchRule": '"lt"'}
    vary = {"MaxLen": ctx.pick(9, 12), "MaxSeg": ctx.pick(5, 7), "MaxN": ctx.pick(3, 4), "Ecns": "{0, 3}",
            "VaryN": "TRUE", "BatchRule": '"lt"'}
    if ctx.replay:
        rep = json.load(open(ctx.replay))["replay"]
        execute(ctx, [rep], "replay")
        return
    # anti-vacuity: the `<=` slip is refuted by the invariant
    ctx.tlc("relay", "RelayWire", mode="mc", workers=1, coverage=False,
            constants=dict(base, MaxLen=4, MaxSeg=4, MaxN=3, Ecns="{0}", BatchRule='"le"'),
            expect_violation="SegSizeOnlyIfMultiple")
    for name, consts in (("fixed", base), ("vary", vary)):
        res = ctx.tlc("relay", "RelayWire", mode="gen", constants=consts, timeout=1200, require_actions=["Take"])
        if not res.replays:
            raise ToolError("TLC produced no behaviours for %s" % name)
        cases = []
        for b in res.replays:
            for k in SCALES:
                cases.append(dict(b, k=k))
        execute(ctx, cases, name)
    ctx.cov["rule"] = ("every complete take-until-empty behaviour of RelayWire for all (len, seg, ecn, n) up to the bounds "
                       "(exhaustive), each at 3 scale factors; non-trivial = the batch has a segment size and > 1 datagram")
    ctx.cov["exhaustive"] = True


def execute(ctx, cases, name):
    inp = ctx.write_ndjson("c16-%s.in" % name, cases)
    outp = ctx.path("c16-%s.out" % name)
    ctx.run_bin("vh_relayproto", ["c16", "--in", inp, "--out", outp])
    obs = ctx.read_ndjson(outp)
    if len(obs) != len(cases):
        raise ToolError("harness returned %d observations for %d cases" % (len(obs), len(cases)))
    for c, o in zip(cases, obs):
        judge(ctx, c, o)
    # binding self-test on one multi-call case: every corrupted observation / flipped expectation must be rejected
    for c, o in zip(cases, obs):
        if len(c["calls"]) >= 3 and c["seg"] and not o.get("panic"):
            def bump(field):
                return lambda c_, o_: o_["calls"][1].__setitem__(field, o_["calls"][1][field] + 1)
            binding_selftest(ctx, judge, c, o, [
                ("piece length", bump("len")), ("piece segment size", bump("seg")), ("piece ecn", bump("ecn")),
                ("rest length", bump("rest_len")), ("rest segment size", bump("rest_seg")),
                ("bytes out of place", lambda c_, o_: o_["calls"][0].__setitem__("bytes_in_place", False)),
                ("concatenation", lambda c_, o_: o_.__setitem__("concat_eq", False)),
                ("expected piece length", lambda c_, o_: c_["calls"][0].__setitem__("len", c_["calls"][0]["len"] + 1)),
                ("panic", lambda c_, o_: o_.__setitem__("panic", "boom"))])
            break


def judge(ctx, c, o):
    k = c["k"]
    multi = c["seg"] != 0 and c["len"] > c["seg"]
    ctx.count(case_key=[c["len"], c["seg"], c["ecn"], k, [x["n"] for x in c["calls"]]], nontrivial=multi)
    if multi and len(c["calls"]) >= 3 and c["len"] % c["seg"] != 0:
        ctx.sample({"len": c["len"] * k, "segment_size": c["seg"] * k, "ecn": c["ecn"],
                    "calls": [{"n": x["n"], "piece_len": x["len"] * k, "piece_seg": x["seg"] * k,
                               "rest_len": x["restLen"] * k, "rest_seg": x["restSeg"] * k} for x in c["calls"]]})
    cls = {"input": "seg_none" if c["seg"] == 0 else ("seg_ge_len" if c["seg"] >= c["len"] else
                                                    ("seg_divides" if c["len"] % c["seg"] == 0 else "seg_ragged"))}
    if o.get("panic"):
        ctx.report(dict(cls, kind="panic"), "take_segments panicked: %s" % o["panic"], c)
        return
    for i, (x, y) in enumerate(zip(c["calls"], o["calls"])):
        exp = {"len": x["len"] * k, "seg": x["seg"] * k, "ecn": x["ecn"],
               "rest_len": x["restLen"] * k, "rest_seg": x["restSeg"] * k, "rest_ecn": c["ecn"], "bytes_in_place": True}
        for field, kind in (("len", "piece_len"), ("seg", "piece_seg"), ("ecn", "piece_ecn"), ("rest_len", "rest_len"),
                            ("rest_seg", "rest_seg"), ("rest_ecn", "rest_ecn"), ("bytes_in_place", "bytes")):
            if y[field] != exp[field]:
                ctx.report(dict(cls, kind=kind, n="1" if x["n"] == 1 else ">1"),
                           "take_segments(%d) call %d on [len %d, seg %d, ecn %d]: %s expected %s, got %s"
                           % (x["n"], i, c["len"] * k, c["seg"] * k, c["ecn"], field, exp[field], y[field]), c)
                return
    if not o["concat_eq"]:
        ctx.report(dict(cls, kind="concat"), "concatenation of the taken pieces differs from the original contents", c)
