"""C21 — Per-remote state never loses requests across idle shutdown and restart (DESIGN.md §6 C21, Appendix A.8).

Spec: specs/socket/RemoteMap.tla — RemoteMap::send_to_actor / cleanup / remove_or_restart_actor as the socket
actor's program, other threads' try_send through the read-only sender map, and each RemoteStateActor instance's
lifecycle (handle, idle decision, inbox.close + leftover, return).  Trace_RemoteMap.tla binds it to event logs.

Steps of one run
  1. TLC, exhaustive (2 remotes, <= 3 requests, <= 4 instances, inbox capacity 2): AtMostOneLive, SenderIsNewest,
     InOrderOnce, NeverDropped, WaitingIsServed, AnsweredWasHandled, NoLoss hold for the current design; the two
     known-bad designs are refuted: RestartBeforeJoin (the historical bug: new actor before the old task is joined)
     on SenderIsNewest / AtMostOneLive, DropLeftover on NeverDropped.
  2. Stimulus: fixed scripts replaying the repository's regression tests (poll_cleanup_preserves_restarted_sender,
     pending_resolve_survives_actor_idle_timeout) and the leftover race, then seeded random scripts of
     resolve_remote (with / without addresses, two remotes), sender lookups + try_send from "another thread", virtual
     time advances across ACTOR_MAX_IDLE_TIMEOUT, cleanup() polls, lookup items / ends of a scripted lookup service,
     and armed windows of the pause point between the actor's idle decision and inbox.close() (the only way to get
     the close/enqueue race on one thread deterministically).
  3. vh_remote c21 executes each script on a real RemoteMap (cfg-guarded constructor) under tokio's paused clock and
     returns the event log: hook events at the linearization points (start / handle / idle_break / closed / remove)
     interleaved with the harness's own (sa_begin / sa_end / ts_lookup / ts_send / reply / end).
  4. TLC validates the concatenated logs against Trace_RemoteMap (mode B).  A property invariant false on a
     reconstructed state, a reply channel dropped unanswered, an unanswered request at the end, a hang or a panic is a
     VIOLATION; so is an event the model cannot explain when the mismatch is property-relevant (actor idles out with
     work pending, leftover count / restart content differs, handling order differs).  Other unexplained events are
     spec drift -> NONCONFORMANCE (exit 2).

No defect expected or found: the check guards regressions.
Self-tests run on 2026-09-22 (private snapshot copy of /repo, patches in seeded/remote/):
  * send_to_actor's SendError path drops the joined actor's leftover messages (DESIGN §12) -> VIOLATION
    {kind: restart_mismatch, event: start}: the restarted actor reports 1 initial message where the model has leftover + 1;
  * the historical bug re-introduced (on SendError start a new actor without joining the old task) -> VIOLATION
    {kind: restart_mismatch, event: remove}, first on the replay of poll_cleanup_preserves_restarted_sender: the later
    cleanup() removes the fresh sender, which no spec behaviour explains;
  * reverted -> exit 0 (105 event logs accepted).
"""
import json
import random
import re

from vlib import ToolError

META = {
    "level": "model_checking",
    "engine": "remote-state",
    "technique": "TLA+ spec RemoteMap checked by TLC (exhaustive, two bad designs refuted); event logs of the real RemoteMap and "
                 "RemoteStateActors under virtual time validated against the spec by TLC (trace validation, mode B)",
    "text": "TLC explores all interleavings of the socket actor's send_to_actor (get-or-start, send, SendError -> join tasks -> "
            "restart with leftover + message), cleanup, other threads' try_send, and each actor instance's handle / idle "
            "decision / close-with-leftover for 2 remotes, 3 requests, 4 instances. The real RemoteMap is driven through seeded "
            "scripts under tokio's paused clock with a pause point holding the idle/close window open; its event log must be "
            "a behaviour of the spec, with every invariant holding on every reconstructed state and every request answered.",
    "note": "AddConnection needs a live noq::Connection and is not driven here (covered only by e2e checks). Requests sent "
            "with try_send are required to be processed at most once and, if accepted, answered; order is required among "
            "send_to_actor requests of one remote. Which reply a request gets is C22's business.",
    "design_ref": "§6 C21, A.8",
}

MC = {"quick": {"MaxReq": 3, "MaxInst": 3, "InboxCap": 2}, "thorough": {"MaxReq": 4, "MaxInst": 4, "InboxCap": 2}}
RELEVANT = {"idle_break": "idle_with_pending_work", "closed": "leftover_mismatch", "start": "restart_mismatch",
            "remove": "restart_mismatch", "handle": "handled_out_of_order"}


def o(op, **kw):
    d = {"op": op}
    d.update(kw)
    return d


FIXED = [
    # poll_cleanup_preserves_restarted_sender
    ("none", [o("resolve", r=1, tag=1), o("settle"), o("advance", ms=65000), o("settle"), o("resolve", r=1, tag=1),
              o("cleanup"), o("resolve", r=1, tag=0), o("settle"), o("cleanup"), o("settle")]),
    # pending_resolve_survives_actor_idle_timeout
    ("scripted", [o("resolve", r=1, tag=0), o("settle"), o("advance", ms=65000), o("settle"), o("advance", ms=65000),
                  o("settle"), o("cleanup"), o("lookup_end", r=1), o("settle")]),
    # the idle/close race: messages enqueued between the idle decision and inbox.close() must come back as leftover
    ("none", [o("resolve", r=1, tag=1), o("settle"), o("arm"), o("advance", ms=61000), o("settle"), o("resolve", r=1, tag=1),
              o("ts_lookup", r=1), o("ts_send"), o("resolve", r=1, tag=0), o("release"), o("settle"), o("cleanup"), o("settle"),
              o("cleanup"), o("settle")]),
    # SendError with another remote's task to join first; stale sender clone used after the restart
    ("scripted", [o("resolve", r=1, tag=1), o("resolve", r=2, tag=1), o("settle"), o("ts_lookup", r=1), o("advance", ms=61000),
                  o("settle"), o("resolve", r=1, tag=0), o("ts_send"), o("settle"), o("resolve", r=2, tag=0), o("cleanup"),
                  o("lookup_item", r=1), o("settle"), o("advance", ms=61000), o("settle"), o("cleanup"), o("settle")]),
    # endpoint shutdown with messages queued: the cancelled actor's leftover is handled by its successor
    ("scripted", [o("resolve", r=1, tag=0), o("settle"), o("resolve", r=1, tag=1), o("resolve", r=2, tag=1), o("netchange"),
                  o("cancel"), o("settle"), o("cleanup"), o("settle"), o("resolve", r=1, tag=1), o("settle"), o("cleanup"), o("settle")]),
    # leftover picked up by cleanup() (not by a SendError)
    ("none", [o("resolve", r=2, tag=1), o("settle"), o("arm"), o("advance", ms=70000), o("settle"), o("ts_lookup", r=2),
              o("ts_send"), o("release"), o("settle"), o("cleanup"), o("settle"), o("advance", ms=61000), o("settle"), o("cleanup")]),
]


def random_script(rng):
    services = "scripted" if rng.random() < 0.6 else "none"
    ops, nreq, n, holding = [], 0, rng.randint(10, 28), False
    while len(ops) < n and nreq < 34:
        x = rng.random()
        if x < 0.04:
            ops.append(o("netchange"))
            nreq += 2
        elif x < 0.30:
            ops.append(o("resolve", r=rng.randint(1, 2), tag=rng.randint(0, 1)))
            nreq += 1
        elif x < 0.48:
            ops.append(o("settle"))
        elif x < 0.62:
            ops.append(o("advance", ms=rng.choice([1000, 30000, 59000, 61000, 61000, 125000])))
            if rng.random() < 0.7:
                ops.append(o("settle"))
        elif x < 0.72:
            ops.append(o("cleanup"))
        elif x < 0.80:
            if not holding:                       # one other thread: it holds at most one sender clone at a time
                ops.append(o("ts_lookup", r=rng.randint(1, 2)))
                nreq += 1
                holding = True
            if rng.random() < 0.5:
                ops.append(o("ts_send"))
                holding = False
        elif x < 0.85:
            ops.append(o("ts_send"))
            holding = False
        elif x < 0.91 and services == "scripted":
            ops.append(o(rng.choice(["lookup_item", "lookup_end"]), r=rng.randint(1, 2)))
        elif x < 0.98:
            # an armed window: the next actor that decides to stop is held before inbox.close()
            ops += [o("arm"), o("advance", ms=rng.choice([61000, 70000, 130000])), o("settle")]
            for _ in range(rng.randint(0, 4)):
                k = rng.random()
                if k < 0.5:
                    ops.append(o("resolve", r=rng.randint(1, 2), tag=rng.randint(0, 1)))
                    nreq += 1
                elif k < 0.7:
                    if not holding:
                        ops.append(o("ts_lookup", r=rng.randint(1, 2)))
                        nreq += 1
                    ops.append(o("ts_send"))
                    holding = False
                elif k < 0.85:
                    ops.append(o("cleanup"))
                else:
                    ops.append(o("settle"))
            ops += [o("release"), o("settle")]
    if rng.random() < 0.15:
        # endpoint shutdown in the middle of things (growth beyond C21: accepted messages are still handled)
        ops.append(o("cancel"))
        for _ in range(rng.randint(0, 5)):
            k = rng.random()
            if k < 0.35 and nreq < 38:
                ops.append(o("resolve", r=rng.randint(1, 2), tag=rng.randint(0, 1)))
                nreq += 1
            elif k < 0.6:
                ops.append(o("settle"))
            else:
                ops.append(o("cleanup"))
    return services, ops


def to_trace(ev):
    """harness / hook event -> trace record of Trace_RemoteMap (None: not part of the trace)."""
    e = ev["ev"]
    if e in ("restart", "cl_poll"):
        return None
    if e == "handle":
        kind = {"resolve": "resolve", "remote_info": "info", "network_change": "netchange"}.get(ev["kind"], ev["kind"])
        m = re.search(r":(\d+)\)", ev.get("detail", "") or "")
        return {"ev": "handle", "inst": ev["inst"], "kind": kind, "tag": int(m.group(1)) if m else 0}
    if e == "start":
        return {"ev": "start", "inst": ev["inst"], "r": ev["r"], "n": ev["n"]}
    if e in ("idle_break",):
        return {"ev": e, "inst": ev["inst"]}
    if e == "closed":
        return {"ev": e, "inst": ev["inst"], "n": ev["n"]}
    return ev


def run(ctx):
    # 1. model
    mc = dict(MC[ctx.tier], RestartBeforeJoin="FALSE", DropLeftover="FALSE")
    ctx.tlc("socket", "RemoteMap", cfg="RemoteMap.cfg", constants=mc, timeout=3000,
            require_actions=["SaLookup", "SaStart", "SaSend", "SaJoinOther", "SaJoinOwn", "Cleanup", "TsLookup", "TsSend",
                             "Handle", "LookupFinish", "IdleDecide", "Close"])
    small = {"MaxReq": 3, "MaxInst": 3, "InboxCap": 2}
    ctx.tlc("socket", "RemoteMap", cfg="RemoteMap_bug1.cfg", constants=dict(small, RestartBeforeJoin="TRUE", DropLeftover="FALSE"),
            timeout=3000, coverage=False, expect_violation="SenderIsNewest")
    ctx.tlc("socket", "RemoteMap", cfg="RemoteMap_bug2.cfg", constants=dict(small, RestartBeforeJoin="FALSE", DropLeftover="TRUE"),
            timeout=3000, coverage=False, expect_violation="NeverDropped")
    ctx.cov["bad_designs_refuted_by_TLC"] = ["RestartBeforeJoin", "DropLeftover"]

    # 2. scripts
    if ctx.replay:
        scripts = [json.load(open(ctx.replay))["replay"]["script"]]
    else:
        rng = random.Random(ctx.seed)
        scripts = [{"case": i + 1, "services": s, "ops": ops, "origin": "fixed"} for i, (s, ops) in enumerate(FIXED)]
        for _ in range(ctx.pick(100, 2000)):
            s, ops = random_script(rng)
            scripts.append({"case": len(scripts) + 1, "services": s, "ops": ops, "origin": "random"})

    # 3. real code
    inp = ctx.write_ndjson("c21.in", scripts)
    outp = ctx.path("c21.out")
    ctx.run_bin("vh_remote", ["c21", "--in", inp, "--out", outp], timeout=3000)
    obs = ctx.read_ndjson(outp)
    if len(obs) != len(scripts):
        raise ToolError("harness returned %d logs for %d scripts" % (len(obs), len(scripts)))

    # 4. trace validation
    traces = []
    for sc, ob in zip(scripts, obs):
        recs = [r for r in (to_trace(e) for e in ob["events"]) if r]
        restarts = sum(1 for r in recs if r["ev"] == "start" and r["n"] > 0)
        leftovers = sum(1 for r in recs if r["ev"] == "closed" and r["n"] > 0)
        ctx.count(case_key=[sc["services"], [(x["op"], x.get("r", 0), x.get("tag", 0), x.get("ms", 0)) for x in sc["ops"]]],
                  nontrivial=restarts > 0)
        ctx.cov["traces_validated_against_impl"] -= 1        # counted below, when TLC accepted the trace
        rep = {"script": sc, "events": ob["events"]}
        if leftovers and restarts >= 2:
            ctx.sample({"services": sc["services"], "ops": [" ".join(str(v) for v in x.values()) for x in sc["ops"]][:24],
                        "events": len(recs), "actor_restarts": restarts, "closes_with_leftover": leftovers}, limit=3)
        if ob["panic"]:
            ctx.report({"kind": "panic"}, "panic while driving the RemoteMap: %s" % ob["panic"], rep)
            continue
        if ob["hung"]:
            ctx.report({"kind": "hang"}, "an operation on the RemoteMap never returned (script %d)" % sc["case"], rep)
            continue
        traces.append((sc, recs, rep))
    ctx.cov["restarts_observed"] = sum(1 for _, recs, _ in traces for r in recs if r["ev"] == "start" and r["n"] > 0)
    ctx.cov["closes_with_leftover_observed"] = sum(1 for _, recs, _ in traces for r in recs if r["ev"] == "closed" and r["n"] > 0)
    validate(ctx, traces)
    if not ctx.violations and not ctx.replay:
        selftest(ctx, traces)
    ctx.cov["rule"] = ("model: all reachable states for the constants (exhaustive); implementation: fixed scripts + seeded random "
                       "scripts, each event log validated by TLC; non-trivial = the log contains an actor restart")
    ctx.cov["exhaustive"] = False
    ctx.assume("current-thread runtime: the only preemption inside an actor between its idle decision and inbox.close() is "
               "the cfg-guarded pause point (this is the window other threads have on a multi-thread runtime)")
    ctx.assume("tokio mpsc: a message accepted by send/try_send before close() is delivered by recv/recv_many")


def validate(ctx, traces, rounds=6):
    drift = []
    while traces and rounds:
        rounds -= 1
        recs, starts = [], []
        for sc, tr, rep in traces:
            starts.append(len(recs) + 1)
            recs.append({"ev": "reset"})
            recs += tr
        tf = ctx.write_ndjson("c21-%d.trace" % rounds, recs)
        res = ctx.tlc_trace("socket", "Trace_RemoteMap", tf, cfg="Trace_RemoteMap.cfg", timeout=3000)
        if res.ok:
            ctx.cov["traces_validated_against_impl"] += len(traces) - 1     # tlc_trace counted one
            return finish(drift)
        # locate the offending trace
        if res.violated:
            ls = re.findall(r"/\\ l = (\d+)", res.out)
            at = int(ls[-1]) - 1 if ls else 1
        else:
            at = res.trace_rejected_at if res.trace_rejected_at and res.trace_rejected_at > 0 else 1
        idx = max(i for i, s in enumerate(starts) if s <= at)
        sc, tr, rep = traces[idx]
        ctx.cov["traces_validated_against_impl"] += idx
        ev = recs[at - 1] if at - 1 < len(recs) else {"ev": "eof"}
        if res.violated:
            ctx.report({"kind": "invariant", "invariant": res.violated},
                       "invariant %s is false on the state reconstructed from the event log of script %d (at event %d: %s)"
                       % (res.violated, sc["case"], at - starts[idx], json.dumps(ev)), rep)
        elif ev["ev"] in RELEVANT:
            ctx.report({"kind": RELEVANT[ev["ev"]], "event": ev["ev"]},
                       "script %d: the spec cannot explain event %d %s (%s)" % (sc["case"], at - starts[idx], json.dumps(ev), RELEVANT[ev["ev"]]),
                       rep)
        else:
            drift.append("script %d event %d %s" % (sc["case"], at - starts[idx], json.dumps(ev)))
        traces = traces[idx + 1:]
    return finish(drift)


def selftest(ctx, traces):
    """Binding self-test: corrupted copies of an accepted event log must be rejected by the trace spec."""
    base = next((tr for sc, tr, rep in traces if sc.get("origin") == "fixed" and any(r["ev"] == "closed" and r["n"] > 0 for r in tr)),
                None)
    if base is None:
        raise ToolError("no accepted fixed trace with a leftover close to corrupt")
    def find(ev, pred=lambda r: True):
        return [i for i, r in enumerate(base) if r["ev"] == ev and pred(r)][0]

    def drop(i):
        return base[:i] + base[i + 1:]

    def change(i, field, f):
        t = [dict(r) for r in base]
        t[i][field] = f(t[i][field])
        return t

    variants = [("handle event removed", drop(find("handle"))),
                ("reply turned into a dropped reply channel", change(find("reply"), "res", lambda v: "dropped"))]
    if not ctx.quick:
        variants += [("leftover count of a close changed", change(find("closed", lambda r: r["n"] > 0), "n", lambda v: v + 1)),
                     ("restart loses one initial message", change(find("start", lambda r: r["n"] > 0), "n", lambda v: v - 1)),
                     ("idle_break event removed", drop(find("idle_break"))),
                     ("handled request's tag changed", change(find("handle"), "tag", lambda v: v + 1)),
                     ("sa_end event removed", drop(find("sa_end"))),
                     ("a reply removed (request never answered)", drop(find("reply")))]
    rejected = 0
    for name, tr in variants:
        tf = ctx.write_ndjson("c21-selftest.trace", [{"ev": "reset"}] + tr)
        res = ctx.tlc_trace("socket", "Trace_RemoteMap", tf, cfg="Trace_RemoteMap.cfg", timeout=1200)
        if res.ok:
            ctx.cov["traces_validated_against_impl"] -= 1
            raise ToolError("binding self-test: corrupted trace (%s) was accepted by Trace_RemoteMap" % name)
        rejected += 1
    ctx.cov["binding_selftests"] = {"variants": len(variants), "rejected": rejected}


def finish(drift):
    if drift:
        raise ToolError("NONCONFORMANCE: event logs the spec cannot explain (no property invariant violated): %s" % "; ".join(drift[:3]))
