"""C28 -- Preferred relay choice is current and sticky (DESIGN.md §6 C28).

Spec: specs/netreport/NetReport.tla, action Finish = Client::add_report_history_and_set_preferred_relay.
The requirement is the declarative operator `Allowed` (best latency over the last MaxAge among
the relays measured in this report; keep the previous relay while it is still measured unless
3*best(new) <= 2*lowest_in_this_report(previous); ties read weakly).  The code's loop is modelled
operationally (`CodeChoice`) and TLC checks that it only makes allowed choices
(`CodeRefinesRequirement`): holds with Fixed = TRUE, refuted with Fixed = FALSE (the pinned code
keeps the last iterated latency of the previous relay instead of its lowest).

Binding mode A: every history of finished reports TLC enumerates (latency tables, time steps on
both sides of the 5 minute window) is replayed on the real function under tokio's paused clock
through iroh::verif_hooks_netrep::ReportHistory; the preferred relay after every round must be in
the allowed set TLC printed.  When the implementation takes another allowed choice than the
printed branch (a tie), the rest of that history is not judged (another history covers it).

Genuine defect found by this check on the pinned tree: known_findings.d/C28.json
(C28_prev_latency_last_iterated), proposed_fixes/C28.diff.

Fix check (2026-09-22): with proposed_fixes/C28.diff applied (lowest latency of the previous relay
via RelayLatencies::get) all histories pass with no KNOWN-FINDING line.

Mutation self-test (2026-09-22, pinned tree): `if now.duration_since(*t) > MAX_AGE` replaced by
`if false && ...` (MAX_AGE filter removed, DESIGN §12) -> exit 1, `VIOLATION ... previous preferred
r1, report [https r1 9, https r2 5], history [https r1 5 finished 301 s earlier]: preferred relay
r1, the property allows [r2]` (sig wrong=stuck_with_previous; a 301-second-old best latency still
decides), next to the KNOWN-FINDING of the pinned defect; undone -> exit 0.
"""
import json

from vlib import ToolError

META = {
    "level": "model_checking",
    "engine": "net-report",
    "technique": "TLA+ spec NetReport (Finish/Allowed/CodeChoice) checked by TLC; every enumerated report history replayed on "
                 "the real add_report_history_and_set_preferred_relay under virtual time (mode A)",
    "text": "TLC enumerates histories of finished net reports (per-relay latency tables over three probe kinds, time steps of "
            "1 s, 298 s and 301 s so that earlier reports fall on both sides of the five-minute window) and checks on the "
            "model that the code's selection loop, with the previous relay's lowest latency, only makes choices the property "
            "allows (measured in this report; best over the window; 2/3 hysteresis), and that the pinned variant (last "
            "iterated latency) is refuted.  Each history is executed on the real function under tokio's paused clock and "
            "the preferred relay after every report must be in the allowed set computed by TLC.",
    "note": "Ties between equally good relays are read weakly (any may be chosen; staying with the previous relay is always "
            "allowed when it is among the best).  The exact 300 s boundary is not exercised (time steps never sum to 300).  "
            "Zero latencies are excluded.  Latencies are whole seconds, so the code's `old / 3 * 2` equals the exact 2/3.",
    "design_ref": "§6 C28",
}


def gen_configs(ctx):
    quick = [dict(NRelays=2, Lats="{5, 6, 9}", MaxProbes=3, MaxProbesFirst=1, MaxRounds=2)]
    thorough = [dict(NRelays=2, Lats="{4, 5, 6, 9}", MaxProbes=3, MaxProbesFirst=1, MaxRounds=2),
                dict(NRelays=3, Lats="{5, 6, 9}", MaxProbes=3, MaxProbesFirst=1, MaxRounds=2)]
    return ctx.pick(quick, thorough)


def run(ctx):
    if ctx.replay:
        rep = json.load(open(ctx.replay))["replay"]
        judge(ctx, [rep], run_harness(ctx, [rep], "replay"))
        return
    # the pinned code's rule is refuted on the model (anti-vacuity of CodeRefinesRequirement)
    ctx.tlc("netreport", "NetReport", cfg="NetReport_C28.cfg", mode="mc", timeout=1200,
            constants=dict(NRelays=2, Lats="{5, 6, 9}", MaxProbes=3, MaxProbesFirst=1, MaxRounds=2, Fixed="FALSE",
                           EmitAt='"none"'),
            expect_violation="CodeRefinesRequirement")
    for n, consts in enumerate(gen_configs(ctx)):
        res = ctx.tlc("netreport", "NetReport", cfg="NetReport_C28.cfg", mode="gen", timeout=3000,
                      constants=dict(consts, Fixed="TRUE", EmitAt='"rounds"'), require_actions=["Update", "Finish"])
        if not res.replays:
            raise ToolError("NetReport_C28 produced no histories")
        obs = run_harness(ctx, res.replays, "g%d" % n)
        judge(ctx, res.replays, obs)
        if n == 0:
            binding_selftest(ctx, res.replays, obs)
    # longer histories over three relays: random behaviours (seeded), same invariants, same replay
    res = ctx.tlc("netreport", "NetReport", cfg="NetReport_C28.cfg", mode="sim", sim=ctx.pick(3000, 60000), depth=40,
                  timeout=3000, constants=dict(NRelays=3, Lats="{4, 5, 6, 9}", MaxProbes=4, MaxProbesFirst=4, MaxRounds=3,
                                               Fixed="TRUE", EmitAt='"rounds"'))
    seen, cases = set(), []
    for c in res.replays:
        k = json.dumps(c, sort_keys=True)
        if k not in seen:
            seen.add(k)
            cases.append(c)
    judge(ctx, cases, run_harness(ctx, cases, "sim"))
    ctx.cov["rule"] = ("every history of MaxRounds finished reports over the configured tables and time steps (exhaustive for the "
                       "gen configurations; seeded random behaviours for three relays x three rounds); a history is non-trivial "
                       "when some round has a previous preferred relay that is measured again")
    ctx.cov["exhaustive"] = True
    ctx.assume("tokio paused clock: Instant::now() advances exactly by tokio::time::advance")


def run_harness(ctx, cases, tag):
    inp = ctx.write_ndjson("c28-%s.in" % tag, [{"rounds": [{"dt": r["dt"], "lat": r["lat"]} for r in c["rounds"]]} for c in cases])
    outp = ctx.path("c28-%s.out" % tag)
    ctx.run_bin("vh_netrep", ["c28", "--in", inp, "--out", outp])
    obs = ctx.read_ndjson(outp)
    if len(obs) != len(cases):
        raise ToolError("harness returned %d observations for %d cases" % (len(obs), len(cases)))
    return obs


def classify(rnd, got):
    """Input class and wrong-output class of a forbidden choice (for known-finding matching only)."""
    measured = [e["relay"] for e in rnd["lat"]]
    prev = rnd["prevpref"]
    prev_lats = [e["lat"] for e in rnd["lat"] if e["relay"] == prev]
    sig = {"got": "none" if got == "none" else ("unmeasured" if got not in measured else
                                                "previous" if got == prev else "other"),
           "prev_measured": prev in measured,
           "prev_last_iterated_gt_lowest": bool(prev_lats) and prev_lats[-1] > min(prev_lats),
           "wrong": "?"}
    if got != "none" and got not in measured:
        sig["wrong"] = "not_measured_in_report"
    elif prev in measured and got != prev and rnd["allowed"] == [prev]:
        sig["wrong"] = "switched_despite_hysteresis"
    elif prev in measured and got == prev:
        sig["wrong"] = "stuck_with_previous"
    else:
        sig["wrong"] = "not_best_over_window"
    sig["explained_by"] = "last_iterated_latency" if got == rnd["aswritten"] and rnd["aswritten"] != rnd["code"] else "nothing"
    return sig


def first_forbidden(rounds, got):
    """Index of the first round whose observed choice is outside the allowed set (None: all allowed / diverged before)."""
    for i, r in enumerate(rounds):
        if got[i] not in r["allowed"]:
            return i
        if got[i] != r["choice"]:
            return None
    return None


def binding_selftest(ctx, cases, obs):
    """Flipping one expectation must flip the verdict."""
    import copy
    for c, o in zip(cases, obs):
        if o.get("panic") or first_forbidden(c["rounds"], o["got"]) is not None:
            continue
        last = c["rounds"][-1]
        if o["got"][:-1] == [r["choice"] for r in c["rounds"][:-1]] and len(last["allowed"]) == 1 and last["allowed"][0] != "none":
            bad = copy.deepcopy(c)
            bad["rounds"][-1]["allowed"] = ["none"]
            if first_forbidden(bad["rounds"], o["got"]) != len(c["rounds"]) - 1:
                raise ToolError("binding self-test: a falsified allowed set was not noticed")
            ctx.log("binding self-test: falsified allowed set rejected")
            return
    raise ToolError("binding self-test: no suitable accepted history")


def judge(ctx, cases, obs):
    for c, o in zip(cases, obs):
        rounds = c["rounds"]
        key = [[r["dt"], [[e["kind"], e["relay"], e["lat"]] for e in r["lat"]], r["choice"]] for r in rounds]
        nontrivial = any(r["prevpref"] != "none" and any(e["relay"] == r["prevpref"] for e in r["lat"]) for r in rounds)
        ctx.count(case_key=key, nontrivial=nontrivial)
        if o.get("panic"):
            ctx.report({"wrong": "panic"}, "add_report_history_and_set_preferred_relay panicked: %s" % o["panic"], c)
            continue
        for i, r in enumerate(rounds):
            got = o["got"][i]
            if got not in r["allowed"]:
                sig = classify(r, got)
                ctx.report(sig, "round %d (%d s after the previous one): previous preferred %s, report %s, history [dt, report] %s: "
                                "preferred relay %s, the property allows %s"
                           % (i + 1, r["dt"], r["prevpref"], [[e["kind"], e["relay"], e["lat"]] for e in r["lat"]],
                              [[q["dt"], [[e["kind"], e["relay"], e["lat"]] for e in q["lat"]]] for q in rounds[:i]],
                              got, r["allowed"]), c)
                break
            if got != r["choice"]:
                break        # an allowed choice of another branch: the following rounds belong to another history
        else:
            if nontrivial and len(rounds[-1]["lat"]) >= 3 and rounds[-1]["choice"] != rounds[-1]["prevpref"]:
                ctx.sample({"rounds": [{"dt": r["dt"], "lat": [[e["kind"], e["relay"], e["lat"]] for e in r["lat"]],
                                        "allowed": r["allowed"], "got": g, "history_len": n}
                                       for r, g, n in zip(rounds, o["got"], o["nprev"])]})
