"""C14 — Relay keep-alive pings: only the latest ping counts (DESIGN.md §6 C14)."""
META = {
    "level": "model_checking",
    "engine": "relay-client",
    "technique": "TLA+ spec PingTracker checked by TLC; every TLC behaviour replayed on the real PingTracker under virtual time (mode A)",
    "text": "TLC explores every history of new pings, pongs (latest, stale, forged), time advances and timeout polls up to "
            "the bound and checks the dead-only-by-latest / stale-pong-no-effect / 3x-rtt-clamped rules on the model; each of "
            "those behaviours is then executed step by step on iroh_relay::PingTracker under tokio's paused clock and the "
            "observable results (timeout fired, ping_timeout(), final outstanding probe) must equal the model's.",
    "note": "Bounded: <= 3 pings, <= 5 (quick) / 6 (thorough) steps, time steps from a fixed set; tokio's timer is trusted; "
            "configured maximum >= 500 ms (see DESIGN.md C14 note).",
    "design_ref": "§6 C14",
}


def run(ctx):
    steps = ctx.pick(5, 6)
    total = 0
    for maxt in (10, 50):
        consts = {"MaxT": maxt, "MaxNow": 60, "MaxSteps": steps, "Dts": "{1, 2, 5, 12, 31}" if maxt == 50 else "{1, 2, 5, 12}"}
        res = ctx.tlc("relay", "PingTracker", mode="gen", constants=consts, timeout=1200,
                      require_actions=["NewPing", "Pong", "Advance", "Poll"])
        cases = res.replays
        if ctx.replay:
            break
        inp = ctx.write_ndjson("c14-%d.in" % maxt, cases)
        outp = ctx.path("c14-%d.out" % maxt)
        ctx.run_bin("vh_relay", ["c14", "--in", inp, "--out", outp])
        obs = ctx.read_ndjson(outp)
        if len(obs) != len(cases):
            raise ctx_error("harness returned %d observations for %d cases" % (len(obs), len(cases)))
        judge(ctx, cases, obs)
        total += len(cases)
    if ctx.replay:
        import json
        rep = json.load(open(ctx.replay))["replay"]
        inp = ctx.write_ndjson("c14-replay.in", [rep])
        outp = ctx.path("c14-replay.out")
        ctx.run_bin("vh_relay", ["c14", "--in", inp, "--out", outp])
        judge(ctx, [rep], ctx.read_ndjson(outp))
    ctx.cov["rule"] = ("every reachable history of the PingTracker spec up to MaxSteps (exhaustive); a case is non-trivial "
                       "when it contains at least one pong or one poll")
    ctx.cov["exhaustive"] = True
    ctx.assume("tokio paused clock: sleep_until(deadline) is ready exactly when now >= deadline (ms granularity)")


def ctx_error(msg):
    from vlib import ToolError
    return ToolError(msg)


def judge(ctx, cases, obs):
    for c, o in zip(cases, obs):
        ops = [s["op"] for s in c["steps"]]
        ctx.count(case_key=c["steps"] and [c["maxt"], [(s["op"], s["arg"]) for s in c["steps"]]],
                  nontrivial=("pong" in ops or "poll" in ops))
        if "pong" in ops and "poll" in ops and "new_ping" in ops:
            ctx.sample({"maxt": c["maxt"], "steps": [[s["op"], s["arg"], s["fired"], s["timeout"]] for s in c["steps"]],
                        "outstanding": c["outstanding"]})
        if not o["ok"]:
            kind = "panic" if o["what"] == "panic" else o["what"].split(" after ")[0]
            ctx.report({"kind": kind, "op": ops[o["step"]] if o["step"] < len(ops) else "final"},
                       "PingTracker deviates from the spec at step %d (%s): expected %s, got %s"
                       % (o["step"], o["what"], o["exp"], o["got"]), c)
