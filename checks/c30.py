"""C30 — Every lookup service ends up with the latest published address data (DESIGN.md §6 C30).

Spec: specs/lookup/AddrLookupPub.tla — AddressLookupServices::{publish, add_boxed, clear} with one
action per critical section (PubFilter / PubBegin / PubGive / PubStore, AddRead / AddPush, Clear,
SetFilter), split
where the code takes and releases its RwLocks.  TLC proves the property (`AllHaveLatest`,
`LastDataIsLatest`) for the required design (`Serialized = TRUE`: one lock around each whole
operation) and refutes it for the step structure of the code as written (`Serialized = FALSE`).

Binding (mode C + TLC as judge): TLC enumerates every complete word of the as-written step
structure; `vh_lookup c30` forces each word on the real `AddressLookupServices` with one OS
thread per actor through the pause points of `iroh::verif_hooks_lookup` (a step is released
only when its actor is parked at exactly that gate, and is over when the actor is parked at
its next gate or has returned), then observes the quiescent state through public API:
what every recording service was given, what a service added afterwards is given
(= last_data), and who receives one more publish (= who is registered).  The observed
quiescent states are handed back to TLC (Judge_AddrLookupPub.tla), which evaluates the
spec's own invariants on them; an observation on which they are false is a violation.
An actor found asleep (60 ms) instead of at its gate means the implementation serialises
more than the model (that is what the proposed fix does): the rest of the word runs freely
and the quiescent state is judged all the same.  For completely forced words the observed
state must also equal the model's state for that word (otherwise: non-conformance, exit 2).

Genuine defects found on the pinned tree (both from the same root: publish and add_boxed are
not atomic with respect to each other):
  * C30_add_publish_race — `AddRead(n) ; PubStore(d) ; AddPush(n)`: the new service was given
    the old last_data (or nothing) and never gets d;
  * C30_concurrent_publish_order — two overlapping publish calls give in one order and store
    last_data in the other: services keep d1 while last_data (and so every later service) is d2.
Proposed fix: proposed_fixes/C30.diff (one mutex around both operations).

Mutation self-test (2026-09-22, on top of the proposed fix): the guard in add_boxed dropped
before the push (lock scope reduced, DESIGN §12 C30) -> VIOLATION (add_race, added service
stale); undone -> exit 0.
"""
import json

from vlib import ToolError

META = {
    "level": "model_checking",
    "engine": "address-lookup",
    "technique": "TLA+ spec AddrLookupPub (one action per critical section of publish/add_boxed/clear) checked by TLC; every "
                 "complete interleaving forced on the real AddressLookupServices on OS threads through pause points (mode C); "
                 "observed quiescent states judged by TLC with the spec's invariants",
    "text": "TLC checks that with each operation under one lock every registered service has most recently been given the "
            "latest published (filtered) data, and that the code's actual step order does not guarantee it.  Every interleaving "
            "of the sub-steps of concurrent publish(d1), publish(d2), add(service) (and clear) is then executed on the real "
            "object by parking threads at pause points, and TLC evaluates the property on each observed final state.",
    "note": "Bounded: <= 3 publishers, <= 2 adders, <= 2 initial services, optional clear() and set_addr_filter() callers.  "
            "'Latest' = the publish whose last_data store came last (observed as what a service added at quiescence is "
            "given), with the filter that publish read.  Blocked-actor detection reads the thread state from /proc (Linux).",
    "design_ref": "§6 C30, Appendix A.3",
}

# (Pubs, NewSvcs, Clears, NInit, FilterOn, Setters)
QUICK = [(("d1", "d2"), ("n1",), (), 1, True, ()),
         (("d1",), ("n1", "n2"), (), 0, False, ()),
         (("d1",), ("n1",), (), 1, False, ("f1",))]                        # set_addr_filter concurrent with publish / add: 59 words
THOROUGH = QUICK + [(("d1", "d2"), ("n1",), ("c1",), 2, True, ()),          # 1 762 words
                    (("d1", "d2"), ("n1",), (), 2, False, ()),              # two initial services
                    (("d1", "d2"), ("n1", "n2"), (), 1, True, ()),          # 5 896 words: sampled (-simulate, seeded)
                    (("d1", "d2", "d3"), ("n1",), (), 1, False, ()),        # 52 750 words: sampled
                    (("d1", "d2"), ("n1",), (), 1, False, ("f1",))]         # sampled
SAMPLED = {5: 400, 6: 400, 7: 400}                                          # config index -> number of simulated behaviours


def tla_set(xs):
    return "{" + ", ".join('"%s"' % x for x in xs) + "}"


def consts(cfg, serialized):
    pubs, news, clears, ninit, filt, setters = cfg
    return {"Pubs": tla_set(pubs), "NewSvcs": tla_set(news), "Clears": tla_set(clears), "Setters": tla_set(setters), "NInit": ninit,
            "FilterOn": "TRUE" if filt else "FALSE", "Serialized": "TRUE" if serialized else "FALSE"}


def pos(word, a, step):
    return [i for i, s in enumerate(word) if s["a"] == a and s["step"] == step]


def schedule_class(cfg, word):
    """Input class of a word: which of the two known racy shapes it contains."""
    pubs, news = cfg[0], cfg[1]
    add_race = False
    for n in news:
        r, p = pos(word, n, "AddRead"), pos(word, n, "AddPush")
        if r and p:
            add_race |= any(r[0] < i < p[0] for d in pubs for i in pos(word, d, "PubStore"))
    overlap = False
    for d in pubs:
        for e in pubs:
            if d != e:
                bd, sd, be = pos(word, d, "PubBegin"), pos(word, d, "PubStore"), pos(word, e, "PubBegin")
                if bd and sd and be and bd[0] < be[0] < sd[0]:
                    overlap = True
    return add_race, overlap


def run_config(ctx, cfg, idx):
    pubs, news, clears, ninit, filt, setters = cfg
    # 1. required design holds, as-written step order is refuted
    acts = ["PubBegin", "PubGive", "PubStore", "AddRead", "AddPush"] + (["Clear"] if clears else []) \
        + (["PubFilter", "SetFilter"] if setters else [])
    sfx = "_clear.cfg" if clears else "_filter.cfg" if setters else ".cfg"
    ctx.tlc("lookup", "AddrLookupPub", cfg="AddrLookupPub" + sfx, mode="mc", workers=4, constants=consts(cfg, True), timeout=1200,
            require_actions=[a for a in acts if not (a == "PubGive" and ninit == 0 and not news)])
    if len(pubs) >= 2 or (pubs and news):
        ctx.tlc("lookup", "AddrLookupPub", cfg="AddrLookupPub" + sfx, mode="mc", workers=4, coverage=False,
                constants=consts(cfg, False), timeout=1200,
                expect_violation="AllHaveLatest")
    # 2. all complete words of the as-written step structure
    if idx in SAMPLED:
        res = ctx.tlc("lookup", "AddrLookupPub", cfg="AddrLookupPub_gen" + sfx, mode="sim", sim=SAMPLED[idx], depth=40,
                      constants=consts(cfg, False), timeout=2400)
        seen, words = set(), []
        for w in res.replays:
            k = json.dumps(w["word"])
            if k not in seen:
                seen.add(k)
                words.append(w)
        ctx.cov["exhaustive_except_sampled_configs"] = True
    else:
        res = ctx.tlc("lookup", "AddrLookupPub", cfg="AddrLookupPub_gen" + sfx, mode="gen", constants=consts(cfg, False), timeout=2400)
        words = res.replays
    if not words:
        raise ToolError("TLC printed no words for %s" % (cfg,))
    init = ["s0", "s1", "s2"][:ninit]
    cases = [{"case": idx * 100000 + i, "init_svcs": init, "pubs": list(pubs), "adders": list(news), "clears": list(clears),
              "setters": list(setters), "filter": filt, "word": w["word"]} for i, w in enumerate(words)]
    # thorough: the same actors running freely (no step is forced; whatever interleaving the scheduler produces is judged)
    nfree = ctx.pick(0, 40)
    words = list(words) + [None] * nfree
    cases += [{"case": idx * 100000 + 50000 + i, "init_svcs": init, "pubs": list(pubs), "adders": list(news),
               "clears": list(clears), "setters": list(setters), "filter": filt, "word": []} for i in range(nfree)]
    return words, cases


def judge_config(ctx, cfg, words, cases, obs, tag):
    pubs, news, clears, ninit, filt, setters = cfg
    for c, o in zip(cases, obs):
        if o.get("panic"):
            ctx.report({"wrong": "panic"}, "case %d: %s" % (c["case"], o["panic"]), {"cfg": cfg, "case": c, "observed": o})
        if o.get("hang"):
            ctx.report({"wrong": "hang"}, "case %d: threads did not finish (deadlock)" % c["case"],
                       {"cfg": cfg, "case": c, "observed": o})
    ok = [(w, c, o) for w, c, o in zip(words, cases, obs) if not o.get("panic") and not o.get("hang")]
    if not ok:
        return
    # 3. TLC evaluates the invariants on the observed quiescent states
    tracefile = ctx.write_ndjson("c30-%s.obs" % tag, [{"services": o["services"], "got": o["got"], "last": o["last"]} for _, _, o in ok])
    res = ctx.tlc("lookup", "Judge_AddrLookupPub", mode="gen", coverage=False, constants=consts(cfg, False),
                  env={"TRACE": tracefile}, timeout=1200)
    holds, published = {}, {}
    for line in res.printed:
        if line.startswith('<<"VERDICT"'):
            parts = [p.strip() for p in line.strip("<>").split(",")]
            k = int(parts[1])
            holds[k] = holds.get(k, False) or parts[4] == "TRUE"
            published[k] = parts[5] == "TRUE"
    if len(holds) != len(ok):
        raise ToolError("judge returned %d verdicts for %d observations:\n%s" % (len(holds), len(ok), res.out[-2000:]))
    nblocked = 0
    for k, (w, c, o) in enumerate(ok, start=1):
        free = w is None
        forced_all = (not free) and o["blocked"] is None and o["forced"] == len(c["word"])
        # the input class is known only for words that were really forced; anything that (partly) ran freely may have
        # taken either racy shape if the actors for it exist
        add_race, overlap = schedule_class(cfg, c["word"]) if forced_all else (len(news) > 0 and len(pubs) > 0, len(pubs) > 1)
        nblocked += 0 if (forced_all or free) else 1
        ctx.count(case_key=[list(pubs), list(news), list(clears), list(setters), ninit, filt, [[s["a"], s["step"]] for s in c["word"]]],
                  nontrivial=True)
        replay = {"cfg": cfg, "case": c, "observed": o,
                  "model": None if free else {"services": w["services"], "got": w["got"], "last": w["last"], "holds": w["holds"]}}
        last = o["last"]
        latest = {"d": last["d"], "f": last["f"]} if last["some"] else None
        if not published[k]:
            ctx.report({"add_race": add_race, "overlap": overlap, "wrong": "unpublished_data"},
                       "a service was given data that was never published (or not filtered): %s" % o["got"], replay)
            continue
        if not holds[k]:
            stale_added = [s for s in o["services"] if s in news and (not o["got"][s] or o["got"][s][-1] != latest)]
            stale_init = [s for s in o["services"] if s not in news and (not o["got"][s] or o["got"][s][-1] != latest)]
            # wrong-output class: a registered service's last datum is an older published one / nothing at all
            wrong = "last_data_none" if latest is None else "not_latest"
            ctx.report({"add_race": add_race, "overlap": overlap, "wrong": wrong,
                        "added": "stale" if stale_added else "ok", "initial": "stale" if stale_init else "ok"},
                       "word %s: last_data is %s but services %s last received %s"
                       % (" ".join("%s.%s" % (s["a"], s["step"]) for s in c["word"]), latest, stale_added + stale_init,
                          {s: (o["got"][s][-1] if o["got"][s] else None) for s in stale_added + stale_init}), replay)
        if forced_all:
            model = {"services": sorted(w["services"]), "got": w["got"],
                     "last": {"some": w["last"]["some"], "d": w["last"]["d"], "f": w["last"]["f"]}}
            real = {"services": sorted(o["services"]), "got": o["got"], "last": o["last"]}
            if model != real:
                if holds[k] == w["holds"] or holds[k]:
                    raise ToolError("NONCONFORMANCE (no property violation): forced word %s ended in %s, the model says %s"
                                    % (c["word"], real, model))
            elif holds[k] != w["holds"]:
                raise ToolError("judge and model disagree on identical states: %s" % model)
        if add_race and len(ctx.cov["samples"]) < 4 and k % 5 == 0:
            ctx.sample({"word": ["%s.%s" % (s["a"], s["step"]) for s in c["word"]], "forced_steps": o["forced"],
                        "blocked_at": o["blocked"], "got": o["got"], "last_data": o["last"], "property_holds": holds[k]})
    ctx.cov.setdefault("words_not_fully_forced", 0)
    ctx.cov["words_not_fully_forced"] += nblocked
    if not ctx.quick and tag != "replay":
        selftest(ctx, cfg, [o for k, (w, c, o) in enumerate(ok, start=1) if holds[k]], tag)


def selftest(ctx, cfg, good, tag):
    """Binding self-test: corrupt one field of an accepted observation -> the TLC judge must reject it."""
    import copy
    pubs = cfg[0]
    bad = []
    for o in good:
        if len(bad) >= 12:
            break
        if o["last"]["some"] and len(pubs) >= 2:
            x = copy.deepcopy(o)
            x["last"]["d"] = [d for d in pubs if d != o["last"]["d"]][0]       # another datum is the latest
            if x["services"]:
                bad.append(x)
        for s in o["services"]:
            if o["got"][s]:
                x = copy.deepcopy(o)
                x["got"][s] = x["got"][s][:-1]                                  # the last delivery never happened
                if not x["got"][s] or x["got"][s][-1] != o["got"][s][-1]:
                    bad.append(x)
                    break
    if not bad:
        return
    tracefile = ctx.write_ndjson("c30-%s.selftest" % tag, [{"services": o["services"], "got": o["got"], "last": o["last"]} for o in bad])
    res = ctx.tlc("lookup", "Judge_AddrLookupPub", mode="gen", coverage=False, constants=consts(cfg, False),
                  env={"TRACE": tracefile}, timeout=1200)
    accepted = set()
    for line in res.printed:
        if line.startswith('<<"VERDICT"'):
            parts = [p.strip() for p in line.strip("<>").split(",")]
            if parts[4] == "TRUE":
                accepted.add(int(parts[1]))
    if accepted:
        raise ToolError("binding self-test: corrupted observations %s were accepted by the judge" % sorted(accepted))
    ctx.cov["binding_selftests"] = ctx.cov.get("binding_selftests", 0) + len(bad)


def run(ctx):
    if ctx.replay:
        rep = json.load(open(ctx.replay))["replay"]
        cfg = tuple(tuple(x) if isinstance(x, list) else x for x in rep["cfg"])
        case = rep["case"]
        outp = ctx.path("c30-replay.out")
        ctx.run_bin("vh_lookup", ["c30", "--in", ctx.write_ndjson("c30-replay.in", [case]), "--out", outp])
        obs = ctx.read_ndjson(outp)
        judge_config(ctx, cfg, [None if rep["model"] is None else dict(rep["model"], word=case["word"])], [case], obs, "replay")
        return
    configs = ctx.pick(QUICK, THOROUGH)
    gen = []
    for idx, cfg in enumerate(configs):
        words, cases = run_config(ctx, cfg, idx)
        gen.append((cfg, words, cases))
    allcases = [c for _, _, cases in gen for c in cases]
    outp = ctx.path("c30.out")
    ctx.run_bin("vh_lookup", ["c30", "--in", ctx.write_ndjson("c30.in", allcases), "--out", outp], timeout=3000)
    obs = ctx.read_ndjson(outp)
    if len(obs) != len(allcases):
        raise ToolError("harness returned %d observations for %d cases" % (len(obs), len(allcases)))
    at = 0
    for n, (cfg, words, cases) in enumerate(gen):
        judge_config(ctx, cfg, words, cases, obs[at:at + len(cases)], str(n))
        at += len(cases)
    ctx.cov["rule"] = ("every complete word (interleaving of sub-steps) of the AddrLookupPub spec for the configured actor sets, "
                       "forced on real threads; every observed quiescent state judged by TLC")
    ctx.cov["exhaustive"] = not ctx.cov.get("exhaustive_except_sampled_configs", False)
    ctx.assume("a thread that is past its gate and asleep for 60 ms is blocked on a lock of the code under test")
    ctx.assume("std::sync::RwLock admits a new reader while another reader holds the lock and no writer waits")
