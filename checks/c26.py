"""C26 -- Published home relay is the relay most recently chosen (DESIGN.md §6 C26, Appendix A.1).

Spec: specs/socket/HomeRelay.tla.  SetHome/ClearHome = RelayActor::on_network_change writing the
HomeRelayWatch; an ActiveRelayActor's set_status is one atomic step in the design the property
requires (SpecAtomic: HomeIsChosen, WrittenByChosen, DemotedNeverVisible hold) and get-then-set in
the pinned code (SpecCode: Read/Skip/Write; TLC refutes HomeIsChosen with
SetHome(a); Read(a); SetHome(b); Write(a)).

Binding mode C: TLC enumerates every complete word of the get-then-set structure up to the bound;
the harness (vh_netrep c26) forces each word on the real HomeRelayWatch -- one real thread per
actor, the cfg-guarded pause point between the read and the write of set_status holds an actor in
between, a step that blocks (an implementation that serialises writers) is left pending and
finishes later -- and records the hook events (each with the advertised value after the step) in
the order in which they really happened.  All traces are validated by TLC against
Trace_HomeRelay.tla: the advertised value must equal the model's after every event, and the C26
invariants are evaluated on every reconstructed state.

Genuine defect found on the pinned tree: known_findings.d/C26.json (C26_set_status_not_atomic),
proposed_fixes/C26.diff.

Fix check (2026-09-22): with proposed_fixes/C26.diff applied (writers serialised by a mutex, the
pause point then lies inside the critical section) every word that puts a home change between a
read and its write blocks at the change, finishes after the write, and all 948 quick traces are
accepted with no invariant violated and no KNOWN-FINDING line.

Mutation self-test (2026-09-22, pinned tree): the URL comparison of set_status weakened to
`== Some(url) || self.inner.get().is_some()` (a demoted actor's sequential write is no longer
dropped) -> exit 1, `VIOLATION ... forced word [set_home(a), skip(b)]: after write(b) the watchable
advertises b` (sig schedule=write_right_after_read, distinct from the known finding, which was
still reported as KNOWN-FINDING); undone -> exit 0.  ("(after the fix) lock removed", DESIGN §12,
is the pinned code itself and is what the known finding reports.)
"""
import json
import re

from vlib import ToolError

META = {
    "level": "model_checking",
    "engine": "socket-relay-actor",
    "technique": "TLA+ spec HomeRelay model-checked by TLC (atomic design holds, get-then-set refuted); every word of the "
                 "get-then-set structure forced on the real HomeRelayWatch with real threads and a pause point; recorded "
                 "traces validated by TLC with the C26 invariants on the reconstructed states (mode C)",
    "text": "TLC checks on the model that with an atomic set_status the advertised home relay always equals the relay most "
            "recently chosen and is only ever written by the RelayActor or the chosen relay's actor, and that the pinned "
            "get-then-set structure violates this.  It then enumerates every interleaving (word) of home-relay changes with "
            "the read and write halves of status updates up to the bound; each is forced on the real HomeRelayWatch by real "
            "threads (an actor is held between its read and its write), the hook events with the watchable's value after "
            "each step are recorded, and TLC validates every recorded trace against the spec and evaluates the invariants "
            "on each reconstructed state.",
    "note": "Two relay URLs, three connection states; quick: <= 2 home changes and one set_status call per actor.  "
            "'Advertised' is the value of the watchable as seen by get() and by a fresh watcher.  Status freshness of the "
            "chosen relay is not part of C26 and not judged.",
    "design_ref": "§6 C26, Appendix A.1",
}

STATES3 = '{"Connecting", "Connected", "Disconnected"}'


def run(ctx):
    if ctx.replay:
        rep = json.load(open(ctx.replay))["replay"]
        outs = run_harness(ctx, [rep], "replay")
        judge(ctx, [rep], outs, "replay")
        return
    # the design the property requires holds; the pinned structure is refuted
    mc = dict(MaxChanges=ctx.pick(3, 4), MaxStatus=ctx.pick(2, 3))
    ctx.tlc("socket", "HomeRelay", cfg="HomeRelay_Atomic.cfg", mode="mc", constants=mc,
            require_actions=["SetHome", "ClearHome", "SetStatusAtomic"])
    ctx.tlc("socket", "HomeRelay", cfg="HomeRelay_AsWritten.cfg", mode="mc", constants=mc, expect_violation="HomeIsChosen")
    # growth: RelayActor + ActiveRelayActors with their SetHomeRelay messages and connection state machines around an
    # atomic watch: the advertised status of the chosen relay is fresh once the messages are delivered (spec only)
    ctx.tlc("socket", "HomeRelaySystem", mode="mc", constants=dict(MaxChanges=ctx.pick(3, 4), MaxSteps=ctx.pick(4, 6)),
            require_actions=["NetworkChange", "Recv", "Step"])
    gens = ctx.pick([dict(States=STATES3, MaxChanges=2, MaxStatus=1)],
                    [dict(States=STATES3, MaxChanges=3, MaxStatus=1),
                     dict(States='{"Connected", "Disconnected"}', MaxChanges=2, MaxStatus=2)])
    for n, consts in enumerate(gens):
        res = ctx.tlc("socket", "HomeRelay", cfg="HomeRelay_Gen.cfg", mode="gen", constants=consts, timeout=1800,
                      require_actions=["SetHome", "ClearHome", "Read", "Skip", "Write"])
        words = res.replays
        if not words:
            raise ToolError("HomeRelay_Gen produced no words")
        outs = run_harness(ctx, words, "g%d" % n)
        accepted = judge(ctx, words, outs, "g%d" % n)
        if n == 0:
            binding_selftest(ctx, accepted)
    end_to_end(ctx)
    ctx.cov["rule"] = ("every complete word (all set_status calls finished) of SetHome/ClearHome/Read/Skip/Write over two URLs up to "
                       "MaxChanges home changes and MaxStatus calls per actor (exhaustive); a word is non-trivial when a home "
                       "change happens between an actor's read and its write")
    ctx.cov["exhaustive"] = True
    ctx.assume("the pause point sits between the get and the set of set_status; hook events are emitted by the thread that "
               "performed the step, and the harness runs one step at a time, so event order is the order of the steps")


def end_to_end(ctx):
    """Growth: the HomeRelayWatch events of a live Endpoint (RelayActor and ActiveRelayActor tasks on a multi-thread
    runtime, local relay server; recorded by the C25 driver) must be a behaviour of the same spec with the C26
    invariants holding."""
    word = ["req", "probe", "send_done", "unlock", "on_done"]
    inp = ctx.write_ndjson("c26-e2e.in", [{"word": word}] * ctx.pick(1, 4))
    outp = ctx.path("c26-e2e.out")
    ctx.run_bin("vh_netrep", ["c25", "--in", inp, "--out", outp], timeout=1800)
    evs = []
    for o in ctx.read_ndjson(outp):
        if o.get("env_error"):
            raise ToolError("end-to-end run: %s" % o["env_error"])
        evs += o["home_events"]
    # a read event does not know the state its call will write: take it from the write that follows
    lines, pending = [{"ev": "reset"}], {}
    for i, e in enumerate(evs):
        ln = {"ev": e["ev"], "url": e["url"], "want": "Connecting", "kind": "", "home": e["home"], "state": e["state"]}
        if e["ev"] == "read":
            nxt = next((x for x in evs[i + 1:] if x["url"] == e["url"] and x["ev"] in ("write", "done")), None)
            if nxt is None or nxt["ev"] != "write":
                break                      # the run ended inside this call
            ln["want"] = nxt["state"]
            pending[e["url"]] = True
        elif e["ev"] == "done":
            ln["kind"] = "write" if pending.pop(e["url"], False) else "skip"
        lines.append(ln)
    while lines and lines[-1]["ev"] in ("read", "write") and lines[-1]["url"] in pending:
        lines.pop()                        # drop a call cut off by the end of the recording
        if lines and lines[-1]["ev"] == "read":
            lines.pop()
    if len(lines) < 4:
        raise ToolError("end-to-end run recorded only %d HomeRelayWatch events" % (len(lines) - 1))
    tf = ctx.write_ndjson("c26-e2e.trace", lines)
    res = ctx.tlc_trace("socket", "Trace_HomeRelay", tf, cfg="Trace_HomeRelay.cfg")
    if res.violated:
        ctx.report({"inv": res.violated, "at": "e2e", "schedule": "live_endpoint", "advertised": "other"},
                   "HomeRelayWatch events of a live endpoint violate %s: %s" % (res.violated, [[x["ev"], x["url"], x["home"], x["state"]] for x in lines[1:]]),
                   {"word": []})
    elif res.trace_rejected_at is not None:
        raise ToolError("end-to-end HomeRelayWatch trace not explainable at event %d: %s"
                        % (res.trace_rejected_at, lines[res.trace_rejected_at - 1] if res.trace_rejected_at <= len(lines) else "eof"))
    else:
        ctx.count(case_key=["e2e"] + [[x["ev"], x["url"], x["home"], x["state"]] for x in lines[1:]], nontrivial=True)
        ctx.sample({"live_endpoint_home_relay_events": [[x["ev"], x["url"], x["home"], x["state"]] for x in lines[1:]]}, limit=6)
        ctx.log("end-to-end: %d HomeRelayWatch events of a live endpoint accepted" % (len(lines) - 1))


def run_harness(ctx, words, tag):
    inp = ctx.write_ndjson("c26-%s.in" % tag, [{"word": w["word"]} for w in words])
    outp = ctx.path("c26-%s.out" % tag)
    ctx.run_bin("vh_netrep", ["c26", "--in", inp, "--out", outp], timeout=1800)
    outs = ctx.read_ndjson(outp)
    if len(outs) != len(words):
        raise ToolError("harness returned %d observations for %d words" % (len(outs), len(words)))
    for o in outs:
        if o.get("panic"):
            raise ToolError("harness panicked on word %d: %s" % (o["case"], o["panic"]))
        if o.get("hang"):
            raise ToolError("a HomeRelayWatch call never returned on word %d (not a C26 matter)" % o["case"])
    return outs


def trace_lines(o):
    return [{"ev": "reset"}] + o["events"]


def interleaved(word):
    """A home change between an actor's read and its write (input class of the race)."""
    open_reads = set()
    for s in word:
        if s["op"] == "read":
            open_reads.add(s["url"])
        elif s["op"] == "write":
            open_reads.discard(s["url"])
        elif s["op"] in ("set_home", "clear") and open_reads:
            return True
    return False


def classify(events, idx, inv):
    """Signature of the first violating event of a word (idx: index into events)."""
    e = events[idx]
    sched = "other"
    if e["ev"] == "write":
        changed = False
        for p in reversed(events[:idx]):
            if p["ev"] == "read" and p["url"] == e["url"]:
                sched = "home_changed_between_read_and_write" if changed else "write_right_after_read"
                break
            if p["ev"] in ("set", "clear"):
                changed = True
    return {"inv": inv, "at": e["ev"], "schedule": sched,
            "advertised": "demoted_url" if e["ev"] == "write" else "other"}


def judge(ctx, words, outs, tag):
    lines, owner = [], []          # owner[i] = (word index, event index within the word) of trace line i (0-based)
    for wi, o in enumerate(outs):
        for ei, ln in enumerate(trace_lines(o)):
            lines.append(ln)
            owner.append((wi, ei - 1))
    tf = ctx.write_ndjson("c26-%s.trace" % tag, lines)
    res = ctx.tlc_trace("socket", "Trace_HomeRelay", tf, cfg="Trace_HomeRelay_Batch.cfg", timeout=1800)
    if res.trace_rejected_at is not None:
        at = res.trace_rejected_at
        wi, ei = owner[at - 1] if 0 < at <= len(owner) else (-1, -1)
        raise ToolError("trace of word %d not explainable by HomeRelay at its event %d: %s (word %s)"
                        % (wi, ei, lines[at - 1] if 0 < at <= len(lines) else "eof", words[wi]["word"] if wi >= 0 else "?"))
    first = {}
    for p in res.printed:
        m = re.match(r'^<<"C26-VIOLATED", "(\w+)", (\d+), (\d+)>>', p)
        if m:
            line = int(m.group(3))
            wi, ei = owner[line - 1]
            if wi not in first or ei < first[wi][0]:
                first[wi] = (ei, m.group(1))
    confirmed = set()
    accepted = []
    for wi, (w, o) in enumerate(zip(words, outs)):
        key = [[s["op"], s["url"], s["state"]] for s in w["word"]]
        ctx.count(case_key=key, nontrivial=interleaved(w["word"]))
        if wi in first:
            ei, inv = first[wi]
            sig = classify(o["events"], ei, inv)
            sk = json.dumps(sig, sort_keys=True)
            if sk not in confirmed:
                # the same word alone, with the invariants as TLC invariants
                one = ctx.write_ndjson("c26-%s-w%d.trace" % (tag, wi), trace_lines(o))
                r1 = ctx.tlc_trace("socket", "Trace_HomeRelay", one, cfg="Trace_HomeRelay.cfg")
                if r1.violated not in ("HomeIsChosen", "WrittenByChosen"):
                    raise ToolError("batch and single-word validation disagree on word %d" % wi)
                confirmed.add(sk)
            ev = o["events"][ei]
            ctx.report(sig, "forced word %s: after %s(%s) the watchable advertises %s/%s although the relay most recently chosen is "
                            "another one (%s violated on the reconstructed state)"
                       % ([s["op"] + ("(%s)" % s["url"] if s["url"] != "none" else "") for s in w["word"]], ev["ev"], ev["url"],
                          ev["home"], ev["state"], inv), {"word": w["word"]})
        else:
            accepted.append((w, o))
            if interleaved(w["word"]) or len(w["word"]) >= 5:
                ctx.sample({"word": key, "events": [[e["ev"], e["url"], e["home"], e["state"]] for e in o["events"]],
                            "blocked_steps": o["blocked"]})
        if o.get("watcher_differs"):
            ctx.report({"inv": "watcher", "at": "final", "schedule": "any", "advertised": "watcher_differs_from_get"},
                       "a fresh watcher and get() disagree at the end of word %s" % key, {"word": w["word"]})
    return accepted


def binding_selftest(ctx, accepted):
    """The trace binding must bite: a corrupted accepted trace has to be rejected."""
    cand = [(w, o) for (w, o) in accepted if any(e["ev"] == "write" for e in o["events"])]
    if not cand:
        raise ToolError("no accepted word with a write to corrupt")
    w, o = cand[len(cand) // 2]
    ev = [dict(e) for e in o["events"]]
    i = next(k for k, e in enumerate(ev) if e["ev"] == "write")
    ev[i]["home"] = "b" if ev[i]["home"] == "a" else "a"          # advertised URL after the write falsified
    bad = ctx.write_ndjson("c26-selftest1.trace", [{"ev": "reset"}] + ev)
    before = ctx.cov["traces_validated_against_impl"]
    r = ctx.tlc_trace("socket", "Trace_HomeRelay", bad, cfg="Trace_HomeRelay.cfg")
    if r.trace_rejected_at is None and r.violated is None:
        raise ToolError("binding self-test: a trace with a falsified advertised URL was accepted")
    ev = [dict(e) for e in o["events"]]
    del ev[i]                                                       # the write event dropped
    bad = ctx.write_ndjson("c26-selftest2.trace", [{"ev": "reset"}] + ev)
    r = ctx.tlc_trace("socket", "Trace_HomeRelay", bad, cfg="Trace_HomeRelay.cfg")
    if r.trace_rejected_at is None and r.violated is None:
        raise ToolError("binding self-test: a trace with a missing write was accepted")
    ctx.cov["traces_validated_against_impl"] = before
    ctx.log("binding self-test: 2 corrupted traces rejected")
