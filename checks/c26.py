"""C26 -- Published home relay is the relay most recently chosen (DESIGN.md §6 C26, Appendix A.1).

Spec: specs/socket/HomeRelay.tla.  SetHome/ClearHome = RelayActor::on_network_change writing the
HomeRelayWatch; an ActiveRelayActor's set_status is one atomic step in the design the property
requires (SpecAtomic: HomeIsChosen, WrittenByChosen, DemotedNeverVisible hold) and get-then-set in
the pinned code (SpecCode: Read/Skip/Write; TLC refutes HomeIsChosen with
SetHome(a); Read(a); SetHome(b); Write(a)).

Binding mode C: TLC enumerates every complete word of the get-then-set structure up to the bound;
the harness (vh_netrep c26) forces each word on the real HomeRelayWatch -- one real thread per
actor, the cfg-guarded pause point between the read and the write of set_status holds an actor in
between, a step that blocks (an implementation that serialises writers) is left pending and
finishes later -- and records the hook events (each with the advertised value after the step) in
the order in which they really happened.  All traces are validated by TLC against
Trace_HomeRelay.tla: the advertised value must equal the model's after every event, and the C26
invariants are evaluated on every reconstructed state.

System level (specs/socket/HomeRelaySystem.tla, bound): RelayActor::on_network_change
(NetworkChange), the SetHomeRelay messages to the ActiveRelayActors (Recv; a promoted connected
actor republishes through the URL-guarded set_status) and the actors' connection states.  TLC:
HomeIsChosen, StatusFresh, OneHomeBelief, BeliefMatchesChoice hold; the deviation PromotedSetsUrl
(republish with set(url, Connected)) is refuted by NetworkChange(b); NetworkChange(c); Recv(b).
TLC enumerates the words in which a connected actor handles its promotion only after another home
relay was chosen (from "a home, b connected"); vh_netrep c26sys drives a real RelayActor against
three in-process relay servers along each (a cfg-guarded pause point holds an ActiveRelayActor
before it handles SetHomeRelay; current-thread runtime), records the hook events, and TLC
validates them against Trace_HomeRelaySystem.tla (a HomeRelayWatch::set that on_network_change
did not perform is the deviation action TForeignSet) with HomeIsChosen on every state.

History: the pinned tree's get-then-set set_status was found by this check (fixed in /repo
cd1e730: writers serialised; with the lock the forced words block at the home change and finish
after the write).
Seeded changes (bin/seedtest, 2026-09-22): seeded/_incoming/C26/patch2.diff (promotion handler
publishes with set) -> rc=1, VIOLATION at foreign_set, schedule
promotion_handled_after_another_home_was_chosen; patch.diff (URL compared before taking the write
lock) -> rc=1, VIOLATION HomeIsChosen at write, home_changed_between_read_and_write; unchanged
tree -> exit 0, no KNOWN-FINDING line.  Earlier mutation (URL comparison weakened) -> VIOLATION.
"""
import json
import re

from vlib import ToolError

META = {
    "level": "model_checking",
    "engine": "socket-relay-actor",
    "technique": "TLA+ spec HomeRelay model-checked by TLC (atomic design holds, get-then-set refuted); every word of the "
                 "get-then-set structure forced on the real HomeRelayWatch with real threads and a pause point; recorded "
                 "traces validated by TLC with the C26 invariants on the reconstructed states (mode C)",
    "text": "TLC checks on the model that with an atomic set_status the advertised home relay always equals the relay most "
            "recently chosen and is only ever written by the RelayActor or the chosen relay's actor, and that the pinned "
            "get-then-set structure violates this.  It then enumerates every interleaving (word) of home-relay changes with "
            "the read and write halves of status updates up to the bound; each is forced on the real HomeRelayWatch by real "
            "threads (an actor is held between its read and its write), the hook events with the watchable's value after "
            "each step are recorded, and TLC validates every recorded trace against the spec and evaluates the invariants "
            "on each reconstructed state.",
    "note": "Two relay URLs; quick: two reported states, <= 2 home changes and one set_status call per actor (thorough: three "
            "states, more changes/calls); system level: three relays, the words in which a promotion is handled late.  "
            "'Advertised' is the value of the watchable as seen by get() and by a fresh watcher.  Status freshness of the "
            "chosen relay is not part of C26 and not judged.",
    "design_ref": "§6 C26, Appendix A.1",
}

STATES3 = '{"Connecting", "Connected", "Disconnected"}'


def run(ctx):
    if ctx.replay:
        rep = json.load(open(ctx.replay))["replay"]
        if "sysword" in rep:
            raise ToolError("replay of a system word: run the quick tier (the word family is small and fixed)")
        outs = run_harness(ctx, [rep], "replay")
        judge(ctx, [rep], outs, "replay")
        return
    # the design the property requires holds; the pinned structure is refuted
    mc = dict(MaxChanges=ctx.pick(3, 4), MaxStatus=ctx.pick(2, 3))
    ctx.tlc("socket", "HomeRelay", cfg="HomeRelay_Atomic.cfg", mode="mc", constants=mc,
            require_actions=["SetHome", "ClearHome", "SetStatusAtomic"])
    ctx.tlc("socket", "HomeRelay", cfg="HomeRelay_AsWritten.cfg", mode="mc", constants=mc, expect_violation="HomeIsChosen")
    # system level: RelayActor + ActiveRelayActors with their SetHomeRelay messages and connection state machines
    ctx.tlc("socket", "HomeRelaySystem", mode="mc", constants=dict(MaxChanges=ctx.pick(3, 4), MaxSteps=ctx.pick(4, 6)),
            require_actions=["NetworkChange", "Recv", "Step"])
    ctx.tlc("socket", "HomeRelaySystem", cfg="HomeRelaySystem_Promoted.cfg", mode="mc",
            constants=dict(MaxChanges=3, MaxSteps=2), expect_violation="HomeIsChosen")
    gens = ctx.pick([dict(States='{"Connected", "Disconnected"}', MaxChanges=2, MaxStatus=1)],
                    [dict(States=STATES3, MaxChanges=3, MaxStatus=1),
                     dict(States='{"Connected", "Disconnected"}', MaxChanges=2, MaxStatus=2)])
    for n, consts in enumerate(gens):
        res = ctx.tlc("socket", "HomeRelay", cfg="HomeRelay_Gen.cfg", mode="gen", constants=consts, timeout=1800,
                      require_actions=["SetHome", "ClearHome", "Read", "Skip", "Write"])
        words = res.replays
        if not words:
            raise ToolError("HomeRelay_Gen produced no words")
        outs = run_harness(ctx, words, "g%d" % n)
        accepted = judge(ctx, words, outs, "g%d" % n)
        if n == 0:
            binding_selftest(ctx, accepted)
    system(ctx)
    end_to_end(ctx)
    ctx.cov["rule"] = ("every complete word (all set_status calls finished) of SetHome/ClearHome/Read/Skip/Write over two URLs up to "
                       "MaxChanges home changes and MaxStatus calls per actor (exhaustive); a word is non-trivial when a home "
                       "change happens between an actor's read and its write")
    ctx.cov["exhaustive"] = True
    ctx.assume("the pause point sits between the get and the set of set_status; hook events are emitted by the thread that "
               "performed the step, and the harness runs one step at a time, so event order is the order of the steps")


def sys_lines(o):
    """Merges the hook events of one call into one trace line and carries the advertised value along."""
    evs = o["events"]
    blank = {"url": "", "home": "none", "state": "none", "is_home": False, "connected": False, "wrote": False, "wstate": ""}
    lines = [dict(blank, ev="reset")]
    cur = ("none", "none")
    i = 0
    while i < len(evs):
        e = evs[i]
        if e["ev"] == "network_change":
            ln = dict(blank, ev="net", url=e["url"])
            if i + 1 < len(evs) and evs[i + 1]["ev"] in ("set", "clear"):
                i += 1
                cur = (evs[i]["home"], evs[i]["state"])
            ln["home"], ln["state"] = cur
        elif e["ev"] in ("set", "clear"):
            # HomeRelayWatch::set / clear not preceded by on_network_change: someone else wrote the URL
            cur = (e["home"], e["state"])
            ln = dict(blank, ev="foreign_set", url=e["home"], home=cur[0], state=cur[1])
        elif e["ev"] == "recv":
            ln = dict(blank, ev="recv", url=e["url"], is_home=e["is_home"], connected=e["connected"])
            # the guarded republish of a promoted connected actor belongs to the same step
            j = i + 1
            if e["is_home"] and e["connected"] and j < len(evs) and evs[j]["url"] == e["url"] and evs[j]["ev"] in ("read", "done"):
                while evs[j]["ev"] != "done":
                    j += 1
                cur = (evs[j]["home"], evs[j]["state"])
                i = j
            ln["home"], ln["state"] = cur
        elif e["ev"] in ("read", "done"):
            j, wrote, wstate = i, False, ""
            while evs[j]["ev"] != "done":
                if evs[j]["ev"] == "write":
                    wrote, wstate = True, evs[j]["state"]
                j += 1
                if j >= len(evs):
                    return lines          # recording ended inside a call
            cur = (evs[j]["home"], evs[j]["state"])
            ln = dict(blank, ev="status", url=e["url"], wrote=wrote, wstate=wstate, home=cur[0], state=cur[1])
            i = j
        elif e["ev"] == "final":
            ln = dict(blank, ev="final", home=e["home"], state=e["state"])
        else:
            i += 1
            continue
        lines.append(ln)
        i += 1
    return lines


def system(ctx):
    """Binding of HomeRelaySystem.tla: a real RelayActor with three in-process relay servers is driven along the words in
    which a connected ActiveRelayActor handles its promotion only after another home relay was chosen."""
    res = ctx.tlc("socket", "HomeRelaySystem", cfg="HomeRelaySystem_Gen.cfg", mode="gen", constants=dict(MaxChanges=2),
                  require_actions=["NetworkChange", "Recv"])
    words = res.replays
    if not words:
        raise ToolError("HomeRelaySystem_Gen produced no words")
    if ctx.quick:
        import random
        words = sorted(words, key=lambda w: json.dumps(w["word"]))
        random.Random(ctx.seed).shuffle(words)
        words = words[:20]
    inp = ctx.write_ndjson("c26-sys.in", [{"word": w["word"]} for w in words])
    outp = ctx.path("c26-sys.out")
    ctx.run_bin("vh_netrep", ["c26sys", "--in", inp, "--out", outp], timeout=1800)
    outs = ctx.read_ndjson(outp)
    if len(outs) != len(words):
        raise ToolError("harness returned %d observations for %d words" % (len(outs), len(words)))
    lines, owner = [], []
    for wi, o in enumerate(outs):
        if o.get("env_error"):
            raise ToolError("system run, word %d %s: %s" % (wi, words[wi]["word"], o["env_error"]))
        for ei, ln in enumerate(sys_lines(o)):
            lines.append(ln)
            owner.append((wi, ei))
    tf = ctx.write_ndjson("c26-sys.trace", lines)
    res = ctx.tlc_trace("socket", "Trace_HomeRelaySystem", tf, cfg="Trace_HomeRelaySystem_Batch.cfg", timeout=1800)
    if res.trace_rejected_at is not None:
        at = res.trace_rejected_at
        wi, ei = owner[at - 1] if 0 < at <= len(owner) else (-1, -1)
        raise ToolError("system trace of word %d not explainable by HomeRelaySystem at line %d: %s; lines of the word: %s"
                        % (wi, ei, lines[at - 1] if 0 < at <= len(lines) else "eof",
                           [[x["ev"], x["url"], x["home"], x["state"]] for x, (w2, _) in zip(lines, owner) if w2 == wi]))
    first = {}
    for p in res.printed:
        m = re.match(r'^<<"C26-VIOLATED", "(\w+)", (\d+), (\d+)>>', p)
        if m:
            wi, ei = owner[int(m.group(3)) - 1]
            if wi not in first or ei < first[wi][0]:
                first[wi] = (ei, m.group(1))
    confirmed = False
    for wi, (w, o) in enumerate(zip(words, outs)):
        wl = [x for x, (w2, _) in zip(lines, owner) if w2 == wi]
        key = ["sys"] + [[x["ev"], x["url"], x["home"], x["state"]] for x in wl[1:]]
        ctx.count(case_key=key, nontrivial=True)
        if wi in first:
            ei, inv = first[wi]
            ln = wl[ei]
            if not confirmed:
                r1 = ctx.tlc_trace("socket", "Trace_HomeRelaySystem", ctx.write_ndjson("c26-sys-w%d.trace" % wi, wl),
                                   cfg="Trace_HomeRelaySystem.cfg")
                if r1.violated != "HomeIsChosen":
                    raise ToolError("batch and single-word validation disagree on system word %d" % wi)
                confirmed = True
            ctx.report({"inv": inv, "at": ln["ev"], "schedule": "promotion_handled_after_another_home_was_chosen",
                        "advertised": "demoted_url"},
                       "real RelayActor, word %s (after: b and a connected, a home): after %s(%s) the watchable advertises %s/%s although "
                       "the RelayActor chose another relay last; final value %s/%s"
                       % ([s2["op"] + "(" + s2["url"] + ")" for s2 in w["word"]], ln["ev"], ln["url"], ln["home"], ln["state"],
                          wl[-1]["home"], wl[-1]["state"]), {"sysword": w["word"]})
        elif len(ctx.cov["samples"]) < 6 and wi < 2:
            ctx.sample({"system_word": [s2["op"] + "(" + s2["url"] + ")" for s2 in w["word"]], "trace": key[1:],
                        "skipped_steps": o["skipped"]}, limit=6)
    ctx.log("system: %d words driven on a real RelayActor, %d with HomeIsChosen violated" % (len(words), len(first)))


def end_to_end(ctx):
    """Growth: the HomeRelayWatch events of a live Endpoint (RelayActor and ActiveRelayActor tasks on a multi-thread
    runtime, local relay server; recorded by the C25 driver) must be a behaviour of the same spec with the C26
    invariants holding."""
    word = ["req", "probe", "send_done", "unlock", "on_done"]
    inp = ctx.write_ndjson("c26-e2e.in", [{"word": word}] * ctx.pick(1, 4))
    outp = ctx.path("c26-e2e.out")
    ctx.run_bin("vh_netrep", ["c25", "--in", inp, "--out", outp], timeout=1800)
    evs = []
    for o in ctx.read_ndjson(outp):
        if o.get("env_error"):
            raise ToolError("end-to-end run: %s" % o["env_error"])
        evs += o["home_events"]
    # a read event does not know the state its call will write: take it from the write that follows
    lines, pending = [{"ev": "reset"}], {}
    for i, e in enumerate(evs):
        ln = {"ev": e["ev"], "url": e["url"], "want": "Connecting", "kind": "", "home": e["home"], "state": e["state"]}
        if e["ev"] == "read":
            nxt = next((x for x in evs[i + 1:] if x["url"] == e["url"] and x["ev"] in ("write", "done")), None)
            if nxt is None or nxt["ev"] != "write":
                break                      # the run ended inside this call
            ln["want"] = nxt["state"]
            pending[e["url"]] = True
        elif e["ev"] == "done":
            ln["kind"] = "write" if pending.pop(e["url"], False) else "skip"
        lines.append(ln)
    while lines and lines[-1]["ev"] in ("read", "write") and lines[-1]["url"] in pending:
        lines.pop()                        # drop a call cut off by the end of the recording
        if lines and lines[-1]["ev"] == "read":
            lines.pop()
    if len(lines) < 4:
        raise ToolError("end-to-end run recorded only %d HomeRelayWatch events" % (len(lines) - 1))
    tf = ctx.write_ndjson("c26-e2e.trace", lines)
    res = ctx.tlc_trace("socket", "Trace_HomeRelay", tf, cfg="Trace_HomeRelay.cfg")
    if res.violated:
        ctx.report({"inv": res.violated, "at": "e2e", "schedule": "live_endpoint", "advertised": "other"},
                   "HomeRelayWatch events of a live endpoint violate %s: %s" % (res.violated, [[x["ev"], x["url"], x["home"], x["state"]] for x in lines[1:]]),
                   {"word": []})
    elif res.trace_rejected_at is not None:
        raise ToolError("end-to-end HomeRelayWatch trace not explainable at event %d: %s"
                        % (res.trace_rejected_at, lines[res.trace_rejected_at - 1] if res.trace_rejected_at <= len(lines) else "eof"))
    else:
        ctx.count(case_key=["e2e"] + [[x["ev"], x["url"], x["home"], x["state"]] for x in lines[1:]], nontrivial=True)
        ctx.sample({"live_endpoint_home_relay_events": [[x["ev"], x["url"], x["home"], x["state"]] for x in lines[1:]]}, limit=6)
        ctx.log("end-to-end: %d HomeRelayWatch events of a live endpoint accepted" % (len(lines) - 1))


def run_harness(ctx, words, tag):
    inp = ctx.write_ndjson("c26-%s.in" % tag, [{"word": w["word"]} for w in words])
    outp = ctx.path("c26-%s.out" % tag)
    ctx.run_bin("vh_netrep", ["c26", "--in", inp, "--out", outp], timeout=1800)
    outs = ctx.read_ndjson(outp)
    if len(outs) != len(words):
        raise ToolError("harness returned %d observations for %d words" % (len(outs), len(words)))
    for o in outs:
        if o.get("panic"):
            raise ToolError("harness panicked on word %d: %s" % (o["case"], o["panic"]))
        if o.get("hang"):
            raise ToolError("a HomeRelayWatch call never returned on word %d (not a C26 matter)" % o["case"])
    return outs


def trace_lines(o):
    return [{"ev": "reset"}] + o["events"]


def interleaved(word):
    """A home change between an actor's read and its write (input class of the race)."""
    open_reads = set()
    for s in word:
        if s["op"] == "read":
            open_reads.add(s["url"])
        elif s["op"] == "write":
            open_reads.discard(s["url"])
        elif s["op"] in ("set_home", "clear") and open_reads:
            return True
    return False


def classify(events, idx, inv):
    """Signature of the first violating event of a word (idx: index into events)."""
    e = events[idx]
    sched = "other"
    if e["ev"] == "write":
        changed = False
        for p in reversed(events[:idx]):
            if p["ev"] == "read" and p["url"] == e["url"]:
                sched = "home_changed_between_read_and_write" if changed else "write_right_after_read"
                break
            if p["ev"] in ("set", "clear"):
                changed = True
    return {"inv": inv, "at": e["ev"], "schedule": sched,
            "advertised": "demoted_url" if e["ev"] == "write" else "other"}


def judge(ctx, words, outs, tag):
    lines, owner = [], []          # owner[i] = (word index, event index within the word) of trace line i (0-based)
    for wi, o in enumerate(outs):
        for ei, ln in enumerate(trace_lines(o)):
            lines.append(ln)
            owner.append((wi, ei - 1))
    tf = ctx.write_ndjson("c26-%s.trace" % tag, lines)
    res = ctx.tlc_trace("socket", "Trace_HomeRelay", tf, cfg="Trace_HomeRelay_Batch.cfg", timeout=1800)
    if res.trace_rejected_at is not None:
        at = res.trace_rejected_at
        wi, ei = owner[at - 1] if 0 < at <= len(owner) else (-1, -1)
        raise ToolError("trace of word %d not explainable by HomeRelay at its event %d: %s (word %s)"
                        % (wi, ei, lines[at - 1] if 0 < at <= len(lines) else "eof", words[wi]["word"] if wi >= 0 else "?"))
    first = {}
    for p in res.printed:
        m = re.match(r'^<<"C26-VIOLATED", "(\w+)", (\d+), (\d+)>>', p)
        if m:
            line = int(m.group(3))
            wi, ei = owner[line - 1]
            if wi not in first or ei < first[wi][0]:
                first[wi] = (ei, m.group(1))
    confirmed = set()
    accepted = []
    for wi, (w, o) in enumerate(zip(words, outs)):
        key = [[s["op"], s["url"], s["state"]] for s in w["word"]]
        ctx.count(case_key=key, nontrivial=interleaved(w["word"]))
        if wi in first:
            ei, inv = first[wi]
            sig = classify(o["events"], ei, inv)
            sk = json.dumps(sig, sort_keys=True)
            if sk not in confirmed:
                # the same word alone, with the invariants as TLC invariants
                one = ctx.write_ndjson("c26-%s-w%d.trace" % (tag, wi), trace_lines(o))
                r1 = ctx.tlc_trace("socket", "Trace_HomeRelay", one, cfg="Trace_HomeRelay.cfg")
                if r1.violated not in ("HomeIsChosen", "WrittenByChosen"):
                    raise ToolError("batch and single-word validation disagree on word %d" % wi)
                confirmed.add(sk)
            ev = o["events"][ei]
            ctx.report(sig, "forced word %s: after %s(%s) the watchable advertises %s/%s although the relay most recently chosen is "
                            "another one (%s violated on the reconstructed state)"
                       % ([s["op"] + ("(%s)" % s["url"] if s["url"] != "none" else "") for s in w["word"]], ev["ev"], ev["url"],
                          ev["home"], ev["state"], inv), {"word": w["word"]})
        else:
            accepted.append((w, o))
            if interleaved(w["word"]) or len(w["word"]) >= 5:
                ctx.sample({"word": key, "events": [[e["ev"], e["url"], e["home"], e["state"]] for e in o["events"]],
                            "blocked_steps": o["blocked"]})
        if o.get("watcher_differs"):
            ctx.report({"inv": "watcher", "at": "final", "schedule": "any", "advertised": "watcher_differs_from_get"},
                       "a fresh watcher and get() disagree at the end of word %s" % key, {"word": w["word"]})
    return accepted


def binding_selftest(ctx, accepted):
    """The trace binding must bite: a corrupted accepted trace has to be rejected."""
    cand = [(w, o) for (w, o) in accepted if any(e["ev"] == "write" for e in o["events"])]
    if not cand:
        raise ToolError("no accepted word with a write to corrupt")
    w, o = cand[len(cand) // 2]
    ev = [dict(e) for e in o["events"]]
    i = next(k for k, e in enumerate(ev) if e["ev"] == "write")
    ev[i]["home"] = "b" if ev[i]["home"] == "a" else "a"          # advertised URL after the write falsified
    bad = ctx.write_ndjson("c26-selftest1.trace", [{"ev": "reset"}] + ev)
    before = ctx.cov["traces_validated_against_impl"]
    r = ctx.tlc_trace("socket", "Trace_HomeRelay", bad, cfg="Trace_HomeRelay.cfg")
    if r.trace_rejected_at is None and r.violated is None:
        raise ToolError("binding self-test: a trace with a falsified advertised URL was accepted")
    ev = [dict(e) for e in o["events"]]
    del ev[i]                                                       # the write event dropped
    bad = ctx.write_ndjson("c26-selftest2.trace", [{"ev": "reset"}] + ev)
    r = ctx.tlc_trace("socket", "Trace_HomeRelay", bad, cfg="Trace_HomeRelay.cfg")
    if r.trace_rejected_at is None and r.violated is None:
        raise ToolError("binding self-test: a trace with a missing write was accepted")
    ctx.cov["traces_validated_against_impl"] = before
    ctx.log("binding self-test: 2 corrupted traces rejected")
