"""C22 — Address resolution for a connect is answered exactly once and correctly (DESIGN.md §6 C22).

Spec: specs/socket/PathState.tla — RemotePathState (paths, pending resolve requests) plus the three State methods
that drive it (handle_msg_resolve_remote, trigger_address_lookup, handle_address_lookup_item); pruning is
PathPrune!Prune (the C23 operator, instantiated).

Steps of one run
  1. TLC, full state space (no step bound; 4 addresses of which one relay, thresholds 3/1, <= MaxReq requests, with and
     without lookup services): AnsweredOnce, OkMeansKnown, ErrOnlyAtLookupEnd, Immediate, NoWaitingWhileKnown,
     PendingConsistent, WaitingHasLookup, NonEmptyStable, and under fair lookup completion EventuallyAnswered.
     The same model with the pinned code's pruning rule (CodeRule = TRUE) is refuted on NonEmptyStable: the C23
     defect can empty a non-empty path set (anti-vacuity, and it predicts the finding below).
  2. TLC -simulate generates histories (seeded) with the replies the model expects after every step.
  3. vh_remote c22 replays them
       "state": on the real RemotePathState through the cfg-guarded wrapper; every model address is a block of 10
                real addresses of mixed kinds, so the real thresholds 30/10 are 10 x the model's 3/1 and pruning
                really happens; compared per step: the replies that appeared (request id, Ok / NoResults /
                NoServiceConfigured), whether the path set is empty, the number of queued requests;
       "actor": on a real RemoteStateActor behind a real RemoteMap (tokio paused clock) with a scripted address
                lookup service fed by the harness (items, end of stream) or with no service configured; compared:
                the replies (at the steps where the model's lookup is settled) and whether a lookup is running
                while requests wait.
  4. The comparison uses only what C22 determines (replies, emptiness); the exact path set is C23's business.

Genuine finding (consequence of the open C23 defect, same root cause, not repairable without the C23 fix that the
suite blocks): on the real RemotePathState, a remote with >= 30 non-relay paths none of which is open/unknown and
at most 10 inactive ones loses *all* paths at the next prune (any insert_multiple, even an empty one from a
ResolveRemote without addresses), so "once a remote has a known path it never loses all of them" fails and the
resolve request that triggered it is queued instead of answered Ok.  Recorded as open known finding
C22_paths_emptied_by_prune (known_findings.d/C22.json); proposed_fixes/C23.diff repairs it.

Self-tests run on 2026-09-22 (private snapshot copy of /repo, patches in seeded/remote/):
  * `insert_multiple` wakes pending requests whenever the set *was* empty (DESIGN §12: wake on an empty insert)
    -> VIOLATION sig {kind: reply_mismatch, model: unanswered, real: noresults} at both levels (state and actor), first on
    the replayed regression scenario resolve([]), resolve([]), item([1]), end(ok);
  * proposed_fixes/C23.diff applied -> the paths_emptied finding no longer reproduces (0 known-finding hits);
  * a pruning mutation (Unknown paths pruned) -> VIOLATION {kind: paths_emptied, regime: other}: not absorbed by the
    known finding, whose match requires the as-written rule's regime;
  * reverted -> exit 0 with only the KNOWN-FINDING line.
"""
import json

from vlib import ToolError

META = {
    "level": "model_checking",
    "engine": "remote-state",
    "technique": "TLA+ spec PathState (instantiating PathPrune) checked by TLC incl. liveness under fair lookup completion; "
                 "TLC-simulated histories replayed on the real RemotePathState and on a real RemoteStateActor with a scripted "
                 "lookup service (mode A)",
    "text": "TLC explores every interleaving of resolve requests (with empty, duplicate, new and relay address sets), lookup "
            "items and completions (ok / no results / no service configured), path opens and abandons with pruning, for up to "
            "3 requests over 4 addresses, and checks exactly-once answering, Ok iff a path is known, failure only at a lookup "
            "end with no path, immediacy, stability of non-emptiness and eventual answering. Simulated histories are executed on "
            "the real code and every reply and the emptiness of the path set are compared after each step.",
    "note": "Failure replies are compared by kind (NoResults vs NoServiceConfigured); the error list inside NoResults is not. "
            "At actor level only requests, lookup items and lookup ends can be driven (no live noq connection in the unit "
            "driver), so opens/abandons are covered at the RemotePathState level only. 'Immediately' is read as: in the same "
            "handler call (state level) / visible after letting the actor run without advancing time (actor level).",
    "design_ref": "§6 C22",
}

BASE = {"NAddr": 4, "NRelayAddr": 1, "ArgSets": "{{}, {1}, {1, 2, 3}, {4}}", "MAXP": 3, "MAXI": 1}


def run(ctx):
    # 1. exhaustive
    for services in ctx.pick(("TRUE",), ("TRUE", "FALSE")):
        c = dict(BASE, MaxReq=ctx.pick(2, 3), MaxClock=3, MaxSteps=0, Services=services, CodeRule="FALSE",
                 TrackHist="FALSE", ActorOnly="FALSE")
        ctx.tlc("socket", "PathState", cfg="PathState_mc.cfg", constants=c, timeout=2400, coverage=(services == "TRUE"),
                require_actions=["Resolve", "LookupItem", "LookupEnd", "OpenPath", "Abandon", "Select", "Deselect"])
    c = dict(BASE, MaxReq=2, MaxClock=4, MaxSteps=0, Services="TRUE", CodeRule="TRUE", TrackHist="FALSE", ActorOnly="FALSE")
    ctx.tlc("socket", "PathState", cfg="PathState_mc.cfg", constants=c, timeout=2400, coverage=False,
            expect_violation="NonEmptyStable")
    ctx.cov["as_written_prune_rule_refuted_on_NonEmptyStable"] = True

    # 2. histories
    if ctx.replay:
        cases = [json.load(open(ctx.replay))["replay"]["behaviour"]]
    else:
        cases = directed(ctx)
        plan = [("state", "TRUE", "FALSE", ctx.pick(400, 6000), 9), ("actor", "TRUE", "TRUE", ctx.pick(200, 3000), 7),
                ("actor", "FALSE", "TRUE", ctx.pick(40, 300), 6)]
        if not ctx.quick:
            plan.append(("state", "FALSE", "FALSE", 1500, 8))
        for level, services, actoronly, n, steps in plan:
            c = dict(BASE, MaxReq=3, MaxClock=6, MaxSteps=steps, Services=services, CodeRule="FALSE", TrackHist="TRUE",
                     ActorOnly=actoronly)
            res = ctx.tlc("socket", "PathState", cfg="PathState_gen.cfg", mode="sim", sim=n, depth=steps + 1, constants=c,
                          timeout=2400)
            seen = set()
            for r in res.replays:
                key = json.dumps(r["steps"], sort_keys=True)
                if key in seen:
                    continue
                seen.add(key)
                cases.append({"case": len(cases) + 1, "level": level, "services": r["services"], "scale": 10, "nonrelay": 3,
                              "origin": "simulated", "steps": r["steps"]})
        if not cases:
            raise ToolError("no histories generated")

    # 3. real code
    inp = ctx.write_ndjson("c22.in", cases)
    outp = ctx.path("c22.out")
    ctx.run_bin("vh_remote", ["c22", "--in", inp, "--out", outp])
    obs = ctx.read_ndjson(outp)
    if len(obs) != len(cases):
        raise ToolError("harness returned %d observations for %d behaviours" % (len(obs), len(cases)))
    for b, o in zip(cases, obs):
        judge(ctx, b, o)
    if not ctx.replay and not ctx.violations:
        selftest(ctx, cases)
    ctx.cov["rule"] = ("model: all reachable states for the constants (exhaustive); implementation: seeded TLC simulation of "
                       "histories of 5-9 steps, deduplicated; non-trivial = the history contains a request that had to wait")
    ctx.cov["exhaustive"] = False
    ctx.assume("lookup services eventually finish (the statement's proviso; WF on LookupEnd in the model)")
    ctx.assume("block concretisation: 10 real addresses per model address scale thresholds 3/1 to the real 30/10")


def op(name, addrs=(), addr=0, how=""):
    return {"op": name, "addrs": list(addrs), "addr": addr, "how": how}


# the repository's regression tests (path_state.rs: empty_insert_does_not_drain_pending,
# address_lookup_finished_empty_emits_no_results) and variations, as operation sequences
FIXED = [
    [op("resolve"), op("resolve"), op("item", [1]), op("end", how="ok")],
    [op("resolve"), op("end", how="noresults")],
    [op("resolve"), op("item"), op("resolve"), op("end", how="ok")],
    [op("resolve", [1]), op("resolve"), op("end", how="noresults"), op("resolve", [1])],
    [op("resolve"), op("item", [4]), op("resolve"), op("end", how="ok")],
    [op("resolve"), op("open", addr=2), op("abandon", addr=2), op("resolve"), op("end", how="noresults")],
]


def directed(ctx):
    """Scenarios whose operations are given and whose expected observations TLC computes (Script_PathState)."""
    scripts = [{"ops": f, "origin": "repository regression test / variation"} for f in FIXED]
    # operation sequences after which the as-written pruning rule has emptied a non-empty path set (TLC witnesses)
    c = dict(BASE, MaxReq=2, MaxClock=4, MaxSteps=ctx.pick(6, 8), Services="TRUE", CodeRule="TRUE", TrackHist="TRUE",
             ActorOnly="FALSE")
    wit = ctx.tlc("socket", "PathState", cfg="PathState_witness.cfg", mode="gen", constants=c, timeout=2400, coverage=False)
    ws = sorted((w["steps"] for w in wit.replays), key=lambda st: (len(st), json.dumps(st, sort_keys=True)))
    if not ws:
        raise ToolError("TLC found no witness for the as-written pruning rule emptying a path set")
    for st in ws[:ctx.pick(12, 60)]:
        scripts.append({"ops": [op(x["op"], x["addrs"], x["addr"], x["how"]) for x in st],
                        "origin": "witness of the as-written pruning rule (TLC, CodeRule = TRUE)"})
    ctx.cov["directed_scripts"] = len(scripts)
    sfile = ctx.write_ndjson("c22.scripts", [{"ops": x["ops"]} for x in scripts])
    c = dict(BASE, MaxReq=3, MaxClock=9, MaxSteps=99, Services="TRUE", CodeRule="FALSE", TrackHist="TRUE", ActorOnly="FALSE")
    res = ctx.tlc("socket", "Script_PathState", cfg="Script_PathState.cfg", mode="gen", constants=c, env={"SCRIPT": sfile},
                  timeout=2400, coverage=False)
    done = {r["script"]: r for r in res.replays}
    cases = []
    for k, sc in enumerate(scripts, start=1):
        if k not in done:
            raise ToolError("the model cannot execute directed script %d: %s" % (k, [x["op"] for x in sc["ops"]]))
        levels = ["state"] + (["actor"] if all(x["op"] in ("resolve", "item", "end") for x in sc["ops"]) else [])
        for level in levels:
            cases.append({"case": len(cases) + 1, "level": level, "services": True, "scale": 10, "nonrelay": 3,
                          "origin": sc["origin"], "steps": done[k]["steps"]})
    return cases


def ops_of(b):
    return [s["op"] + ("(%s)" % (s["addrs"] if s["op"] in ("resolve", "item") else s["addr"] if s["op"] in ("open", "abandon")
                                   else s["how"] if s["op"] == "end" else "")) for s in b["steps"]]


class _Dry:
    """Collects what judge() would report (binding self-test)."""
    def __init__(self):
        self.reports = []

    def count(self, *a, **k):
        pass

    def sample(self, *a, **k):
        pass

    def report(self, sig, what, replay):
        self.reports.append(sig)


def selftest(ctx, cases):
    """Binding self-test: a history executed with one operation left out must no longer match the model's expectations."""
    picked = []
    for b in cases:
        ops = [s["op"] for s in b["steps"]]
        # an item / open that makes waiting requests succeed: without it the replies must differ
        for k, s in enumerate(b["steps"]):
            if s["op"] in ("item", "open") and any(a["res"] == "ok" for a in s["answers"]):
                picked.append((b, k))
                break
        if len(picked) >= ctx.pick(4, 40):
            break
    if not picked:
        raise ToolError("binding self-test: no history with a waking item/open step")
    corrupted = []
    for n, (b, k) in enumerate(picked):
        c = dict(b, case=n + 1, steps=b["steps"][:k] + b["steps"][k + 1:])
        corrupted.append(c)
    inp = ctx.write_ndjson("c22-selftest.in", corrupted)
    outp = ctx.path("c22-selftest.out")
    ctx.run_bin("vh_remote", ["c22", "--in", inp, "--out", outp])
    obs = ctx.read_ndjson(outp)
    rejected = 0
    for (b, k), o in zip(picked, obs):
        # judge the corrupted execution against the expectations of the remaining steps of the original history
        expect = dict(b, steps=b["steps"][:k] + b["steps"][k + 1:])
        dry = _Dry()
        judge(dry, expect, o)
        if not dry.reports:
            raise ToolError("binding self-test: history %s executed without its step %d still matched the model" % (ops_of(b), k + 1))
        rejected += 1
    ctx.cov["binding_selftests"] = {"histories_with_a_step_removed": len(picked), "rejected": rejected}


def judge(ctx, b, o):
    waited = any(s["npending"] > 0 for s in b["steps"])
    ctx.count(case_key=[b["level"], b["services"], ops_of(b)], nontrivial=waited)
    replay = {"behaviour": b, "observed": o}
    if o["panic"]:
        ctx.report({"kind": "panic", "level": b["level"]}, "panic while replaying %s: %s" % (ops_of(b), o["panic"]), replay)
        return
    if waited and len(b["steps"]) >= 5 and any(a["res"] != "ok" for s in b["steps"] for a in s["answers"]):
        ctx.sample({"level": b["level"], "services": b["services"], "steps": ops_of(b),
                    "replies_model": [[(a["id"], a["res"]) for a in s["answers"]] for s in b["steps"]],
                    "replies_real": [[(a["id"], a["res"]) for a in s["answers"]] for s in o["steps"]]})
    cum_m, cum_r = {}, {}
    for k, (ms, rs) in enumerate(zip(b["steps"], o["steps"])):
        for a in ms["answers"]:
            cum_m[a["id"]] = a["res"]
        for a in rs["answers"]:
            if a["id"] in cum_r:
                ctx.report({"kind": "answered_twice", "level": b["level"]},
                           "request %d answered twice (step %d of %s)" % (a["id"], k + 1, ops_of(b)), replay)
                return
            cum_r[a["id"]] = a["res"]
        if b["level"] == "state":
            if rs["empty"] != ms["empty"]:
                if rs["empty"] and not ms["empty"]:
                    before = o["steps"][k - 1]["counts"] if k else [0] * 5      # [open, unknown, unusable, inactive, relay]
                    regime = ("no_live_or_relay_path_ge30_nonrelay_le10_inactive"
                              if before[0] == before[1] == before[4] == 0 and sum(before[:4]) >= 30 and before[3] <= 10
                              and before[2] < sum(before[:4]) else "other")
                    ctx.report({"kind": "paths_emptied", "by": "prune" if ms["op"] in ("resolve", "item", "open") else ms["op"],
                                "regime": regime},
                               "step %d (%s) of %s left the real path set empty; the model (required pruning rule) still "
                               "knows a path" % (k + 1, ops_of(b)[k], ops_of(b)[:k + 1]), replay)
                else:
                    ctx.report({"kind": "emptiness", "level": "state"},
                               "step %d (%s): real path set %s, model %s" % (k + 1, ops_of(b)[k], rs["empty"], ms["empty"]), replay)
                return          # the histories diverge from here on
            sync = True
        else:
            if rs["note"]:
                ctx.report({"kind": "lookup_not_running", "level": "actor"},
                           "step %d (%s) of %s: %s although the model has a lookup running" % (k + 1, ops_of(b)[k], ops_of(b), rs["note"]),
                           replay)
                return
            # without services the real stream yields NoServiceConfigured by itself: compare where the model has settled
            sync = b["services"] or ms["lookup"] == "idle"
            if sync and ms["npending"] > 0 and not rs["lookup_running"]:
                ctx.report({"kind": "waiting_without_lookup", "level": "actor"},
                           "after step %d (%s) of %s requests wait but no address lookup is running" % (k + 1, ops_of(b)[k], ops_of(b)),
                           replay)
                return
        if sync and cum_m != cum_r:
            diff = {i: (cum_m.get(i, "unanswered"), cum_r.get(i, "unanswered")) for i in set(cum_m) | set(cum_r)
                    if cum_m.get(i) != cum_r.get(i)}
            i = sorted(diff)[0]
            ctx.report({"kind": "reply_mismatch", "level": b["level"], "model": diff[i][0], "real": diff[i][1]},
                       "after step %d (%s) of %s: request %d is %s in the model but %s on the real code"
                       % (k + 1, ops_of(b)[k], ops_of(b), i, diff[i][0], diff[i][1]), replay)
            return
        if sync and b["level"] == "state" and rs["npending"] != ms["npending"]:
            ctx.report({"kind": "pending_count", "level": "state"},
                       "after step %d (%s): %d requests queued, model %d" % (k + 1, ops_of(b)[k], rs["npending"], ms["npending"]), replay)
            return
